"""Which units, functions, oracles and Kani harnesses decide which property."""

# property -> configuration
#   units:      Verus units to extract + verify
#   functions:  functions whose *untagged* obligations (panic unreachable, index in
#               range, overflow, termination, call-site preconditions, untagged
#               invariants) count for this property.  Tagged clauses
#               (`// #label [C15,C10]`) count for the properties they name.
#   oracles:    replay oracles used to attach a witness to a failed obligation
#               {function-key-or-'*': oracle name}
#   kani:       {tier: [harness,...]}
PROPS = {
    'C06': {
        'units': ['unify', 'solver_ext', 'compare', 'listops', 'append'],
        'functions': ['unifiable.rs::Unifiable::unify'],
        'oracles': {'#mgu': 'c06_mgu', '#args_mgu_inv': 'c06_mgu', '#list_mgu_inv': 'c06_mgu', '#args_mgu_step': 'c06_mgu', '#sound': 'c06_mgu', '#args_sound_inv': 'c06_mgu', '#bind_sound': 'c06_mgu', '#list_sound_inv': 'c06_mgu',
                    '#list_sound_step': 'c06_mgu', '#list_sound_exits': 'c06_mgu', '*': 'c06_keeps',
                    '#answer_extends': 'c01_prog', '#ext_kept': 'c01_prog', '#ext_inv': 'c01_prog', '#bindings_fixed': 'c01_prog',
                    # the built-in predicates share their code with the reference interpreter of c01_prog: their own oracles give the witnesses
                    'built_in_functor.rs::next_solution_functor': 'c17_functor', 'built_in_filter.rs::bip_include': 'c17_filter', 'built_in_filter.rs::bip_exclude': 'c17_filter', 'built_in_count.rs::bip_count': 'c17_count', 'built_in_append.rs::next_solution_append': 'c16_append'},
        'bounded': [('c06_mgu', 'supplementary to the proof (soundness, completeness and generality are all under proof): success exactly when a unifier exists, identical when resolved, no more bindings than an MGU - against a reference unifier: '
                                '22 terms (atoms, numbers, variables, $_, complex terms, lists with and without tail variables) pairwise under 7 prior substitutions; occurs-check pairs skipped')],
        'not_covered': [
            "'keeps every earlier binding' through the search, PROVED since 8.38 (unit solver_ext; C01): every answer of a solution node extends the bindings the node was made with, the built-in predicates keep the bindings they are given (#keeps_bindings, units compare / listops / append)",
            'PROVED for all `clean` terms and substitutions (no `$_` - C09 -, no function term - C13 -, no NaN float, lists never entered at a tail-variable node): COMPLETENESS and MOST-GENERALITY in one clause (#mgu, spec/mgu.rs): '
            'for every assignment of finite value trees to variables that respects the prior bindings and gives the two terms the same value, unify succeeds and the assignment respects the resulting substitution '
            '(so unify fails only when no unifier extending the prior bindings exists, and every such unifier is an instance of the result); pairs that would need an occurs check have no finite solution and are outside the clause, as in the statement',
            'soundness (identical when resolved, to every depth; $_ as wildcard; a tail variable standing for the rest of the other list) is proved in the resolved-term formalism (spec/sound.rs), completeness/generality in the value-tree formalism (spec/mgu.rs); '
            'float equality is IEEE `==` in the first (0.0 = -0.0 unify) and identity of the value in the second - the two clauses are not connected by a proved theorem',
            'termination of unify (recursion through bound variables has no structural measure; exec_allows_no_decreases_clause)',
        ],
    },
    'C08': {
        'units': ['unify', 'subst', 'replace', 'solver_wf', 'solutions_ids', 'compare', 'listops', 'append'],
        'functions': ['substitution_set.rs::get_ground_term', 'substitution_set.rs::is_ground_variable', 'unifiable.rs::Unifiable::replace_variables'],
        'oracles': {'unifiable.rs::Unifiable::replace_variables': 'c08_fn_answers', '#value': 'c08_resolve', '*': 'c08_cycle',
                    '#wf_kept': 'c01_prog', '#wf_inv': 'c01_prog', '#pre_wf': 'c01_prog', '#unify_pre': 'c01_prog', '#pre_bindings': 'c01_prog', '#pre_terms': 'c01_prog', '#pre_ss': 'c01_prog', '#bindings_stay_good': 'c01_prog'},
        'not_covered': [
            "PROVED since 8.37 (unit solver_wf: overlay contracts contracts/*+acy.vc on the verbatim bodies of next_solution, next_solution_and / _or / _bip, make_solution_node, make_base_node, set_head_node; solve / solve_all in unit solutions_ids): "
            "'after ANY sequence of successful unifications' as an invariant of the whole search - every goal of the search state holds terms unify accepts, and every set of bindings, in a node or returned as an answer, is well formed and acyclic "
            "(heap_wf; #wf_kept, #wf_inv); so the preconditions of unify (#pre_terms, #pre_ss), of the ten built-in predicates and of print / print_list (#pre_bindings) are PROVED at the solver's call sites, "
            "and the built-in predicates return well-formed acyclic bindings (#bindings_stay_good, proved in units compare, listops, append). RELATIVE TO: the stored rules are well formed (what the parsers return: C18 #parsed_wf) and the query is; "
            "the built-in predicates' preconditions on the SHAPE of their arguments (they panic otherwise) are not the solver's concern",
            "'resolving answers terminates' is proved for replace_variables (unit replace: decreases = size of the term's value under a solution of the bindings, then a rank along variable chains) under the statement's proviso "
            "'needs no occurs check' = the bindings have a finite solution (solvable) and variable chains end (acyclic, the invariant unify is proved to maintain); that unify preserves solvability is not proved (it does not: $X = f($X) succeeds)",
            "'printing' (Display for Unifiable) recurses on the structure of one term only and is not under contract; format_solution (solutions.rs) is not under contract",
            'termination of unify itself (exec_allows_no_decreases_clause)',
        ],
    },
    'C09': {
        'units': ['unify', 'lists'],
        'functions': [],
        'oracles': {'#anon_sound': 'c09_mgu', '*': 'c09_anon', '#program_level': 'c09_program'},
        'bounded': [('c09_mgu', 'pairs containing `$_` against a reference unifier that treats `$_` as a wildcard: success exactly when a unifier exists, the other positions identical when resolved, no extra bindings (23 terms x 23 terms x 7 prior sets, those with `$_`)')],
        'not_covered': ['programs using $_ in heads and bodies: the clause covers every unify call, hence every position, by modularity; the solver calls unify within its preconditions (unit solver_wf, 8.37). A bounded oracle (c09_program: 30 queries with `$_` against the same queries with fresh named variables, through the real search) looks at the search that makes the calls',
                        'that a list pattern with a `$_` tail reaches unify as such: the constructor make_linked_list keeps `$_` after the bar as the tail (clause #tail, unit lists, tagged C09); the renaming of clause lists is C10'],
    },
    'C13': {
        'units': ['unify', 'functions'],
        'functions': ['built_in_functions.rs::unify_sfunction'],
        'oracles': {'*': 'c13_function'},
        'not_covered': [],
    },
    'C14': {
        'units': ['compare', 'subst', 'contexts_a', 'operands'],
        'functions': ['built_in_comparison.rs::get_two_constants', 'built_in_comparison.rs::bip_equal',
                      'built_in_comparison.rs::bip_less_than', 'built_in_comparison.rs::bip_less_than_or_equal',
                      'built_in_comparison.rs::bip_greater_than', 'built_in_comparison.rs::bip_greater_than_or_equal',
                      'substitution_set.rs::get_constant', 'substitution_set.rs::get_ground_term'],
        'oracles': {'*': 'c14_compare', '#infix_meaning': 'c14_infix', '#builtin_by_name': 'c14_infix', 'parse_goals.rs::parse_subgoal': 'c14_infix', 'parse_goals.rs::make_goal': 'c14_infix', 'parse_goals.rs::get_left_and_right': 'c14_infix', '#operands_alone': 'c14_infix', '#operand_errors': 'c14_infix'},
        'bounded': [('c14_compare', 'all arms against Rust\'s own comparison of the converted operands (the proof of the integer/float arms is relative to the uninterpreted cast value i2f): 2815 operand pairs over extreme integers, -0.0, fractions, atoms, non-constants and variable chains')],
        'not_covered': [
            "'at most once' is the more_solutions flag of next_solution_bip: PROVED in unit solver (clause #once, C05 / C04: a built-in predicate is spent after one request)",
            'float/float arms are proved under the axiom that IEEE comparison is a function of its operands (obeys_eq_spec / obeys_partial_cmp_spec for f64)',
            'integer/float arms are proved relative to i2f(i), the uninterpreted value of the cast `i as f64` (rule R12 routes the cast through an external function; trusted T6: the cast is a function of i); that i2f is the IEEE round-to-nearest conversion is not proved - the bounded enumeration compares with Rust\'s own cast',
            'infix parsing of the operators: PROVED since 8.42 (unit contexts_a) - `L op R` as a subgoal is the built-in predicate named after the operator (== equal, < less_than, <= less_than_or_equal, > greater_than, >= greater_than_or_equal, = unify) applied to the two operands, each parsed on its own (parse_subgoal #infix_meaning, make_goal #builtin_by_name); which character sequence is which operator is check_infix (a function of the text, T10)',
        ],
    },
    'C16': {
        'units': ['append', 'listops', 'lists'],
        'functions': ['built_in_append.rs::next_solution_append', 's_linked_list.rs::get_terms', 's_linked_list.rs::get_list_data'],
        'oracles': {'*': 'c16_append'},
        'not_covered': [
            "'succeeds at most once' is the more_solutions flag of next_solution_bip: PROVED in unit solver (clause #once, C05 / C04)",
            'termination of the walk through bound tails (get_terms) - exec_allows_no_decreases_clause; lists that are their own tail are occurs-check cases',
            'inputs that are unbound variables or have unbound / anonymous tails are outside the statement (precondition)',
        ],
    },
    'C17': {
        'units': ['listops', 'lists'],
        'functions': ['s_linked_list.rs::count_terms', 's_linked_list.rs::filter', 's_linked_list.rs::pass_filter',
                      's_linked_list.rs::get_terms', 's_linked_list.rs::get_list_data',
                      'built_in_count.rs::bip_count', 'built_in_filter.rs::bip_include', 'built_in_filter.rs::bip_exclude',
                      'built_in_functor.rs::next_solution_functor', 'built_in_functor.rs::atoms_match',
                      'built_in_join.rs::evaluate_join', 'built_in_join.rs::is_punctuation'],
        'oracles': {'s_linked_list.rs::filter': 'c17_filter', 's_linked_list.rs::count_terms': 'c17_count',
                    's_linked_list.rs::get_terms': 'c17_terms', 'built_in_join.rs::evaluate_join': 'c17_join', 'built_in_functor.rs::next_solution_functor': 'c17_functor',
                    'built_in_functor.rs::atoms_match': 'c17_functor', '*': 'c17_filter'},
        'not_covered': [
            'join: Display of a term is the uninterpreted `disp` (R10: format!("{}", term) wrapped); `String += &str` and atom!(out) are wrapped into external functions (R10)',
            'functor: the prefix test is str::starts_with, assumed to compare the leading characters (str_has_prefix, R11 / T3)',
            'termination of the walks through bound tails (exec_allows_no_decreases_clause)',
            "include/exclude: 'unify with the filter term' is the uninterpreted unify_ok, tied to the real unify by the purity assumption",
        ],
    },
    'C15': {
        'units': ['lists', 'listops', 'append', 'parsers'],
        'functions': ['s_linked_list.rs::make_linked_list', 's_linked_list.rs::link_front', 's_linked_list.rs::parse_linked_list'],
        'oracles': {'s_linked_list.rs::make_linked_list': 'c15_make_linked_list', 's_linked_list.rs::parse_linked_list': 'c15_parsed'},
        'not_covered': [
            'parsed lists: well-formedness of what parse_linked_list returns is proved; that its elements are the parses of the element texts is PROVED for the lists it returns (C20, parse_linked_list #elements_alone, 8.33)',
        ],
    },
}

PROPS['C07'] = {
    'units': ['unify'],
    'functions': [],
    'oracles': {'*': 'c07_sym'},
    'bounded': [('c07_sym', 'supplementary to the proof: A = B and B = A on the real unify - same outcome, and every variable resolves to the same value up to a consistent renaming of unbound variables '
                            '(22 terms pairwise under 7 prior substitutions, including `$_`, which the proof excludes; occurs-check pairs skipped)')],
    'not_covered': [
        'PROVED: lemma_unify_symmetric (spec/mgu.rs) over the clauses #mgu, #th_sound and #keeps that the verbatim unify is proved against: for clean terms (no `$_`, no function term, no NaN) and any clean prior substitution, '
        'if a finite unifier respecting the prior bindings exists both orders succeed; if one order succeeds with a result that has a solution at all, the other order succeeds; and when both succeed the two results have exactly the same '
        'set of solutions (every variable gets the same value under every instance of either result - the semantic form of "equal up to renaming of unbound variables" for two most general unifiers)',
        'not covered: pairs for which one order succeeds with bindings that have no finite solution (occurs-check situations, e.g. $X = f($X)); pairs containing `$_` (bounded oracle only)',
        "not covered: 'head/goal unification' goes through the solver's call of unify: the clause covers every call of unify, whichever side a list pattern or the empty list is on; that the solver calls unify within its preconditions is PROVED in unit solver_wf (C08, 8.37)",
        'the relation between "same set of solutions" and a syntactic renaming of unbound variables is the standard theorem about most general unifiers; it is not machine-checked here',
    ],
}

PROPS['C10'] = {
    'units': ['rename', 'lists', 'unify', 'functions', 'solver_ids', 'solutions_ids', 'compare', 'listops', 'append'],
    'functions': ['unifiable.rs::Unifiable::recreate_variables', 'unifiable.rs::recreate_vars_terms', 'unifiable.rs::recreate_vars_goals',
                  'goal.rs::Goal::recreate_variables', 'operator.rs::Operator::recreate_variables',
                  'built_in_predicates.rs::BuiltInPredicate::recreate_variables', 'built_in_predicates.rs::BuiltInPredicate::new',
                  'rule.rs::Rule::recreate_variables', 's_linked_list.rs::make_linked_list',
                  'knowledge_base.rs::get_rule', 's_complex.rs::make_query', 's_complex.rs::make_complex'],
    'kani': {'quick': ['c10_counter_contract'], 'thorough': []},
    'oracles': {'knowledge_base.rs::get_rule': 'c10_clause', 's_complex.rs::make_query': 'c10_clause', 's_complex.rs::make_complex': 'c10_clause',
                'rule.rs::Rule::recreate_variables': 'c10_clause', '*': 'c10_rename',
                '#ids_kept': 'c01_prog', '#ids_inv': 'c01_prog', '#pre_ids': 'c01_prog', '#rewind_is_sound': 'c01_prog', '#fresh_for_the_search': 'c01_prog',
                '#nothing_kept_from_a_failed_clause': 'c01_prog', '#ids_released_only_after_failed_unification': 'c01_prog'},
    'not_covered': [
        'PROVED since 8.30: the ids handed out by one use of a clause or query all lie above the value the id counter had when the use began and up to its value when it ended (#ids_fresh, through the whole renaming family; get_rule: `all_fresh`), the counter being modelled as ghost state that next_id moves up by one (T9; Kani harness c10_counter_contract checks next_id itself); unify introduces no id of its own (#no_new_ids). PROVED since 8.36 (unit solver_ids, overlay contracts contracts/*+ids.vc on the verbatim bodies of next_solution, next_solution_and, next_solution_or, next_solution_bip, make_solution_node, make_base_node, set_head_node, over the node heap with the counter as its ghost field `ids`): every variable id referenced from the search state - the goal, the remaining operands and the bindings of every solution node - is at most the counter, before and after every request (ids_ok; #ids_kept, #ids_inv), and so is every answer returned; so the ids get_rule hands out (above the counter as it was: #ids_interval, proved in unit rename) are in use nowhere else in the search, and the rewinding of the counter after a failed head unification gives back ids nothing refers to (#rewind_is_sound). RELATIVE TO, stated as assumptions: get_rule\'s own preconditions at the solver\'s call site (the predicate exists, the stored rules are well formed; unify\'s preconditions at its call sites are PROVED in unit solver_wf, 8.37), the built-in predicates\' preconditions on the SHAPE of their arguments (they panic otherwise; that they introduce no variable of their own - #no_new_ids - is PROVED for all ten in their units compare, listops, append, which name the overlay), and the query was built in the current counter epoch (make_query, #ids_fresh). Answers already handed to the caller are outside the search state',
        "'different names get different ids': one id per name by the map invariant (map_ok, #consistent), ids from next_id(), whose counter contract is proved by Kani on the real static and threaded as ghost state (T9) since 8.30",
        'get_rule: which vector the HashMap returns for a &str key is vstd\'s uninterpreted maps_borrowed_key_to_value (no String/str key axiom in vstd); the contract says the result is the renamed index-th rule of that vector',
        'make_query: the static-mut reset in start_query is covered by C22 (Kani); parse_query\'s call establishes the wf_seq precondition (unit parsers: every parser returns well-formed terms)',
    ],
}

PROPS['C12'] = {
    'units': ['arith', 'contexts_a', 'operands'],
    'functions': ['built_in_arithmetic.rs::get_numbers', 'built_in_arithmetic.rs::get_integers', 'built_in_arithmetic.rs::get_floats',
                  'built_in_arithmetic.rs::evaluate_add', 'built_in_arithmetic.rs::evaluate_subtract',
                  'built_in_arithmetic.rs::evaluate_multiply', 'built_in_arithmetic.rs::evaluate_divide',
                  ],
    'oracles': {'*': 'c12_arith', '#meaning': 'c14_infix', '#flags_inv': 'c14_infix', 'parse_goals.rs::get_left_and_right': 'c14_infix', '#operands_alone': 'c14_infix', '#operand_errors': 'c14_infix'},
    'bounded': [('c12_arith', 'evaluate_add / subtract / multiply / divide against the left-to-right fold computed with Rust\'s own f64 / i64 operators (the proof is relative to vstd\'s uninterpreted f64 operations '
                              'and to i2f): all 1- and 2-argument lists over a pool of 20 extreme integers and floats, '
                              '600 seeded lists of 3-4 arguments per operation (literal, through bound variables, through variable chains), and 2-operand infix forms through parse_term')],
    'kani': {'quick': [], 'thorough': []},
    'not_covered': [
        'RELATIVE TO (trusted T6): the f64 operators + - * / are total functions of their operands (vstd\'s uninterpreted add_spec / sub_spec / mul_spec / div_spec; nothing is assumed about their values) and the cast `i as f64` is a function i2f(i) of the integer; '
        'that these functions are the IEEE-754 operations is the hardware\'s / rustc\'s business - the bounded enumeration compares with Rust\'s own operators bit for bit',
        'rule R13 writes `v.iter().fold(init, |mut acc, &x| {acc op= x; acc})` as the loop Iterator::fold is defined as (trusted T4: core\'s definition of fold for slice iterators; `acc op= x` is `acc = acc op x` for primitive numbers)',
        'subtract / divide with no argument at all panic (Vec::remove(0)); the claim is about the fold of at least one argument there',
        'the infix forms `+ - * /` reach the same four functions through the infix parser: PROVED since 8.33 / 8.42 (unit contexts_a, parse_term #meaning): `L op R` as a term is the function add / subtract / multiply / divide applied to the two operands; the oracle c14_infix checks it on the real parser',
        "'the value is then unified with the other operand' is C13 (proved)",
    ],
}

PROPS['C18'] = {
    'units': ['parsers', 'tokens', 'tokentree'],
    'functions': ['infix.rs::check_infix', 'infix.rs::check_arithmetic_infix', 's_linked_list.rs::equal_escape',
                  'parse_terms.rs::check_quotes', 'parse_terms.rs::parse_arguments', 'parse_terms.rs::make_term', 'parse_terms.rs::parse_term',
                  'parse_goals.rs::indices_of_parentheses', 'parse_goals.rs::split_complex_term', 'parse_goals.rs::get_left_and_right',
                  'parse_goals.rs::make_goal', 'parse_goals.rs::make_goal_no_args', 'parse_goals.rs::parse_operator_goal', 'parse_goals.rs::parse_subgoal',
                  's_complex.rs::validate_complex', 's_complex.rs::parse_functor_terms', 's_complex.rs::parse_complex', 's_complex.rs::parse_query',
                  'built_in_functions.rs::parse_function', 'rule.rs::index_of_neck', 'rule.rs::parse_rule',
                  's_linked_list.rs::parse_linked_list', 's_linked_list.rs::link_front', 'logic_var.rs::make_logic_var', 'logic_var.rs::mlv_error',
                  'tokenizer.rs::tokenize', 'tokenizer.rs::group_tokens', 'tokenizer.rs::group_and_tokens', 'tokenizer.rs::group_or_tokens',
                  'tokenizer.rs::token_tree_to_goal', 'tokenizer.rs::generate_goal', 'tokenizer.rs::no_esc', 'tokenizer.rs::letter_number_hyphen',
                  'tokenizer.rs::invalid_between_terms', 'tokenizer.rs::tttg_error', 'parse_stack.rs::peek', 'parse_stack.rs::pop',
                  'token.rs::make_leaf_token', 'token.rs::make_branch_token', 'token.rs::Token::number_of_children', 'token.rs::Token::get_type',
                  'token.rs::Token::get_token_str', 'token.rs::Token::get_children',
                  'parse_terms.rs::cq_error', 'parse_terms.rs::mt_error', 's_linked_list.rs::pll_error', 'parse_goals.rs::iop_error', 'rule.rs::pr_error'],
    'oracles': {'rule.rs::parse_rule': 'c18_parsers:parse_rule', 's_complex.rs::parse_query': 'c18_parsers:parse_query',
                'parse_terms.rs::parse_arguments': 'c18_parsers:parse_complex', 'parse_goals.rs::parse_subgoal': 'c18_parsers:parse_subgoal',
                '*': 'c18_parsers'},
    'not_covered': [
        'make_query is used through its contract (proved in unit rename); its precondition - well-formed terms - is established at parse_query\'s call: every parser returns well-formed terms (clauses #parsed_wf: consistent list counts, complex terms with a functor atom)',
        'PROVED (it used to be assumed): every opening-parenthesis token tokenize returns is followed by a subgoal or another opening parenthesis and the list starts with one of the two - from an invariant over the pending text (all white space, or containing a character that is no separator; no opening parenthesis alone) and the typing of make_leaf_token by the trimmed text. Trusted for it: white space is none of the characters the tokenizer gives a meaning to (axiom_ws_is_not_a_symbol, T3), a &str is determined by its characters (axiom_str_ext, T2), str::trim is a function (trimmed)',
        'so that every token group starts with a subgoal or a nested group (argument in DESIGN.md 8.8; exercised by the bounded oracle on every run). Everything else about the tokenizer is proved, '
        'including that the grouping functions only build trees that token_tree_to_goal accepts (its three panics are unreachable)',
        'usize is 64 bits (global size_of usize == 8) in the token units',
        'PROVED: termination of the mutual recursion of the parsers (decreases (length of the text, rank of the function): parse_term -> make_term -> parse_complex / parse_function / parse_linked_list -> parse_functor_terms -> parse_arguments -> make_term; parse_subgoal <-> parse_operator_goal; get_left_and_right), of group_tokens (tokens.len() - index) and of group_and_tokens / token_tree_to_goal (structural), and of every loop',
        'texts of 2^31 characters or more (bracket depths and positions are kept in i32)',
    ],
}

PROPS['C21'] = {
    'units': ['reader', 'loader', 'loadkb'],
    'functions': ['rule_reader.rs::strip_comments', 'rule_reader.rs::separate_rules', 'rule_reader.rs::check_last_char',
                  'rule_reader.rs::is_decimal_point', 'rule_reader.rs::trim_error_line', 'rule_reader.rs::read_facts_and_rules', 'rule_reader.rs::unmatched_bracket', 'rule_reader.rs::load_kb_from_file'],
    'oracles': {'*': 'c21_load'},
    'not_covered': [
        'read_facts_and_rules is under proof (unit loader; rule R14 writes `for line in lines` as loop / next()): the text handed to separate_rules is the kept lines of the file in order, separated by white space, or the file is rejected; '
        'RELATIVE TO the assumed specification of io::Lines::next / line_reader (the lines of the named file, in order; T3) and to `stripped`, defined as what the pure function strip_comments returns',
        'load_kb_from_file is under proof since 8.43 (unit loadkb): the knowledge base gets the rules of the file - the texts read_facts_and_rules returns - parsed one by one with the rule parser and added in order (#loaded_rule_by_rule), or the file is rejected with an error: it cannot be read, or a rule does not parse and the rules before it have been added (#rejected_with_an_error). read_facts_and_rules, parse_rule and add_rules are functions of their arguments there (T10); what each rule text denotes is parse_rule (C18, C19: bounded round trip; C20: known findings)',
        'parse_rule itself (string parsing; see C18 for its panic-freedom)',
        "str::trim is specified only as 'a contiguous sub-sequence' (T3)",
    ],
}

PROPS['C22'] = {
    'units': ['parsers', 'solutions'],
    'functions': ['solutions.rs::solve', 'solutions.rs::solve_all'],
    'kani': {'quick': ['c22_start_query_resets', 'c22_stop_flag', 'c22_make_query_resets', 'c22_start_query_timer_resets', 'c10_counter_contract'], 'thorough': []},
    'oracles': {'*': 'c22_make_query'},
    'not_covered': [
        "that the engine has no other cross-query state is checked mechanically on every run (source scan: the only mutable globals are SUIRON_STOP_QUERY and LOGIC_VAR_ID, no static with interior mutability, no thread_local!/lazy_static!); that it reads these two only through count_rules / next_id is read, not proved",
        'the timer thread itself (ThreadTimer) is stubbed in the start_query_timer harness: only the flag reset before arming it is proved',
        'solve / solve_all (unit solutions, verbatim bodies over the node heap of spec/solver.rs; ThreadTimer is an opaque stand-in type): a ghost counter shows that the search starts only after start_query_timer() and that the timer is cancelled on every path out, so no timer armed by one call can stop a later query',
        'parse_query: PROVED in Verus (unit parsers, verbatim body) that every query it returns was obtained from make_query (provenance clause #query_from_constructor over the uninterpreted marker built_by_make_query, '
        'assumed only at make_query\'s call sites); make_query\'s reset of the two globals is the Kani harness. A direct Kani harness on parse_query (kani/src/globals.rs, parse_complex stubbed) did not finish in 15 min / 9.5 GB and is not registered',
    ],
}

SOLVER_FNS = ['solution_node.rs::next_solution', 'solution_node_and_or.rs::next_solution_and', 'solution_node_and_or.rs::next_solution_or',
              'solution_node.rs::get_goal', 'solution_node.rs::no_backtracking',
              'goal.rs::make_solution_node', 'goal.rs::make_base_node', 'goal.rs::set_head_node', 'solution_node.rs::SolutionNode::new',
              'built_in_predicates.rs::next_solution_bip']
PROPS['C05'] = {
    'units': ['solver', 'solutions', 'cutwalk'],
    'functions': SOLVER_FNS + ['solutions.rs::solve', 'solutions.rs::solve_all'],
    'oracles': {'*': 'c05_reask', '#programs': 'c05_prog'},
    'bounded': [('c05_reask', 'supplementary to the proof, and the source of witnesses: 26 queries (facts, rules, and / or, not, nested not, cut, time, print, comparison, count) over one program, asked through next_solution() and through solve() '
                              'until "no more" is reported, then asked four more times: no answer and no output may follow')],
    'not_covered': [
        'PROVED (Verus, verbatim bodies of next_solution / next_solution_and / next_solution_or over the ghost node heap of spec/solver.rs, rule R15): a node that returns None is left in a state (`local_done`) from which every later request returns None, '
        'calls no predicate of the knowledge base and writes nothing - for complex goals, and / or, not, time and built-in predicates, whatever the knowledge base, the bindings and the results of unification; the invariant is kept by every request, also by those that answer. '
        'Partial correctness: the search need not terminate; the statement is about requests that return',
        'RELATIVE TO the heap model of Rc<RefCell<SolutionNode>> (T8); the specification of the unsafe walk of set_no_backtracking (`walked`, spec/solver.rs) is PROVED on its verbatim body since 8.40 (unit cutwalk, among the units of this property). next_solution_bip is PROVED in the unit (it tests and clears `more_solutions` before anything else; print / print_list / nl are one output event; the predicates themselves are abstract; an unknown functor or a missing operand of `=` panics, i.e. does not return). make_solution_node, make_base_node, set_head_node and SolutionNode::new are PROVED in the same unit (rule R15h: rc_cell!(x) is an allocation in the ghost heap): a fresh node one level below its parent with the given goal and bindings, operator nodes get their head node, existing nodes untouched, the invariant kept also while the nodes above are under construction',
        'solve() / solve_all() are under proof too (unit solutions, over the same heap, next_solution through its contract): asked on a query whose base node is done, solve() returns NO_MORE unless the timer stopped the query, solve_all() collects nothing but possibly the time-out message, and neither writes anything',
        'unify, get_rule, Rule::get_head/get_body, Goal::key, get_var_id/set_var_id are ABSTRACT in this unit (signature only, arbitrary results): the clauses hold for every behaviour of theirs that returns; their own panics are outside (C06, C10, C18 cover them under their preconditions)',
    ],
}
PROPS['C01'] = {
    'units': ['solver', 'print', 'unify', 'functions', 'solver_sld', 'solver_ext', 'solver_kb', 'rename', 'solutions_ids', 'replace_shape', 'replace_goal', 'compare', 'listops', 'append'],
    'functions': SOLVER_FNS + ['solutions.rs::format_solution'],
    'oracles': {'*': 'c01_prog', '#solve_all': 'c01_solve_all',
                # the built-in predicates share their code with the reference interpreter of c01_prog: their own oracles give the witnesses
                'built_in_functor.rs::next_solution_functor': 'c17_functor', 'built_in_filter.rs::bip_include': 'c17_filter', 'built_in_filter.rs::bip_exclude': 'c17_filter', 'built_in_count.rs::bip_count': 'c17_count', 'built_in_append.rs::next_solution_append': 'c16_append'},
    'bounded': [('c01_prog', 'the equivalence itself, BOUNDED: 3000 random stratified programs per seed (facts; rules of three levels calling lower levels only; conjunction, disjunction in one level of parentheses, unification, comparisons, count / append, '
                             'not, fail, print; partly instantiated structures; no cut) - the engine\'s answers (in order, with multiplicity, variables normalised) against a reference interpreter written from the statement (depth-first, left to right, clause order); '
                             'programs that build cyclic bindings or exceed the step limit are skipped'),
                ('c01_solve_all', 'solve_all() on 1500 random programs per seed: the same answers, each as `$Var = value` for the variables among the query\'s arguments in argument order')],
    'not_covered': [
        'PARTIAL.  PROVED (Verus, verbatim bodies over the node heap): the structural facts the search order rests on - the clause loop fetches the clauses of the goal\'s predicate one by one in index order, each at most once per request chain (#clause_order); '
        'the body of the chosen clause runs under the bindings unification of its head with the goal gave (#body_under_unifier); the goals after the first goal of a conjunction run under the bindings of the first goal\'s answer (#conjunction_threads_bindings); '
        'the later alternatives of a disjunction run under the bindings the disjunction was entered with and are exactly the remaining operands (#alternatives_share_bindings) - substitution sets are immutable values (Rc<Vec>, never written after creation), '
        'so nothing an abandoned alternative has bound can appear in a later answer; an exhausted node yields nothing more (C05); a flagged node yields nothing more (C02)',
        'PROVED on unify / unify_sfunction (#no_new_ids): unification introduces no variable id of its own - whatever bounds the ids of the two terms and of the prior bindings bounds those of the result; '
        'the clause loop rewinds the id counter only after the head of the clause just fetched has failed to unify (#ids_released_only_after_failed_unification). That ids given back are then referenced by nothing is PROVED since 8.36 (C10, unit solver_ids: the id invariant of the search)',
        'PROVED since 8.41 (unit solver_sld, overlay contracts contracts/*+sld.vc on the verbatim bodies of next_solution, next_solution_and / _or / _bip and the node constructors): SOUNDNESS with respect to resolution - every answer a solution node gives is a computed answer of its goal, '
        'from the bindings the node was made with, over its knowledge base (#answer_is_derivable). The reference semantics is the relation `entails(kb, goal, s0, s1)` given by its inference rules, each an axiom of spec/sld_heap.rs: a renamed copy of a clause whose head unifies with the goal (fact: the unifier; rule: an answer of the body under the unifier), '
        'conjunction (the first goal, then the remaining goals under its answer), disjunction (the first alternative or the remaining ones, under the same bindings), time(G) as G, the built-in predicates as the functions they are, `=` as unification. What the links of a node stand for is the heap invariant heap_sld (#sld_kept, #sld_inv, #clause_step). '
        'Two simplifications, stated: not(G) and `!` count as true in the semantics (they only remove answers: C03, C02). The primitive steps are functions of their arguments (T10: unify_res, bip_res; `variant` = what get_rule returns). NOT proved: the converse (every answer of resolution is produced, once, in order) - bounded (c01_prog)',
        'PROVED since 8.39 (unit solver_kb, overlay contracts contracts/*+kbx.vc): the clause loop asks the knowledge base only for clauses that are there - every node of a complex goal is given the number of clauses of its predicate '
        '(count_rules: that number, or 0 while a query is being stopped; proved in unit rename), Goal::key and Unifiable::key build the same key (both proved against one wrapped format string), so at get_rule the predicate exists and the index is below the number of its clauses '
        '(#pre_exists, #pre_index PROVED at the call site; #clause_is_there); and a call that reports no (more) answer without a cut has gone through the clauses of its predicate to the end - the number its node was given is 0 or exactly the number of clauses stored (#every_clause_tried: no clause is skipped). Trusted for this (T2): a HashMap look-up with a &str key depends on the text of the key only, a key has one value, a key with a value is in the map (axiom_kb_lookup, axiom_kb_one_value)',
        'PROVED since 8.38 (unit solver_ext: overlay contracts contracts/*+ext.vc on the verbatim bodies of next_solution, next_solution_and / _or / _bip and the node constructors; solve / solve_all in unit solutions_ids): NO BINDING IS EVER LOST in the search - '
        'every answer a node gives extends the bindings the node was made with (#answer_extends), the bindings of the nodes it is linked to (clause body, first operand, remaining operands) extend its own (heap_ext; #ext_kept, #ext_inv), and the bindings a node was made with never change (#bindings_fixed); '
        'this rests on unify\'s #keeps (unit unify) and on the built-in predicates keeping the bindings they are given (#keeps_bindings, proved for all ten in units compare, listops, append). With C06\'s soundness of unify this is the soundness half of the equivalence at the level of bindings: an answer contains, unchanged, every binding made on the way to it',
        'NOT PROVED, bounded only: that the answers are exactly those of depth-first, left-to-right, clause-order resolution, in that order and multiplicity - a whole-history equivalence with a reference semantics, modulo renaming of unbound variables '
        '(clause renaming draws ids from a global counter that the search also rewinds); the random-program comparison stands in for it, labelled bounded',
        'format_solution is PROVED (unit print): `$Var = value` for each variable among the query\'s arguments, in argument order, separated by ", ", the value being the corresponding argument of the result (#solution_text) - under the precondition that the result has the arity of the query (replace_variables keeps the shape; since 8.46 that precondition is PROVED at the call sites in solve / solve_all: replace_variables keeps the arity, units replace_shape / replace_goal; see C23); Display of the value is uninterpreted',
        'outside: parenthesised groups nested in groups (tokenizer, 8.25) and a cut inside a group with goals to its right inside the group (8.26) - observations, not generated',
    ],
}
PROPS['C11'] = {
    'units': ['rename', 'parsers'],
    'functions': list(PROPS['C10']['functions']) + ['logic_var.rs::make_logic_var'],
    'oracles': {'*': 'c11_rename'},
    'bounded': [('c11_rename', 'the statement itself, BOUNDED and metamorphic: 1500 random stratified programs per seed (with cuts, not, print) and the same programs with the variables of every rule renamed by a fresh bijection per rule '
                               'drawn from a pool that contains the query\'s own variable names and names shared between rules: same answers, same order, same output (names of unbound variables normalised)')],
    'not_covered': [
        'PARTIAL.  PROVED (unit rename, shared with C10): every use of a clause goes through get_rule, whose result has the shape of the stored clause with ONE fresh id per variable name across head and body and no id shared with any earlier use - '
        'so the search never sees the names, only ids that are fresh per use (#shape, #consistent); make_query does the same for the query',
        'PROVED (unit parsers): a variable is parsed to exactly the name that was written, with no id (#var_named_as_written): names that differ are different variables whatever they look like (`$V_1` / `$V_2`)',
        'NOT PROVED: that answers, order and output are functions of the clause shapes only is the whole-search statement C01 composed with the above; it is checked bounded by the metamorphic oracle',
    ],
}
PROPS['C23'] = {
    'units': ['solutions', 'solutions_ids', 'replace_shape', 'replace_goal', 'print', 'solver_sld'],
    'functions': ['solutions.rs::solve', 'solutions.rs::solve_all', 'solutions.rs::format_solution', 'goal.rs::Goal::replace_variables', 'unifiable.rs::Unifiable::replace_variables'],
    'oracles': {'*': 'c22_make_query', '#reports_real_answers': 'c01_solve_all', '#report_inv': 'c01_solve_all', '#reports_a_real_answer': 'c01_prog', '#last_text_is_an_answer_unless_timed_out': 'c01_solve_all',
                '#keeps_shape': 'c01_solve_all', '#shape_inv': 'c01_solve_all', 'unifiable.rs::Unifiable::replace_variables': 'c01_solve_all', 'goal.rs::Goal::replace_variables': 'c01_solve_all', '#replaces_in_the_term': 'c01_solve_all', '#solution_text': 'c01_solve_all', 'solutions.rs::format_solution': 'c01_solve_all',
                '#answer_is_derivable': 'c01_prog'},
    'not_covered': [
        'PROVED since 8.46 (unit solutions_ids, overlay rep): REAL ANSWERS - every text solve_all returns, except possibly the last, is the text format_solution gives for the query with its variables replaced under a COMPUTED ANSWER of the query '
        '(an answer resolution derives: `entails`, the soundness clause #answer_is_derivable of next_solution, unit solver_sld); the last one is too unless the stop flag was found raised after the loop (then it is the time-out message); '
        'solve returns "No more.", or such a text, unless it found the flag raised (#reports_real_answers, #report_inv, #last_text_is_an_answer_unless_timed_out, #reports_a_real_answer). '
        'On the way: Goal::replace_variables is Unifiable::replace_variables on the query term and keeps its arity (units replace_goal, replace_shape: #keeps_shape proved on the verbatim body with NO precondition on the bindings), '
        'so format_solution is called within its precondition (#pre_same_arity PROVED at both call sites) and its text clause #solution_text (unit print) applies. replace_variables is a function of its arguments there (T10: `replaced`); '
        'the query goal is a complex goal (#pre_complex_query: replace_variables panics on any other)',
        'the prefix / completeness half - that the texts are ALL the answers, in order, when the search ends within the limit - is the other direction of C01 (bounded there: c01_solve_all)',
        'PARTIAL.  PROVED (Verus, verbatim solve / solve_all over the node heap): the reporting discipline - whether the query was stopped is asked after each search step has returned, and the result of that step is looked at only afterwards and only if the flag was clear: '
        'an answer, or the end of the answers, that was computed while the query was being stopped (count_rules returns 0 then) is never reported (#flag_read_after_search, #result_used_after_flag); solve() returns NO_MORE exactly on that path when the step returned None (C05 clause); '
        'the timer armed by a call is cancelled on every path out and the search runs only after it was armed (C22 clauses): a timer of an earlier call cannot stop this one',
        'NOT WITHIN REACH: everything that involves the timer thread and wall-clock time - that the flag is raised only when the limit was exceeded, that a search finishing well within the limit is not reported as timed out (cancel_timer races the timer thread), '
        'data-race freedom of the flag itself (C24).  Kani has no threads, Verus no time.  That part of the statement is NOT decided; the stop flag is an oracle (`query_stopped()` may return anything) in the proof',
        'the oracle c22_make_query (shared with C22) exercises solve() around a raised stop flag and an exhausted query; it has no timing cases',
    ],
}
PROPS['C04'] = {
    'units': ['print', 'solver', 'solver_wf', 'slist'],
    'functions': ['built_in_print.rs::format_for_print_pred', 'built_in_print.rs::next_solution_print', 'built_in_print_list.rs::next_solution_print_list', 'built_in_print_list.rs::format_slist'],
    'oracles': {'*': 'c04_format', '#trace': 'c04_prog', 'built_in_print_list.rs::next_solution_print_list': 'c04_print_list',
                'built_in_print_list.rs::format_slist': 'c04_print_list', '#list_text': 'c04_print_list', '#walk_inv': 'c04_print_list', '#walk_done': 'c04_print_list', '#not_a_list': 'c04_print_list'},
    'bounded': [('c04_print_list', 'supplementary to the proof, and the source of witnesses: print_list on 13 argument lists under 8 sets of bindings (atoms, numbers, variables bound to atoms / lists / through chains, lists with bound tail variables, nested, '
                                   'the same variable twice, no argument) against the text the statement gives - one line per argument in order, a list as its elements, ",\\n" before a list that is not the first argument; lists with an unbound variable inside are skipped (observation, 8.35)'),
                ('c04_prog', 'the trace sentence itself, BOUNDED: the text written during the whole search of 2000 random stratified programs per seed (print / nl in rule bodies with and / or groups, not, fail, comparisons; no cut) '
                             'against the text the reference interpreter (depth-first, left to right, clause order) writes when it executes the same goals'),
                ('c04_format', 'supplementary to the proof: format_for_print_pred on 269 string vectors (markers at the start / end / doubled, `%` alone, non-ASCII, more and fewer arguments than markers) against a formatter written from the statement')],
    'not_covered': [
        'PARTIAL.  PROVED (Verus, verbatim bodies): format_for_print_pred returns the first string with its `%s` markers replaced left to right by the later strings, left-over strings following one another (concatenation when there is no marker), left-over markers vanishing (#format, relative to the assumed cutting specification of str::split); '
        'next_solution_print shows each argument with its bound value (the end of its binding chain, or the argument itself when unbound) and writes that text as ONE output event when the goal has arguments (#print_once, #print_text); '
        'next_solution_print_list writes one line per argument, in argument order and each once - a variable shown as the end of its binding chain, a list as the text format_slist gives for it, preceded by ",\\n" after the first argument - and nothing when there is no argument (#lines_in_order, #lines_inv, #one_event_per_line); '
        'a print / print_list / nl node writes only on its first request and never again afterwards; print and nl write at most one text per request (#once, #one_output on next_solution_bip; done nodes write nothing: C05)',
        'NOT PROVED, bounded only: "exactly what the reference depth-first search writes ... in execution order" - the output trace of a whole search is a whole-history statement (as C01); c04_prog compares it with a reference interpreter on random programs, labelled bounded',
        'format_slist (the text of one list) is PROVED since 8.49 on its verbatim body (unit slist): when the walk through the list ends, the text is the elements of the list - continuing through bound tail variables - each shown with its bound value (Display uninterpreted), separated by ", "; an element without a value shows nothing (#list_text, #walk_inv). fmt_slist, the text print_list speaks of, is DEFINED as that text (spec/slist_text.rs; uninterpreted only for a list that is its own tail), and format_slist is proved to return it (#text_is_fmt_slist)',
        'next_solution_print and next_solution_print_list require acyclic bindings: PROVED at the solver\'s call sites in unit solver_wf (C08, 8.37); Display of a term is uninterpreted (disp)',
        'observation: a cut inside a parenthesised group also stops backtracking into the goals to its right inside the group once control has left the group (documented: "disabled on the cut and all its ancestors"); '
        'the textbook search would retry them, so their output can differ - the trace oracle therefore generates programs without cut',
    ],
}
PROPS['C19'] = {
    'units': ['tokentree'],
    'functions': [],
    'oracles': {'*': 'c19_roundtrip'},
    'bounded': [('c19_roundtrip', 'the round trip itself, BOUNDED: 43 rules and facts in the documented syntax (atoms, atoms with spaces, integers, floats, variables, $_, lists with tail variable, nested terms, '
                                  'conjunction / disjunction in every mix of two and three levels, not, cut, fail, the built-in predicates, infix comparison and arithmetic, facts of several arities): the parser accepts each, '
                                  'the printed value is the canonical text (the text itself; the functional form for infix operators and `name()` for a fact without arguments), and parsing the printed text gives an equal value'),
                ('c19_random', 'the round trip on GENERATED rules, BOUNDED: about 2400 distinct rules per seed (1 seed quick, 12 thorough), each generated as a tree from which the source text (infix comparison / arithmetic where the syntax '
                               'allows, extra blanks around separators) and the canonical text (functional forms, `, ` `; ` ` :- `, a disjunction of conjunctions) are written: heads and calls with atoms, atoms with a space, integers, floats, '
                               'variables, $_, lists with tail variable, nested complex terms and functions; unification, the five comparisons, the seven built-in predicates, !, fail, nl, not and time around any literal. '
                               'Signed numbers only as arguments (C20 known finding), no parentheses for grouping (not in the documented syntax)')],
    'not_covered': [
        'PARTIAL.  PROVED (Verus, verbatim token_tree_to_goal in unit tokentree): the goal built for a conjunction / disjunction has the kind of the branch token and exactly one operand per child - no operand of a rule body is dropped (#operands_kept, #operand_per_child); '
        'the children of an And / Or branch are operands only (Subgoal leaves and Group / And / Or branches: ttg_kids_ok, established by the grouping functions)',
        'NOT PROVED, bounded only: the string-level inverse (print after parse = canonical text, parse after print = equal value) for terms, lists, numbers, built-ins and infix operators - Verus has no theory connecting Display output with parser input; '
        'the 43 canonical texts of c19_roundtrip and the generated rules of c19_random stand in for it, labelled bounded',
        'outside the claim: parenthesised groups (not in the statement\'s list of documented syntax; Display writes no parentheses, so `(a; b), c` prints as `a; b, c`), and the observations of DESIGN.md 8.22 on number classification (C20)',
    ],
}
PROPS['C20'] = {
    'units': ['contexts_a', 'contexts_b', 'contexts_c'],
    'functions': ['infix.rs::check_arithmetic_infix', 'parse_terms.rs::parse_term', 'parse_goals.rs::get_left_and_right', 's_linked_list.rs::parse_linked_list', 'parse_terms.rs::parse_arguments'],
    'oracles': {'*': 'c20_contexts', '#argument_not_infix': 'c20_known_infix', '#argument_as_alone': 'c20_known_flags'},
    'bounded': [('c20_contexts', 'the property itself, BOUNDED: 207 fixed term texts and about 160 generated terms per seed (nested lists, complex terms, functions, infix arithmetic; the term generator of c19_random) (fixed: atoms, variables, $_, integers, floats, signed numbers, quoted atoms, lists, complex terms, functions, infix arithmetic, punctuation atoms, escapes, inner white space, '
                                 'unbalanced brackets, a digit next to each punctuation character; eight of them also with white space around) written in nine contexts (only argument / second of three arguments of a complex term, argument of a built-in, of a query, only / second element '
                                 'of a list, right of `=`, left of `>=`, right of an arithmetic infix) wherever the text stays one term of the context: the term that comes out against parse_term(text). A deviation is passed over only if it is a '
                                 'known finding by context, shape of the text AND the two values (replay/src/o_contexts.rs known_deviation)'),
                ('c20_known_flags', 'the known finding "flags": digits, periods, signs and blanks in an argument context (listed by shape; fails while the deviation is there)'),
                ('c20_known_infix', 'the known finding "infix": a text with an arithmetic infix in an argument context'),
                ('c20_known_escape', 'the known finding "escape": a backslash outside quotation marks in an argument context'),
                ('c20_known_paren', 'the known finding "paren": a quoted or escaped parenthesis in an argument context'),
                ('c20_known_quotes', 'the known finding "quotes": quotation marks that do not enclose the whole text, in the argument AND the list-element contexts')],
    'not_covered': [
        'PROVED (Verus, verbatim bodies, overlay contracts contracts/*+c20.vc): parse_term computes the meaning of a text on its own as specified - trim, first arithmetic infix, else classify (some digit / some period / anything else) and make_term, '
        'with the two-character escape resolved (#meaning, #flags_inv; unit contexts_a); a list element is parse_term of its trimmed piece of the text between the brackets (parse_linked_list #elements_alone, #elements_inv), '
        'and so is each operand of an infix (get_left_and_right #operands_alone, #operand_errors; unit contexts_b); an ARGUMENT that consists of simple characters (no sign, white space, bracket, quotation mark, comma, backslash), with blanks before and after them as in `f(a, b)`, is the meaning of its text on its own - '
        'the scan of parse_arguments keeps the text and classifies it as parse_term does (#simple_scan_inv, #simple_argument_as_alone; the infix fact #infix_is_a_sign is proved on check_arithmetic_infix in unit contexts_c)',
        'KNOWN FINDINGS (the property does NOT hold for arguments of complex terms, built-ins and queries): parse_arguments classifies the characters itself, drops backslashes and never looks for an infix; the two obligations that say '
        'this comes to the meaning of the piece on its own (#argument_not_infix, #argument_as_alone, at both calls of make_term) are not provable and are refuted by the inputs of c20_known_*; a fourth deviation (a quoted or escaped '
        'parenthesis makes the enclosing term fail) and a fifth (quotation marks that do not enclose the whole text: rejected as an argument and as a list element) have no obligation in these units and are findings of the bounded exploration only. Not repaired: one classification for all contexts changes the accepted language in four ways (DESIGN 8.33)',
        'ASSUMED (T10): parse_term, make_term, check_arithmetic_infix and get_left_and_right are functions of their arguments (clauses #function_of_arguments / #function_of_text where they are callees); '
        'NOT proved: that the argument contexts hand exactly the text between the parentheses to parse_arguments (parse_complex, parse_subgoal, parse_query: covered by the bounded exploration only), the tail variable of a list (read by make_logic_var), '
        'and that the two scanners of parse_arguments agree with parse_term beyond the known findings - because the two obligations fail on the current tree for the known reasons, a further disagreement introduced in parse_arguments is '
        'caught only by the bounded exploration c20_contexts',
    ],
}
PROPS['C02'] = {
    'units': ['solver', 'cutwalk'],
    'functions': SOLVER_FNS + ['solution_node.rs::SolutionNode::set_no_backtracking'],
    'oracles': {'*': 'c02_cut', '#programs': 'c02_prog', '#cut_walk': 'c02_walk', '#cut_walk_effect': 'c02_walk', '#walk_inv': 'c02_walk', '#walk_terminates': 'c02_walk', 'solution_node.rs::SolutionNode::set_no_backtracking': 'c02_walk'},
    'bounded': [('c02_cut', 'supplementary to the proof, and the source of witnesses: 29 queries over a program of 45 clauses with cuts (cut then failure, cut in the first / a later clause, cut inside an alternative, cuts in nested calls, cut under not, recursion ended by a cut) - '
                            'the engine\'s answer sequence against a reference interpreter written from the statement (depth-first resolution; a cut that is backtracked into fails its clause; after a cut the call yields no answer beyond the one being derived)')],
    'not_covered': [
        'PROVED (Verus, verbatim bodies over the node heap, R15): a node whose cut flag is set yields nothing more and does nothing (#cut_blocks); the clause loop of a call never fetches a later clause once the flag of the call is set (#cut_stops_clauses); '
        'an and-node whose flag is set when the goals after the cut have failed does not get another answer from the goals to the left (#cut_left_goals: the flag of a node implies the flag of its head node - heap invariant); '
        'whatever cuts run during a request, no node above the call the node belongs to has its flag changed (#cut_confined: the caller and everything above it are unaffected)',
        'PROVED since 8.40 (unit cutwalk, rule R17) on the verbatim UNSAFE body of SolutionNode::set_no_backtracking(): it sets the flag of the cut\'s node, of every node up the parent_node links until a node without parent (the complex-goal node of the call, by make_solution_node), and of the head node of each of these ancestors, and nothing else (#cut_walk_effect = the specification `walked`; loop invariant #walk_inv; it terminates: each step goes one level up, #walk_terminates); '
        'its precondition - the parent chain is well formed - is PROVED at the call in next_solution_bip (lemma_chain_ok, from the heap invariant). Relative to R17: `self` is the node whose RefMut the caller holds, `as_ptr()` gives a handle on the node pointed to, `(*raw).F` reads / writes field F of that node - whether such an access under a live RefMut of another node is defined behaviour is C24 (not applicable). '
        'The bounded oracle c02_walk checks the same specification on the real function with real nodes (parent chains of length 0-5, every combination of head nodes, heads of heads, tail nodes that point into the chain: 329 shapes) - supplementary now; from the specification next_solution_bip is PROVED to keep the invariant, flag the call node and leave everything above the call alone (lemma_walk)',
        '"the call yields no answers beyond the one being derived when the cut ran" = the flag of the call node is set by the walk (proved, above) + #cut_blocks (proved)',
        'RELATIVE TO the heap model (T8); partial correctness',
    ],
}
PROPS['C03'] = {
    'units': ['solver'],
    'functions': SOLVER_FNS,
    'oracles': {'*': 'c03_not', '#programs': 'c03_prog'},
    'bounded': [('c03_not', 'supplementary to the proof: 16 goals G under 5 prior bindings: `pre, not(G)` has exactly one answer when `pre, G` has none and none otherwise, the answer shows exactly the bindings made before not(), the goal after not() runs, and asking again after exhaustion gives nothing')],
    'not_covered': [
        'PROVED on the verbatim Not branch of next_solution (node heap, R15): not(G) answers with the bindings the node was created with (Rc::clone of its own substitution set - G\'s bindings cannot be visible); it answers exactly when the request to G\'s node returned None (ghost record at the call site, clause #not_iff); '
        'once asked it is spent (more_solutions cleared on every path), so it succeeds at most once and a later request returns None without touching G',
        'that G\'s node is made with the bindings not(G) is made with is PROVED on make_solution_node (clause #head_bindings); "G has no answer" is identified with "the first request to G\'s node returns None"',
        'RELATIVE TO the heap model (T8); partial correctness (G may not terminate)',
    ],
}

LEVEL = {p: 'proof' for p in PROPS}
LEVEL['C22'] = 'proof'

# trusted base items, by tag found in generated files (scan_assumptions)
TRUSTED_TEXT = {
    'T1': "rustc's derived PartialEq/Clone on the extracted types behave as spec `ueq` / identity (assume_specification + PartialEqSpecImpl)",
    'T2': 'vstd specifications of Vec, Rc, Box, Option, String, slices; axioms added where vstd has none are listed individually',
    'T3': 'assumed specifications for std string/char primitives (listed individually); AUDITED on every run against the std in use by the oracle trusted_std (replay/src/o_trusted.rs): the character-level axioms for every char (complete), str::trim / String::cmp / prefix, suffix and containment tests / HashMap lookups by &str for every string up to length 3-6 over an alphabet with every class the specifications distinguish (bounded); an audit failure makes the check UNDECIDED (exit 2), never a violation. spec/std_eq.rs (every unit): String equality is equality of the characters, String += appends, IEEE == is symmetric, the partial comparison of (b, a) is the converse of that of (a, b) - broadcast axioms, audited likewise',
    'T4': 'extractor rewrite rules R1-R19 (syntactic; counts per rule reported in coverage.rewrites)',
    'T5': 'Verus 0.2026.09.13 + its Z3; rustc front end',
    'T9': 'the id counter LOGIC_VAR_ID (static mut, outside Verus) as ghost state `ids` passed along by the functions that touch it (spec/counter_state.rs): changed only by next_id (+1, returns the new value), set_var_id, clear_id / start_query',
    'T10': 'functions of their arguments (no global state, no interior mutability), assumed where they are callees through uninterpreted spec functions - C21 (unit loadkb): read_facts_and_rules (of the file system), parse_rule, add_rules; C01 (unit solver_sld): unify (unify_res), the ten built-in predicates (bip_res), get_rule up to the id counter (variant); C20: parse_term, make_term, check_arithmetic_infix and get_left_and_right are FUNCTIONS of their arguments (no global state, no interior mutability): assumed where they are callees, through uninterpreted spec functions alone / mk / arith_infix / operands (spec/contexts.rs)',
    'T8': 'the node heap (spec/solver.rs): Rc<RefCell<SolutionNode>> accesses as accessor calls on one ghost heap passed along (R15); Rc::clone keeps identity; a field access through a RefMut touches that field of that node only; R17: in set_no_backtracking `self` is the node whose RefMut the caller holds, `as_ptr()` a handle on the node pointed to, `(*raw).F` an access to field F of that node (no lock asked: unsafe)',
}
