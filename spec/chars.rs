// ---------------------------------------------------------------------------
// spec/chars.rs -- TRUSTED(T3/T4): the two conversion macros of macros.rs as functions
// (rule R5), and assumed specifications of the std string primitives the readers
// and parsers use.
// ---------------------------------------------------------------------------

// str_to_chars!(s) == s.chars().collect::<Vec<char>>()
#[verifier::external_body]
pub fn str_to_chars(s: &str) -> (r: Vec<char>)
    ensures r@ == s@, r@.len() <= isize::MAX,
{ s.chars().collect::<Vec<char>>() }

// chars_to_string!(c) == c.iter().collect::<String>()
#[verifier::external_body]
pub fn chars_to_string(c: &[char]) -> (r: String)
    ensures r@ == c@,
{ c.iter().collect::<String>() }

// White_Space as char::is_whitespace sees it (std trims exactly these); uninterpreted, with the
// one fact the proofs need: a quotation mark, a bracket, a letter are not white space.
pub uninterp spec fn is_ws(c: char) -> bool;

pub axiom fn axiom_not_ws()
    ensures !is_ws('"'), !is_ws('('), !is_ws(')'), !is_ws('['), !is_ws(']'), !is_ws('$'), !is_ws('.'), !is_ws(',');

// what str::trim returns: the text without its leading and trailing white space
pub open spec fn is_trim_of(r: Seq<char>, s: Seq<char>) -> bool {
    exists|i: int, j: int| trim_at(r, s, i, j)
}
pub open spec fn trim_at(r: Seq<char>, s: Seq<char>, i: int, j: int) -> bool {
    &&& 0 <= i <= j <= s.len()
    &&& r == s.subrange(i, j)
    &&& forall|k: int| 0 <= k < i ==> is_ws(#[trigger] s[k])
    &&& forall|k: int| j <= k < s.len() ==> is_ws(#[trigger] s[k])
}

// a non-white-space character of s survives trimming
pub proof fn lemma_trim_keeps(r: Seq<char>, s: Seq<char>, k: int)
    requires is_trim_of(r, s), 0 <= k < s.len(), !is_ws(s[k]),
    ensures r.len() > 0, r.len() <= s.len(),
{
    let (i, j) = choose|i: int, j: int| trim_at(r, s, i, j);
    assert(trim_at(r, s, i, j));
    if k < i { assert(is_ws(s[k])); }
    if k >= j { assert(is_ws(s[k])); }
}

pub proof fn lemma_trim_len(r: Seq<char>, s: Seq<char>)
    requires is_trim_of(r, s),
    ensures r.len() <= s.len(),
{
    let (i, j) = choose|i: int, j: int| trim_at(r, s, i, j);
    assert(trim_at(r, s, i, j));
}

// (trim is a function of the text: `trimmed` names its result)
pub uninterp spec fn trimmed(s: Seq<char>) -> Seq<char>;
pub assume_specification<'a>[ str::trim ](s: &'a str) -> (r: &'a str)
    ensures is_trim_of(r@, s@), r@.len() <= s@.len(), r@ == trimmed(s@),
            // (nothing more can be trimmed: the result does not begin or end with white space)
            r@.len() > 0 ==> !is_ws(r@[0]) && !is_ws(r@[r@.len() - 1]);
// TRUSTED(T3): the blank is white space
pub axiom fn axiom_blank_is_ws()
    ensures is_ws(' ');

// TRUSTED(T3): trimming a trimmed text changes nothing; a cloned char is the char
pub axiom fn axiom_trim_idempotent(s: Seq<char>)
    ensures trimmed(trimmed(s)) == trimmed(s);
pub axiom fn axiom_cloned_char(a: char, b: char)
    ensures vstd::pervasive::cloned::<char>(a, b) ==> a == b;

// TRUSTED(T3): char::is_ascii_digit
pub assume_specification[ char::is_ascii_digit ](c: &char) -> (r: bool)
    ensures r == ('0' <= *c && *c <= '9');

// R10: `&s[1..]` on a &str.  std panics unless byte 1 is a char boundary, i.e. unless the
// first character is one byte long (ASCII).  TRUSTED(T3).
#[verifier::external_body]
pub fn str_skip_first_byte(s: &str) -> (r: &str)
    requires s@.len() >= 1, (s@[0] as u32) < 128,
    ensures r@ == s@.subrange(1, s@.len() as int),
{ &s[1..] }

// TRUSTED(T3): std string / slice primitives used by the parsers
pub assume_specification<T: Clone>[ <[T]>::to_vec ](s: &[T]) -> (r: Vec<T>)
    ensures r@.len() == s@.len(),
            forall|i: int| 0 <= i < s@.len() ==> vstd::pervasive::cloned::<T>(s@[i], #[trigger] r@[i]);

// R11 targets: total functions (they cannot panic); their results are left unspecified except where noted
#[verifier::external_body]
pub fn str_starts_with_lit(s: &str, p: &str) -> (r: bool) { s.starts_with(p) }
// s starts with p.  TRUSTED(T3): str::starts_with(&String) compares the leading characters (assumed through the
// external function below; the std function is generic over the unstable Pattern trait)
pub open spec fn str_has_prefix(s: Seq<char>, p: Seq<char>) -> bool {
    p.len() <= s.len() && s.subrange(0, p.len() as int) == p
}
#[verifier::external_body]
pub fn str_starts_with_string(s: &str, p: &String) -> (r: bool)
    ensures r == str_has_prefix(s@, p@),
{ s.starts_with(p.as_str()) }
#[verifier::external_body]
pub fn str_starts_with_char(s: &str, p: char) -> (r: bool) { s.starts_with(p) }
#[verifier::external_body]
pub fn str_ends_with_lit(s: &str, p: &str) -> (r: bool) { s.ends_with(p) }
#[verifier::external_body]
pub fn str_ends_with_char(s: &str, p: char) -> (r: bool)
    ensures r ==> s@.len() > 0,
{ s.ends_with(p) }

#[verifier::external_body]
pub fn str_contains_char(s: &str, p: char) -> (r: bool)
    ensures r == s@.contains(p),
{ s.contains(p) }
#[verifier::external_body]
pub fn str_contains_lit(s: &str, p: &str) -> (r: bool) { s.contains(p) }
#[verifier::external_body]
pub fn str_contains_string(s: &str, p: &String) -> (r: bool) { s.contains(p.as_str()) }

// TRUSTED(T3): str::parse::<i64/f64> returns Ok or Err and does not panic
#[verifier::external_type_specification]
#[verifier::external_body]
pub struct ExParseFloatError(core::num::ParseFloatError);
#[verifier::external_type_specification]
#[verifier::external_body]
pub struct ExParseIntError(core::num::ParseIntError);
#[verifier::external_trait_specification]
pub trait ExFromStr: Sized {
    type ExternalTraitSpecificationFor: core::str::FromStr;
    type Err;
    fn from_str(s: &str) -> Result<Self, Self::Err>;
}
pub assume_specification<F: core::str::FromStr>[ str::parse::<F> ](s: &str) -> (r: Result<F, F::Err>);
// R10 target for `s.len() == 0` on a &str: the byte length is zero exactly when there is no character (TRUSTED T3)
#[verifier::external_body]
pub fn str_is_empty(s: &str) -> (r: bool)
    ensures r == (s@.len() == 0),
{ s.len() == 0 }
// byte lengths: only "is it zero" is used by the parsers
pub assume_specification[ String::len ](s: &String) -> (r: usize)
    ensures (r == 0) == (s@.len() == 0);

// TRUSTED(T3): Chars::last is Some exactly when characters remain
pub assume_specification<'a>[ <core::str::Chars<'a> as Iterator>::last ](c: core::str::Chars<'a>) -> (r: Option<char>)
    ensures (r is Some) == (vstd::std_specs::iter::IteratorSpec::remaining(&c).len() > 0);

// TRUSTED(T3): char::is_alphabetic is a total function
pub uninterp spec fn char_is_alphabetic(c: char) -> bool;
pub assume_specification[ char::is_alphabetic ](c: char) -> (r: bool)
    ensures r == char_is_alphabetic(c);
