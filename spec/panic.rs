// R2 / R4 targets for units that do not include spec/terms.rs
#[verifier::external_body]
pub fn verif_panic() -> !
    requires false,
{ panic!() }

#[verifier::external_body]
pub fn verif_format() -> String
{ String::new() }
