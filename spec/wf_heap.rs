// ---------------------------------------------------------------------------
// spec/wf_heap.rs -- the invariant "every goal of the search state holds terms unify accepts, every set of bindings is well
// formed and acyclic" (unit solver_wf): C08 through the whole search
// ---------------------------------------------------------------------------
pub open spec fn node_wf(n: NodeSt) -> bool {
    &&& goal_ok(n.goal)
    &&& ss_ok(n.ss@) && acyclic(n.ss@)
    &&& (n.operator_tail matches Some(op) ==> goals_ok(gl_goals(op)))
}
pub open spec fn heap_wf(h: Heap) -> bool {
    forall|n: int| #[trigger] alive(h, n) ==> node_wf(h.st[n])
}
pub proof fn lemma_wf_step(h1: Heap, h2: Heap)
    requires
        heap_wf(h1),
        forall|n: int| #[trigger] alive(h2, n) ==> (alive(h1, n) && same_contents(h1.st[n], h2.st[n])) || node_wf(h2.st[n]),
    ensures heap_wf(h2),
{
}
pub open spec fn ss_good(s: SS) -> bool { ss_ok(s) && acyclic(s) }
// no binding: every chain ends where it starts
pub proof fn lemma_acyclic_empty(s: SS)
    requires s.len() == 0,
    ensures acyclic(s), ss_ok(s),
{
    assert forall|i: int| #[trigger] ends(s, i) by { assert(var_end(s, i, 0) is Some); }
}
