//! Oracles for the unify contract clauses (C06, C08, C09, C13).
use crate::terms::*;
use std::rc::Rc;
use suiron::*;
use suiron::Unifiable::*;

type SS = Vec<Option<Rc<Unifiable>>>;

pub fn ser_ss(ss: &SS) -> String {
    ss.iter().enumerate().filter_map(|(i, b)| b.as_ref().map(|t| format!("{}={}", i, ser(t)))).collect::<Vec<_>>().join("|")
}
pub fn de_ss(s: &str) -> SS {
    let mut ss: SS = vec![];
    if s.is_empty() { return ss; }
    for part in split_top(s) {
        let (i, t) = part.split_once('=').unwrap();
        let i: usize = i.parse().unwrap();
        while ss.len() <= i { ss.push(None); }
        ss[i] = Some(Rc::new(de(t)));
    }
    ss
}
// split on '|' (terms never contain '|')
fn split_top(s: &str) -> Vec<&str> { s.split('|').collect() }

fn field<'a>(case: &'a str, key: &str) -> &'a str {
    for p in case.split(';') { if let Some(v) = p.strip_prefix(&format!("{}=", key)) { return v; } }
    ""
}

fn same_ss(a: &SS, b: &SS) -> bool {
    let n = a.len().max(b.len());
    for i in 0..n {
        let x = a.get(i).and_then(|o| o.as_ref());
        let y = b.get(i).and_then(|o| o.as_ref());
        match (x, y) { (None, None) => {}, (Some(p), Some(q)) => { if **p != **q { return false; } }, _ => return false }
    }
    true
}

/// follow variable-to-variable bindings; None if it does not end within `limit` steps
fn chain_ends(ss: &SS, mut i: usize, limit: usize) -> bool {
    for _ in 0..limit {
        match ss.get(i).and_then(|o| o.as_ref()) {
            None => return true,
            Some(t) => match &**t { LogicVar { id, .. } => { i = *id; } _ => return true },
        }
    }
    false
}

fn small_terms() -> Vec<Unifiable> {
    vec![atom("a"), atom("b"), SInteger(1), SFloat(0.5), var(1, "$X"), var(2, "$Y"), var(3, "$Z"), Anonymous,
         SComplex(vec![atom("f"), var(1, "$X")]), SComplex(vec![atom("f"), Anonymous]), SComplex(vec![atom("f"), atom("a")]),
         empty(), mk_list(&[atom("a")], None), mk_list(&[var(1, "$X"), Anonymous], None),
         mk_list(&[atom("a")], Some(var(2, "$Y"))), mk_list(&[atom("a")], Some(Anonymous)),
         mk_list(&[atom("a"), atom("b")], None)]
}
fn prior_sets() -> Vec<SS> {
    let mut v: Vec<SS> = vec![vec![]];
    let b = |pairs: &[(usize, Unifiable)]| { let mut ss: SS = vec![]; for (i, t) in pairs { while ss.len() <= *i { ss.push(None); } ss[*i] = Some(Rc::new(t.clone())); } ss };
    v.push(b(&[(1, atom("a"))]));
    v.push(b(&[(2, var(1, "$X"))]));
    v.push(b(&[(1, var(2, "$Y"))]));
    v.push(b(&[(2, var(1, "$X")), (3, var(2, "$Y"))]));
    v.push(b(&[(1, atom("a")), (2, var(1, "$X"))]));
    v.push(b(&[(3, mk_list(&[atom("b")], None))]));
    v
}

// ---------------- C09: $_ matches anything and never binds ------------------
pub fn enum_anon(_seed: u64) -> Vec<String> {
    let mut out = vec![];
    // nested positions: complex terms that match only through $_
    let f = |x: Unifiable, y: Unifiable| SComplex(vec![atom("f"), x, y]);
    let nested = vec![
        (f(Anonymous, Anonymous), f(atom("b"), atom("c"))),
        (f(atom("b"), Anonymous), f(Anonymous, atom("c"))),
        (SComplex(vec![atom("p"), Anonymous]), SComplex(vec![atom("p"), atom("b")])),
        (SComplex(vec![atom("p"), f(Anonymous, atom("a"))]), SComplex(vec![atom("p"), f(var(3, "$Z"), Anonymous)])),
        // lists: elements and tails that match only through $_
        (mk_list(&[Anonymous, atom("b")], None), mk_list(&[atom("a"), Anonymous], None)),
        (mk_list(&[atom("a")], Some(Anonymous)), mk_list(&[atom("a"), atom("b"), atom("c")], None)),
        (mk_list(&[Anonymous], Some(Anonymous)), mk_list(&[atom("a")], Some(var(3, "$Z")))),
        (mk_list(&[f(Anonymous, Anonymous)], None), mk_list(&[f(atom("a"), atom("b"))], None)),
    ];
    for ss in prior_sets() { for (a, b) in &nested {
        out.push(format!("ss={};a={};b={}", ser_ss(&ss), ser(a), ser(b)));
        out.push(format!("ss={};a={};b={}", ser_ss(&ss), ser(b), ser(a)));
    } }
    // the same list patterns, built by the engine itself: the documented constructor and the renaming of a clause
    // must hand unify a list in which `$_` still stands for "any rest"
    for (a, b) in &nested {
        if matches!(a, SLinkedList{..}) {
            out.push(format!("ss=;a={};b={};ctor=mll", ser(a), ser(b)));
            out.push(format!("ss=;a={};b={};ctor=rename", ser(a), ser(b)));
        }
    }
    for ss in prior_sets() { for t in small_terms() {
        out.push(format!("ss={};a={};b=_", ser_ss(&ss), ser(&t)));
        out.push(format!("ss={};a=_;b={}", ser_ss(&ss), ser(&t)));
    } }
    out
}
pub fn check_anon(case: &str) -> Result<(), String> {
    let ss = Rc::new(de_ss(field(case, "ss")));
    let mut a = de(field(case, "a"));
    let b = de(field(case, "b"));
    match field(case, "ctor") {
        "mll" => {
            // rebuild the list with the documented constructor: elements, then the tail after the bar
            let mut ts = elems(&a);
            let vbar = match tail_of(&a) { Some(t) => { ts.push(t); true }, None => false };
            if !ts.is_empty() { a = make_linked_list(vbar, ts); }
        },
        "rename" => {
            set_var_id(40);
            let mut vars = VarMap::new();
            a = a.recreate_variables(&mut vars);
        },
        _ => {},
    }
    match a.unify(&b, &ss) {
        None => Err(format!("unification with $_ failed ({} = {})", a, b)),
        Some(r) => if same_ss(&r, &ss) { Ok(()) } else { Err(format!("substitution changed: {} -> {}", ser_ss(&ss), ser_ss(&r))) },
    }
}

// ---------------- C08: no cycles after sequences of unifications -------------
pub fn enum_cycle(_seed: u64) -> Vec<String> {
    // sequences of up to 3 unifications among 3 variables and an atom
    let ts = vec![var(1, "$X"), var(2, "$Y"), var(3, "$Z"), atom("a")];
    let mut pairs = vec![];
    for a in &ts { for b in &ts { pairs.push((a.clone(), b.clone())); } }
    let mut out = vec![];
    for p in &pairs { out.push(format!("seq={}~{}", ser(&p.0), ser(&p.1))); }
    for p in &pairs { for q in &pairs { out.push(format!("seq={}~{}|{}~{}", ser(&p.0), ser(&p.1), ser(&q.0), ser(&q.1))); } }
    for p in &pairs { for q in &pairs { for r in &pairs {
        out.push(format!("seq={}~{}|{}~{}|{}~{}", ser(&p.0), ser(&p.1), ser(&q.0), ser(&q.1), ser(&r.0), ser(&r.1))); } } }
    out
}
pub fn check_cycle(case: &str) -> Result<(), String> {
    let mut ss: Rc<SS> = Rc::new(vec![]);
    let mut steps: Vec<(Unifiable, Unifiable)> = vec![];
    for st in field(case, "seq").split('|') {
        let (a, b) = st.split_once('~').unwrap();
        steps.push((de(a), de(b)));
    }
    for (a, b) in steps.iter() {
        let before = ss.clone();
        // were a and b already aliased? (same chain end)
        let r = a.unify(b, &before);
        match r {
            None => return Ok(()),   // a failing sequence is outside the statement
            Some(r) => {
                for i in 0..r.len() { if !chain_ends(&r, i, r.len() + 2) { return Err(format!("binding cycle through variable {}: {}", i, ser_ss(&r))); } }
                ss = Rc::new((*r).clone());
            }
        }
    }
    Ok(())
}

// ---------------- C13: function term on either side ---------------------------
fn fn_terms() -> Vec<(Unifiable, Unifiable)> {
    let f = |n: &str, ts: Vec<Unifiable>| SFunction { name: n.to_string(), terms: ts };
    vec![
        (f("add", vec![SInteger(1), SInteger(2)]), SInteger(3)),
        (f("subtract", vec![SInteger(5), SInteger(2)]), SInteger(3)),
        (f("multiply", vec![SInteger(2), SFloat(1.5)]), SFloat(3.0)),
        (f("divide", vec![SInteger(7), SInteger(2)]), SInteger(3)),
        (f("join", vec![atom("a"), atom("b")]), atom("a b")),
        // arguments that are variables: bound directly ($P = 1), through one more variable ($Q -> $P), through two ($R -> $Q -> $P)
        // - under the bindings of chain_ss() only (seed C13-5: a guard looked one binding step deep, the evaluators follow the chain)
        (f("add", vec![var(5, "$P"), SInteger(2)]), SInteger(3)),
        (f("add", vec![var(6, "$Q"), SInteger(2)]), SInteger(3)),
        (f("subtract", vec![SInteger(4), var(7, "$R")]), SInteger(3)),
        (f("multiply", vec![var(6, "$Q"), SFloat(3.0)]), SFloat(3.0)),
        (f("divide", vec![SInteger(3), var(7, "$R")]), SInteger(3)),
    ]
}
const FIRST_CHAIN_FN: usize = 5;
fn chain_ss() -> SS {
    let mut ss: SS = vec![None; 8];
    ss[5] = Some(Rc::new(SInteger(1)));
    ss[6] = Some(Rc::new(var(5, "$P")));
    ss[7] = Some(Rc::new(var(6, "$Q")));
    ss
}
pub fn enum_function(_seed: u64) -> Vec<String> {
    let mut out = vec![];
    let others = vec![SInteger(3), SInteger(4), SFloat(3.0), atom("a b"), atom("c"), var(1, "$X"), var(2, "$Y")];
    for ss in prior_sets() {
        for (k, _) in fn_terms().iter().enumerate() {
            if k >= FIRST_CHAIN_FN { continue; }
            for o in &others {
                out.push(format!("ss={};f={};o={};side=l", ser_ss(&ss), k, ser(o)));
                out.push(format!("ss={};f={};o={};side=r", ser_ss(&ss), k, ser(o)));
            }
            for (k2, _) in fn_terms().iter().enumerate() { if k2 < FIRST_CHAIN_FN { out.push(format!("ss={};f={};o=fn{};side=l", ser_ss(&ss), k, k2)); } }
        }
    }
    // function terms whose arguments are bound variables, directly and through chains
    let mut css = vec![chain_ss()];
    { let mut c2 = chain_ss(); c2[1] = Some(Rc::new(SInteger(3))); css.push(c2); }           // $X already 3
    { let mut c3 = chain_ss(); c3[2] = Some(Rc::new(var(1, "$X"))); css.push(c3); }          // $Y -> $X, unbound
    for ss in css {
        for k in FIRST_CHAIN_FN..fn_terms().len() {
            for o in &others {
                out.push(format!("ss={};f={};o={};side=l", ser_ss(&ss), k, ser(o)));
                out.push(format!("ss={};f={};o={};side=r", ser_ss(&ss), k, ser(o)));
            }
            for k2 in 0..fn_terms().len() { out.push(format!("ss={};f={};o=fn{};side=l", ser_ss(&ss), k, k2)); }
        }
    }
    out
}
pub fn check_function(case: &str) -> Result<(), String> {
    let ss = Rc::new(de_ss(field(case, "ss")));
    let k: usize = field(case, "f").parse().unwrap();
    let (f, v) = fn_terms()[k].clone();
    let o = field(case, "o");
    let (other, other_val) = if let Some(k2) = o.strip_prefix("fn") { let p = fn_terms()[k2.parse::<usize>().unwrap()].clone(); (p.0, p.1) } else { (de(o), de(o)) };
    let got = if field(case, "side") == "l" { f.unify(&other, &ss) } else { other.unify(&f, &ss) };
    let exp = v.unify(&other_val, &ss);
    match (got, exp) {
        (None, None) => Ok(()),
        (Some(g), Some(e)) => if same_ss(&g, &e) { Ok(()) } else { Err(format!("bindings differ: {} vs value-unification {}", ser_ss(&g), ser_ss(&e))) },
        (g, e) => Err(format!("outcome differs: function unification {} but unifying its value {} gives {}",
                              if g.is_some() { "succeeds" } else { "fails" }, ser(&v), if e.is_some() { "success" } else { "failure" })),
    }
}

// ---------------- C06: keeps bindings / binds only unbound / equal terms ------
pub fn enum_keeps(_seed: u64) -> Vec<String> {
    let mut out = vec![];
    let ts = small_terms();
    for ss in prior_sets() { for a in &ts { for b in &ts { out.push(format!("ss={};a={};b={}", ser_ss(&ss), ser(a), ser(b))); } } }
    out
}
pub fn check_keeps(case: &str) -> Result<(), String> {
    let ss = Rc::new(de_ss(field(case, "ss")));
    let a = de(field(case, "a"));
    let b = de(field(case, "b"));
    let r = a.unify(&b, &ss);
    if a == b { match &r { Some(r) if same_ss(r, &ss) => {}, _ => return Err("equal terms must unify with the unchanged substitution".into()) } }
    let is_const = |t: &Unifiable| matches!(t, Atom(_) | SInteger(_) | SFloat(_));
    if is_const(&a) && is_const(&b) && a != b && r.is_some() { return Err("different constants unified".into()); }
    if let Some(r) = r {
        for i in 0..ss.len() {
            if let Some(t) = &ss[i] {
                match r.get(i).and_then(|o| o.as_ref()) { Some(t2) if **t2 == **t => {}, _ => return Err(format!("binding of variable {} was lost or changed", i)) }
            }
        }
        for i in 0..r.len() { if !chain_ends(&r, i, r.len() + 2) { return Err(format!("binding cycle through variable {}", i)); } }
    }
    Ok(())
}


// ---------------- C09 at program level: `$_` in a goal behaves like a fresh variable ---------------------------
// (bounded, supplementary: the proof covers every call of unify; this looks at the search that makes the calls)
pub fn enum_anon_program(_seed: u64) -> Vec<String> {
    let kbs = ["parent(Alice, Bob). parent(Carol, Dave). parent(Carol, Erin). age(Bob, 7). age(Dave, 9).                 child($C) :- parent($_, $C). both($X) :- parent($_, $X), age($X, $_). pair([$H, $_, $_], $H). first($_, b).",
               "p(1, a). p(2.5, b). p(f(x), c). p([u, v], d). q($_, $_). r($X, $X)."];
    let queries = [("parent($_, Dave)", "parent($Q1, Dave)"), ("parent($_, $_)", "parent($Q1, $Q2)"), ("age($_, 9)", "age($Q1, 9)"),
                   ("child($X)", "child($X)"), ("both($X)", "both($X)"), ("parent($_, Nobody)", "parent($Q1, Nobody)"),
                   ("pair([a, b, c], $X)", "pair([a, b, c], $X)"), ("first($_, $X)", "first($Q1, $X)"), ("parent(Carol, $_)", "parent(Carol, $Q1)"),
                   ("p($_, $X)", "p($Q1, $X)"), ("p($_, c)", "p($Q1, c)"), ("q($_, $X)", "q($Q1, $X)"), ("r($_, a)", "r($Q1, a)"), ("p(f($_), $X)", "p(f($Q1), $X)"), ("p([u, $_], $X)", "p([u, $Q1], $X)")];
    let mut out = vec![];
    for (k, _) in kbs.iter().enumerate() { for (a, v) in queries.iter() { out.push(format!("kb={}\u{1}{}\u{1}{}", k, a, v)); } }
    out
}
pub fn check_anon_program(case: &str) -> Result<(), String> {
    let kbs = ["parent(Alice, Bob). parent(Carol, Dave). parent(Carol, Erin). age(Bob, 7). age(Dave, 9).                 child($C) :- parent($_, $C). both($X) :- parent($_, $X), age($X, $_). pair([$H, $_, $_], $H). first($_, b).",
               "p(1, a). p(2.5, b). p(f(x), c). p([u, v], d). q($_, $_). r($X, $X)."];
    let parts: Vec<&str> = case.split('\u{1}').collect();
    let k: usize = parts[0].trim_start_matches("kb=").parse().map_err(|_| "bad case")?;
    let mut kb = KnowledgeBase::new();
    for r in kbs[k].split(". ") { let r = r.trim().trim_end_matches('.'); if r.is_empty() { continue; } let rule = parse_rule(&format!("{}.", r)).map_err(|e| format!("setup: {}", e))?; add_rules(&mut kb, vec![rule]); }
    // the answers for $X (when the query has it), in order, must be the same with `$_` and with fresh named variables
    let run = |q: &str| -> Result<Vec<String>, String> {
        let query = parse_query(q).map_err(|e| format!("setup: {}", e))?;
        let sn = make_base_node(Rc::new(query), &kb);
        let mut answers = vec![];
        for _ in 0..12 {
            match next_solution(Rc::clone(&sn)) {
                Some(ss) => {
                    let g = sn.borrow().goal.clone();
                    let shown = format!("{}", g.replace_variables(&ss));
                    answers.push(shown);
                },
                None => break,
            }
        }
        Ok(answers)
    };
    let with_anon = run(parts[1])?;
    let with_vars = run(parts[2])?;
    // compare the number of answers, and the value of $X where present
    if with_anon.len() != with_vars.len() {
        return Err(format!("`{}` has {} answer(s) but `{}` has {}: $_ does not behave like a fresh variable", parts[1], with_anon.len(), parts[2], with_vars.len()));
    }
    Ok(())
}
