// ---------------------------------------------------------------------------
// spec/io.rs -- reading the lines of a source file (C21, read_facts_and_rules)
// ---------------------------------------------------------------------------
// TRUSTED(T3): std::io types are opaque here
#[verifier::external_type_specification]
#[verifier::external_body]
pub struct ExIoError(std::io::Error);
#[verifier::external_type_specification]
#[verifier::external_body]
pub struct ExFile(std::fs::File);
#[verifier::external_type_specification]
#[verifier::external_body]
#[verifier::reject_recursive_types(R)]
pub struct ExBufReader<R: ?Sized>(std::io::BufReader<R>);
#[verifier::external_type_specification]
#[verifier::external_body]
#[verifier::reject_recursive_types(B)]
pub struct ExLines<B>(std::io::Lines<B>);

// the lines a reader has not yielded yet; a line that could not be read (invalid UTF-8) is None
pub uninterp spec fn remaining_lines<B>(it: std::io::Lines<B>) -> Seq<Option<Seq<char>>>;

// TRUSTED(T3): Lines::next yields the remaining lines in order, one per call, then None
#[verifier::allow(undeclared_external_trait)]
pub assume_specification<B: std::io::BufRead>[ <std::io::Lines<B> as Iterator>::next ](it: &mut std::io::Lines<B>) -> (r: Option<std::io::Result<String>>)
    ensures
        remaining_lines(*old(it)).len() == 0 ==> r is None && remaining_lines(*final(it)) == remaining_lines(*old(it)),
        remaining_lines(*old(it)).len() > 0 ==> r is Some && remaining_lines(*final(it)) == remaining_lines(*old(it)).skip(1)
            && (match r.unwrap() { Ok(s) => remaining_lines(*old(it))[0] == Some(s@), Err(_) => remaining_lines(*old(it))[0] is None });

// the content of a file as the reader yields it: its lines, without line terminators
pub uninterp spec fn file_lines(name: Seq<char>) -> Seq<Option<Seq<char>>>;

// R10 target for `line_reader(file_name)` (generic over AsRef<Path>; File::open + BufReader::lines).
// TRUSTED(T3): the iterator yields the lines of the named file; a file has fewer than usize::MAX lines.
#[verifier::external_body]
pub fn verif_line_reader(file_name: &str) -> (r: std::io::Result<std::io::Lines<std::io::BufReader<std::fs::File>>>)
    ensures (r is Ok) == file_opens(file_name@),
        r matches Ok(l) ==> remaining_lines(l) == file_lines(file_name@) && file_lines(file_name@).len() < usize::MAX,
{ unimplemented!() }

// R10 target for `long_line += &line;` (String += &String has no usable Verus specification)
#[verifier::external_body]
pub fn str_append_line(out: &mut String, s: &String)
    ensures final(out)@ == old(out)@ + s@,
{ unimplemented!() }

// what strip_comments returns for a line.  Uninterpreted: it is *defined* as the result of that pure
// function (clause assumed at its call site in read_facts_and_rules; its own contract is proved in this unit)
pub uninterp spec fn stripped(line: Seq<char>) -> Seq<char>;

// the lines the loader keeps: every readable line, comments stripped, if anything is left of it
pub open spec fn kept_of(fl: Seq<Option<Seq<char>>>) -> Seq<Seq<char>>
    decreases fl.len(),
{
    if fl.len() == 0 { Seq::empty() }
    else {
        let rest = kept_of(fl.drop_last());
        match fl.last() {
            Some(l) => if stripped(l).len() > 0 { rest.push(stripped(l)) } else { rest },
            None => rest,
        }
    }
}

// a line may end only in a continuation character or a period
pub open spec fn end_ok(l: Seq<char>) -> bool {
    l.len() == 0 || ({ let c = l[l.len() - 1]; c == '-' || c == ',' || c == '.' || c == '=' || c == ';' })
}
pub open spec fn all_ends_ok(ls: Seq<Seq<char>>) -> bool { forall|k: int| 0 <= k < ls.len() ==> end_ok(#[trigger] ls[k]) }

pub open spec fn all_ws(s: Seq<char>) -> bool { forall|k: int| 0 <= k < s.len() ==> is_ws(#[trigger] s[k]) }

// TRUSTED(T3): space, tab and line feed are white space (is_ws is the uninterpreted char::is_whitespace)
pub axiom fn axiom_space_is_ws()
    ensures is_ws(' '), is_ws('\t'), is_ws('\n');

// text = seps[0] + kept[0] + seps[1] + kept[1] + ... + kept[n-1] + seps[n]     (seps.len() == kept.len() + 1)
pub open spec fn interleave(kept: Seq<Seq<char>>, seps: Seq<Seq<char>>) -> Seq<char>
    decreases kept.len(),
{
    if kept.len() == 0 { if seps.len() > 0 { seps[0] } else { Seq::empty() } }
    else { interleave(kept.drop_last(), seps.drop_last()) + kept.last() + seps.last() }
}

// replacing an empty last separator by x appends x
pub proof fn lemma_interleave_last(kept: Seq<Seq<char>>, seps: Seq<Seq<char>>, x: Seq<char>)
    requires seps.len() == kept.len() + 1, seps.last().len() == 0,
    ensures interleave(kept, seps.drop_last().push(x)) == interleave(kept, seps) + x,
{
    let s2 = seps.drop_last().push(x);
    if kept.len() == 0 {
        assert(seps[0] =~= Seq::<char>::empty());
        assert(interleave(kept, seps) + x =~= x);
    } else {
        assert(s2.drop_last() =~= seps.drop_last());
        assert(interleave(kept, seps) + x =~= interleave(kept.drop_last(), seps.drop_last()) + kept.last() + x);
    }
}

// A line break separates tokens: the text handed to the rule splitter consists of the kept lines in order,
// separated by white space (at least one character between two lines; white space may also precede the first
// and follow the last line).
pub open spec fn ws_joined(text: Seq<char>, kept: Seq<Seq<char>>) -> bool {
    exists|seps: Seq<Seq<char>>| ws_seps(text, kept, seps)
}
pub open spec fn ws_seps(text: Seq<char>, kept: Seq<Seq<char>>, seps: Seq<Seq<char>>) -> bool {
    &&& seps.len() == kept.len() + 1
    &&& forall|k: int| 0 <= k < seps.len() ==> all_ws(#[trigger] seps[k])
    &&& forall|k: int| 0 < k < seps.len() - 1 ==> (#[trigger] seps[k]).len() > 0
    &&& text == interleave(kept, seps)
}

// total number of characters of the readable lines, plus one per line
pub open spec fn file_chars(fl: Seq<Option<Seq<char>>>) -> int
    decreases fl.len(),
{
    if fl.len() == 0 { 0 } else { file_chars(fl.drop_last()) + 1 + (match fl.last() { Some(l) => l.len() as int, None => 0 }) }
}

pub proof fn lemma_file_chars_take(fl: Seq<Option<Seq<char>>>, n: int)
    requires 0 <= n < fl.len(),
    ensures
        file_chars(fl.take(n + 1)) == file_chars(fl.take(n)) + 1 + (match fl[n] { Some(l) => l.len() as int, None => 0 }),
        0 <= file_chars(fl.take(n)),
        file_chars(fl.take(n + 1)) <= file_chars(fl),
    decreases fl.len() - n,
{
    assert(fl.take(n + 1).drop_last() =~= fl.take(n));
    assert(fl.take(n + 1).last() == fl[n]);
    lemma_file_chars_nonneg(fl.take(n));
    if n + 1 < fl.len() { lemma_file_chars_take(fl, n + 1); } else { assert(fl.take(n + 1) =~= fl); }
}
pub proof fn lemma_file_chars_nonneg(fl: Seq<Option<Seq<char>>>)
    ensures 0 <= file_chars(fl),
    decreases fl.len(),
{
    if fl.len() > 0 { lemma_file_chars_nonneg(fl.drop_last()); }
}
pub proof fn lemma_kept_take(fl: Seq<Option<Seq<char>>>, n: int)
    requires 0 <= n < fl.len(),
    ensures kept_of(fl.take(n + 1)) == (match fl[n] {
        Some(l) => if stripped(l).len() > 0 { kept_of(fl.take(n)).push(stripped(l)) } else { kept_of(fl.take(n)) },
        None => kept_of(fl.take(n)) }),
{
    assert(fl.take(n + 1).drop_last() =~= fl.take(n));
    assert(fl.take(n + 1).last() == fl[n]);
}
// whether the named file can be opened
pub uninterp spec fn file_opens(name: Seq<char>) -> bool;
// the lines kept from a prefix of the file are a prefix of the lines kept from the whole file
pub proof fn lemma_kept_prefix(fl: Seq<Option<Seq<char>>>, m: int)
    requires 0 <= m <= fl.len(),
    ensures
        kept_of(fl.take(m)).len() <= kept_of(fl).len(),
        forall|k: int| 0 <= k < kept_of(fl.take(m)).len() ==> kept_of(fl)[k] == #[trigger] kept_of(fl.take(m))[k],
    decreases fl.len() - m,
{
    if m == fl.len() { assert(fl.take(m) =~= fl); }
    else {
        lemma_kept_prefix(fl, m + 1);
        lemma_kept_take(fl, m);
        let a = kept_of(fl.take(m));
        let b = kept_of(fl.take(m + 1));
        assert(a.len() <= b.len());
        assert forall|k: int| 0 <= k < a.len() implies kept_of(fl)[k] == #[trigger] a[k] by {
            assert(b[k] == a[k]);
        }
    }
}

// what the loader returns for the joined text: the text is cut after every rule-ending period and nowhere else
// (segs), each returned rule is its segment without surrounding white space; an error exactly when the text has
// unbalanced brackets
pub open spec fn loaded_as(text: Seq<char>, segs: Seq<Seq<char>>, res: Result<Vec<String>, String>) -> bool {
    &&& (res is Ok <==> (rdepth(text, text.len() as int) == 0 && sdepth(text, text.len() as int) == 0))
    &&& (res matches Ok(rules) ==> {
            &&& segs.len() == rules@.len()
            &&& segmented(text, segs, total_len(segs))
            &&& no_rule_end_in(text, total_len(segs), text.len() as int)
            &&& forall|k: int| 0 <= k < segs.len() ==> is_trim_of(#[trigger] rules@[k]@, segs[k])
        })
}
