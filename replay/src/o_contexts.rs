//! C20: "the same term text parses to the same term whether it is written on its own, as an argument of a complex term
//! or built-in, as a list element, as an operand of an infix operator, or as a query argument."
//!
//! A fixed universe of term texts is placed in each context and the term that comes out is compared with
//! `parse_term(text)`.  Case syntax: `<context> :: <text>`.
//!
//! Known deviations (known_findings.txt, DESIGN 8.33) are described by RULE - context class, shape of the text, and the two
//! values observed - in `known_deviation`; `c20_contexts` passes over a deviation only if it is exactly such a one, so a
//! different value on the same input, or the same kind of deviation in another context, is still a failure.  The oracles
//! `c20_known_*` enumerate the known deviations themselves and fail while they are there: they give the failing inputs
//! of the obligations #argument_not_infix / #argument_as_alone.
use suiron::*;
use crate::terms::ser;

fn strip_ids(t: &Unifiable) -> Unifiable {
    match t {
        Unifiable::LogicVar { name, .. } => Unifiable::LogicVar { id: 0, name: name.clone() },
        Unifiable::SComplex(ts) => Unifiable::SComplex(ts.iter().map(strip_ids).collect()),
        Unifiable::SFunction { name, terms } => Unifiable::SFunction { name: name.clone(), terms: terms.iter().map(strip_ids).collect() },
        Unifiable::SLinkedList { term, next, count, tail_var } =>
            Unifiable::SLinkedList { term: Box::new(strip_ids(term)), next: Box::new(strip_ids(next)), count: *count, tail_var: *tail_var },
        other => other.clone(),
    }
}

fn show(r: &Result<Unifiable, String>) -> String {
    match r { Ok(t) => ser(&strip_ids(t)), Err(_) => "error".to_string() }
}

pub const CONTEXTS: [&str; 22] = ["argument", "argument_2_of_3", "builtin_argument", "query_argument", "list_element", "list_element_2_of_2", "unify_right", "compare_left", "arith_right",
    // with a sibling that sets each piece of the scanning state (digits, a period, quotation marks, brackets) before or after the text
    "argument_after_float", "argument_after_quoted", "argument_after_int", "argument_after_list", "argument_before_float", "argument_before_quoted",
    "builtin_argument_after_float", "query_argument_after_float", "query_argument_before_quoted",
    "list_element_after_float", "list_element_before_quoted", "list_element_before_tail", "list_element_middle"];

fn is_argument_context(ctx: &str) -> bool { ctx.starts_with("argument") || ctx.starts_with("builtin_argument") || ctx.starts_with("query_argument") }

/// the term that comes out of `text` written in the context
fn in_context(ctx: &str, text: &str) -> Result<Unifiable, String> {
    fn nth(ts: &Vec<Unifiable>, n: usize, want: usize) -> Result<Unifiable, String> {
        if ts.len() != want { return Err(format!("the context was cut into {} terms instead of {}", ts.len(), want)); }
        Ok(ts[n].clone())
    }
    match ctx {
        "argument" => match parse_complex(&format!("f({})", text))? { Unifiable::SComplex(ts) => nth(&ts, 1, 2), o => Err(format!("not a complex term: {:?}", o)) },
        "argument_2_of_3" => match parse_complex(&format!("f(a, {}, b)", text))? { Unifiable::SComplex(ts) => nth(&ts, 2, 4), o => Err(format!("not a complex term: {:?}", o)) },
        "builtin_argument" => match parse_subgoal(&format!("print_list({})", text))? {
            Goal::BuiltInGoal(b) => match &b.terms { Some(ts) => nth(ts, 0, 1), None => Err("no terms".into()) },
            o => Err(format!("not a built-in: {:?}", o)) },
        "query_argument" => match parse_query(&format!("f({})", text))? {
            Goal::ComplexGoal(Unifiable::SComplex(ts)) => nth(&ts, 1, 2), o => Err(format!("not a complex goal: {:?}", o)) },
        "list_element" => match parse_linked_list(&format!("[{}]", text))? {
            Unifiable::SLinkedList { term, count: 1, .. } => Ok((*term).clone()), o => Err(format!("not a one-element list: {:?}", o)) },
        "list_element_2_of_2" => match parse_linked_list(&format!("[a, {}]", text))? {
            Unifiable::SLinkedList { next, count: 2, .. } => match *next { Unifiable::SLinkedList { term, .. } => Ok((*term).clone()), o => Err(format!("{:?}", o)) },
            o => Err(format!("not a two-element list: {:?}", o)) },
        "unify_right" => match parse_subgoal(&format!("$Q = {}", text))? {
            Goal::BuiltInGoal(b) if b.functor == "unify" => match &b.terms { Some(ts) => nth(ts, 1, 2), None => Err("no terms".into()) },
            o => Err(format!("not a unification: {:?}", o)) },
        "compare_left" => match parse_subgoal(&format!("{} >= $Q", text))? {
            Goal::BuiltInGoal(b) if b.functor == "greater_than_or_equal" => match &b.terms { Some(ts) => nth(ts, 0, 2), None => Err("no terms".into()) },
            o => Err(format!("not a comparison: {:?}", o)) },
        "arith_right" => match parse_term(&format!("$Q * {}", text))? {
            Unifiable::SFunction { name, terms } if name == "multiply" => nth(&terms, 1, 2), o => Err(format!("not a product: {:?}", o)) },
        "argument_after_float" => match parse_complex(&format!("f(2.5, {})", text))? { Unifiable::SComplex(ts) => nth(&ts, 2, 3), o => Err(format!("not a complex term: {:?}", o)) },
        "argument_after_quoted" => match parse_complex(&format!("f(\"q r\", {})", text))? { Unifiable::SComplex(ts) => nth(&ts, 2, 3), o => Err(format!("not a complex term: {:?}", o)) },
        "argument_after_int" => match parse_complex(&format!("f(7, {})", text))? { Unifiable::SComplex(ts) => nth(&ts, 2, 3), o => Err(format!("not a complex term: {:?}", o)) },
        "argument_after_list" => match parse_complex(&format!("f([1.5, \"q\"], {})", text))? { Unifiable::SComplex(ts) => nth(&ts, 2, 3), o => Err(format!("not a complex term: {:?}", o)) },
        "argument_before_float" => match parse_complex(&format!("f({}, 2.5)", text))? { Unifiable::SComplex(ts) => nth(&ts, 1, 3), o => Err(format!("not a complex term: {:?}", o)) },
        "argument_before_quoted" => match parse_complex(&format!("f({}, \"q r\")", text))? { Unifiable::SComplex(ts) => nth(&ts, 1, 3), o => Err(format!("not a complex term: {:?}", o)) },
        "builtin_argument_after_float" => match parse_subgoal(&format!("print_list(2.5, {})", text))? {
            Goal::BuiltInGoal(b) => match &b.terms { Some(ts) => nth(ts, 1, 2), None => Err("no terms".into()) },
            o => Err(format!("not a built-in: {:?}", o)) },
        "query_argument_after_float" => match parse_query(&format!("f(2.5, {})", text))? {
            Goal::ComplexGoal(Unifiable::SComplex(ts)) => nth(&ts, 2, 3), o => Err(format!("not a complex goal: {:?}", o)) },
        "query_argument_before_quoted" => match parse_query(&format!("f({}, \"q r\")", text))? {
            Goal::ComplexGoal(Unifiable::SComplex(ts)) => nth(&ts, 1, 3), o => Err(format!("not a complex goal: {:?}", o)) },
        "list_element_after_float" => list_nth(&format!("[2.5, {}]", text), 1, 2),
        "list_element_before_quoted" => list_nth(&format!("[{}, \"q r\"]", text), 0, 2),
        "list_element_before_tail" => list_nth(&format!("[{} | $Rest]", text), 0, 2),
        "list_element_middle" => list_nth(&format!("[x, {}, y]", text), 1, 3),
        other => Err(format!("unknown context {}", other)),
    }
}

/// the n-th node's term of a parsed list with `count` nodes (a tail variable counts as a node)
fn list_nth(text: &str, n: usize, count: usize) -> Result<Unifiable, String> {
    let l = parse_linked_list(text)?;
    let mut cur = &l;
    let mut k = 0;
    loop {
        match cur {
            Unifiable::SLinkedList { term, next, count: c, .. } => {
                if k == 0 && *c != count { return Err(format!("the list was cut into {} nodes instead of {}", c, count)); }
                if k == n { return Ok((**term).clone()); }
                cur = next; k += 1;
            },
            o => return Err(format!("not a list node: {:?}", o)),
        }
    }
}

/// the universe of term texts
pub fn texts() -> Vec<String> {
    let base = [
        // atoms, variables, the anonymous variable, things that look like variables
        "a", "abc", "Harry Potter", "hello_world", "X1", "$X", "$Abc", "$_", "$", "$1", "$x y", "$_1",
        // numbers
        "0", "7", "42", "007", "1.5", "0.25", "3.", ".5", "1.2.3", "12a", "1e5", "9223372036854775807", "9223372036854775808",
        // signs
        "-3", "+7", "-1.5", "+0.5", "-", "+", "- 3", "-a", "+a", "--3", "-3-", "3-", "3-4", "a-b", "1+2", "-.5", "-0", "+-1",
        // quoted
        "\"a b\"", "\"x,y\"", "\"\"", "\"(\"", "\"$X\"", "\"12\"", "\"-3\"",
        // quotation marks that do not enclose the whole text
        "a\"b\"c", "x\"y z\"", "\"a\" \"b\"", "\"a\"b",
        // lists
        "[]", "[a]", "[a, b]", "[a | $T]", "[[a], b]", "[-3]", "[$X + 1]", "[1, 2.5, \"q\"]",
        // complex terms and functions
        "city(\"New York\")", "likes(\"Mary Ann\", $X)", "[\"New York\", Toronto]", "route([\"St. John\"], 12)", "g(\"a,b\")", "g([\"x\"])", "[g(\"x\")]",
        "g(a)", "g(a, $X)", "g(h(b))", "g(-3)", "g([a])", "g()", "add(1, 2)", "join(a, b)", "subtract($X, -1)", "multiply(2)", "divide(1, 0)",
        // arithmetic written infix
        "$X + 1", "3 - 2", "$A * $B", "a / b", "$X +1", "$X+ 1", "$X+1", "1 + 2 + 3", "(1 + 2)", "g(1 + 2)", "\"1 + 2\"", "1 +  2", "+ 1", "1 +",
        // punctuation
        "!", "?", ":", "*", "<", ">", "@", "#", "%", "^", "&", "~", "a.b", "a:b", ".", "..", "a?", "<>", "=", "a=b", "a = b", ">=",
        // escapes
        "\\,", "a\\,b", "\\5", "a\\\\b", "\\a", "\\", "a\\", "\\\\", "\\(", "\\[x",
        // white space inside
        "3 4", "a b", "a  b", "1 .5", "$X Y", "g (a)", "g(a) b",
        // unbalanced
        "(", ")", "g(a", "[a", "a]", "(a)", "((a))", "(a, b)",
    ];
    let mut out: Vec<String> = base.iter().map(|s| s.to_string()).collect();
    // a digit next to each punctuation character (the classification "some digit and nothing else but periods")
    for c in "!?:*<>@#%^&~_;'`{}/".chars() { out.push(format!("1{}2", c)); out.push(format!("{}1", c)); out.push(format!("1{}", c)); }
    // the same with white space around
    for s in ["a", "-3", "$X", "1.5", "[a]", "g(a)", "$X + 1", "\\,"] { out.push(format!("  {} ", s)); out.push(format!("\t{}", s)); }
    out
}

/// does `text` written in `ctx` stay ONE term of that context?  (a text with a separator of the context in it is not a term text there)
fn fits(ctx: &str, text: &str) -> bool {
    let cs: Vec<char> = text.chars().collect();
    let mut depth = 0i32; let mut quote = false;
    let mut k = 0;
    while k < cs.len() {
        let c = cs[k];
        if c == '\\' { if k + 1 >= cs.len() { return false; } k += 2; continue; }
        if quote { if c == '"' { quote = false; } k += 1; continue; }
        match c {
            '"' => quote = true,
            '(' | '[' => depth += 1,
            ')' | ']' => depth -= 1,
            ',' if depth == 0 => return false,
            '|' if depth == 0 && ctx.starts_with("list_element") => return false,
            _ => {}
        }
        if depth < 0 { return false; }
        k += 1;
    }
    if depth != 0 || quote { return false; }
    // an infix context reads the first infix it finds: the text must not hold one of its own at the top
    if matches!(ctx, "unify_right" | "compare_left") {
        for op in ["=", ">", "<"] { if text.contains(op) { return false; } }
    }
    if ctx == "arith_right" {
        for op in [" + ", " - ", " * ", " / "] { if text.contains(op) { return false; } }
    }
    true
}

/// mirror of the engine's search for an arithmetic infix (a sign with a blank on both sides, outside "..." and (...)): the operator found
fn infix_shape(t: &str) -> Option<&'static str> {
    let cs: Vec<char> = t.chars().collect();
    let mut prev = '#';
    let mut i = 0;
    while i < cs.len() {
        let c1 = cs[i];
        let c2 = if i + 1 < cs.len() { cs[i + 1] } else { '#' };
        if c1 == '"' { let mut j = i + 1; while j < cs.len() { if cs[j] == '"' { i = j; break; } j += 1; } }
        else if c1 == '(' { let mut j = i + 1; while j < cs.len() { if cs[j] == ')' { i = j; break; } j += 1; } }
        else {
            if prev != ' ' { prev = c1; i += 1; continue; }
            if c2 == ' ' { match c1 { '+' => return Some("add"), '-' => return Some("subtract"), '*' => return Some("multiply"), '/' => return Some("divide"), _ => {} } }
        }
        prev = c1;
        i += 1;
    }
    None
}
fn paren_shape(t: &str) -> bool { t.matches('(').count() != t.matches(')').count() }
fn escape_shape(t: &str) -> bool {
    let mut quote = false;
    for c in t.chars() { if c == '"' { quote = !quote; } if c == '\\' && !quote { return true; } }
    false
}
/// quotation marks (outside brackets, not escaped) that are not exactly one pair enclosing the whole text
fn quotes_shape(t: &str) -> bool {
    let cs: Vec<char> = t.chars().collect();
    let mut n = 0; let mut depth = 0i32; let mut k = 0; let mut quote = false;
    while k < cs.len() {
        let c = cs[k];
        if c == '\\' { k += 2; continue; }
        if c == '"' { if depth == 0 { n += 1; } quote = !quote; }
        else if !quote { if c == '(' || c == '[' { depth += 1; } if c == ')' || c == ']' { depth -= 1; } }
        k += 1;
    }
    n != 0 && !(n == 2 && cs[0] == '"' && cs[cs.len() - 1] == '"')
}
fn flags_shape(t: &str) -> bool {
    !t.is_empty() && t.chars().all(|c| c.is_ascii_digit() || c == '.' || c == '+' || c == '-' || c == ' ')
        && t.chars().any(|c| c.is_ascii_digit()) && t.chars().any(|c| c == '+' || c == '-' || c == ' ')
}
/// the class of known findings a text belongs to by its SHAPE (first that applies), whatever the engine does with it
pub fn shape_class(text: &str) -> Option<&'static str> {
    let t = text.trim();
    if paren_shape(t) { return Some("paren"); }
    if quotes_shape(t) { return Some("quotes"); }
    if infix_shape(t).is_some() { return Some("infix"); }
    if escape_shape(t) { return Some("escape"); }
    if flags_shape(t) { return Some("flags"); }
    None
}

/// A deviation that is recorded as a known finding (known_findings.txt, DESIGN 8.33): the text is an ARGUMENT (of a complex
/// term, a built-in, a query), it has one of the four shapes, and the two values are the ones recorded:
///   paren:  a parenthesis inside quotation marks or after a backslash, so that plain counting finds them unbalanced: on its
///           own an atom, as an argument an error (the enclosing term counts every parenthesis)
///   infix:  on its own an arithmetic function made of the two sides of the infix (or their error); as an argument the text
///           is never searched for an infix
///   escape: a backslash outside quotation marks: on its own the text is kept (the two-character text loses the backslash),
///           as an argument every backslash is dropped and the character after it kept
///   flags:  digits, periods, signs and blanks only: on its own an atom; as an argument a sign or a blank does not make the
///           text a non-number, so it is the number Rust reads from it, or "Invalid integer/float"
pub fn known_deviation(ctx: &str, text: &str, alone: &Result<Unifiable, String>, here: &Result<Unifiable, String>) -> Option<&'static str> {
    // quotes: quotation marks that do not enclose the whole text - on its own (and as an infix operand) an atom, as an
    // argument AND as a list element an error (both scans count the marks and check_quotes wants one enclosing pair)
    if (is_argument_context(ctx) || ctx.starts_with("list_element")) && shape_class(text) == Some("quotes") {
        return if matches!(alone, Ok(Unifiable::Atom(_))) && here.is_err() { Some("quotes") } else { None };
    }
    if !is_argument_context(ctx) { return None; }
    let t = text.trim();
    let atom_is = |r: &Result<Unifiable, String>, s: &str| matches!(r, Ok(Unifiable::Atom(a)) if a == s);
    match shape_class(text)? {
        "paren" => if matches!(alone, Ok(Unifiable::Atom(_))) && here.is_err() { Some("paren") } else { None },
        "infix" => {
            let op = infix_shape(t)?;
            match alone { Ok(Unifiable::SFunction { name, terms }) if name == op && terms.len() == 2 => Some("infix"), Err(_) => Some("infix"), _ => None }
        },
        "escape" => {
            let cs: Vec<char> = t.chars().collect();
            let mut un = String::new();
            let mut k = 0;
            while k < cs.len() { if cs[k] == '\\' && k + 1 < cs.len() { un.push(cs[k + 1]); k += 2; } else { un.push(cs[k]); k += 1; } }
            let alone_kept = atom_is(alone, t) || (cs.len() == 2 && atom_is(alone, &cs[1..].iter().collect::<String>()));
            let here_dropped = atom_is(here, un.trim()) || matches!(here, Ok(Unifiable::SInteger(i)) if i.to_string() == un);
            if alone_kept && here_dropped { Some("escape") } else { None }
        },
        "flags" => {
            if !atom_is(alone, t) { return None; }
            let expect: Result<Unifiable, String> = if t.contains('.') { t.parse::<f64>().map(Unifiable::SFloat).map_err(|_| "e".to_string()) }
                                                    else { t.parse::<i64>().map(Unifiable::SInteger).map_err(|_| "e".to_string()) };
            if show(&expect) == show(here) { Some("flags") } else { None }
        },
        _ => None,
    }
}

pub fn enum_contexts(seed: u64) -> Vec<String> {
    let mut out = vec![];
    let mut all = texts();
    // and generated terms (the term generator of c19_random: nested lists, complex terms, functions, infix arithmetic at the top)
    let mut r = crate::terms::Rng(seed.wrapping_mul(0x9E3779B97F4A7C15) ^ 0x632BE59BD9B4E019 | 1);
    for k in 0..400 { let (src, _) = crate::o_parsers::r_term(&mut r, 1 + k % 3, k % 2 == 0); all.push(src); }
    all.sort(); all.dedup();
    for ctx in CONTEXTS { for t in &all { if fits(ctx, t) { out.push(format!("{} :: {}", ctx, t)); } } }
    out
}

fn compare(case: &str) -> Result<(String, String, Result<Unifiable, String>, Result<Unifiable, String>), String> {
    let (ctx, text) = case.split_once(" :: ").ok_or("bad case")?;
    let alone = parse_term(text);
    let here = in_context(ctx, text);
    Ok((ctx.to_string(), text.to_string(), alone, here))
}

pub fn check_contexts(case: &str) -> Result<(), String> {
    let (ctx, text, alone, here) = compare(case)?;
    if show(&alone) == show(&here) { return Ok(()); }
    if known_deviation(&ctx, &text, &alone, &here).is_some() { crate::skip(); return Ok(()); }
    Err(format!("`{}` on its own is {} but in the context {} it is {}{}", text, show(&alone), ctx, show(&here),
                match &here { Err(e) => format!(" ({})", e), _ => String::new() }))
}

fn enum_known(kind: &str) -> Vec<String> {
    // listed by shape, not by present behaviour: the enumeration does not shrink when a defect is repaired
    let mut out = vec![];
    for ctx in CONTEXTS { if is_argument_context(ctx) || (kind == "quotes" && ctx.starts_with("list_element")) { for t in texts() { if fits(ctx, &t) && shape_class(&t) == Some(kind) && t == t.trim() {
        out.push(format!("{} :: {}", ctx, t));
    } } } }
    // the plainest example first: it is the input known_findings.txt names
    let first = match kind { "flags" => "-3", "infix" => "$X + 1", "escape" => "a\\,b", "quotes" => "a\"b\"c", _ => "\"(\"" };
    let lead = format!("argument :: {}", first);
    if let Some(k) = out.iter().position(|c| *c == lead) { let c = out.remove(k); out.insert(0, c); }
    out
}
pub fn enum_known_paren(_s: u64) -> Vec<String> { enum_known("paren") }
pub fn enum_known_flags(_s: u64) -> Vec<String> { enum_known("flags") }
pub fn enum_known_infix(_s: u64) -> Vec<String> { enum_known("infix") }
pub fn enum_known_escape(_s: u64) -> Vec<String> { enum_known("escape") }
pub fn enum_known_quotes(_s: u64) -> Vec<String> { enum_known("quotes") }

/// fails on every deviation, known or not
pub fn check_strict(case: &str) -> Result<(), String> {
    let (ctx, text, alone, here) = compare(case)?;
    if show(&alone) == show(&here) { return Ok(()); }
    Err(format!("`{}` on its own is {} but in the context {} it is {}{}", text, show(&alone), ctx, show(&here),
                match known_deviation(&ctx, &text, &alone, &here) { Some(k) => format!(" [known deviation: {}]", k), None => " [NOT a known deviation]".to_string() }))
}

// ---- C14 / C12 at the surface: what an infix means -----------------------------------------------------------------------------
/// `L op R` as a subgoal is the built-in predicate named after the operator on the two operands; `L op R` as a term (arithmetic) is
/// the function named after the operator.  Case: `<op> :: <left> :: <right>`
pub fn enum_infix(_s: u64) -> Vec<String> {
    let ops = ["=", "==", "<", "<=", ">", ">=", "+", "-", "*", "/"];
    // (operands of one, two, three and four bytes per character on either side: positions in the text are counted in
    // characters - seed C14-4 cut the operands at byte offsets)
    let operands = [("$X", "3"), ("a", "$Y"), ("f($X)", "[1, 2]"), ("2.5", "$Z"), ("$A", "$B"),
                    ("café", "cafés"), ("é", "é"), ("Ωmega", "$X"), ("$X", "Ωmega"), ("日本", "日本語"), ("a😀", "b"), ("straße", "f(ü, $Y)")];
    let mut out = vec![];
    for op in ops { for (l, r) in operands { out.push(format!("{} :: {} :: {}", op, l, r)); } }
    out
}
pub fn check_infix_meaning(case: &str) -> Result<(), String> {
    let parts: Vec<&str> = case.split(" :: ").collect();
    if parts.len() != 3 { return Err("bad case".into()); }
    let (op, l, r) = (parts[0], parts[1], parts[2]);
    let (lt, rt) = (parse_term(l)?, parse_term(r)?);
    let want = match op { "=" => "unify", "==" => "equal", "<" => "less_than", "<=" => "less_than_or_equal", ">" => "greater_than", ">=" => "greater_than_or_equal",
                          "+" => "add", "-" => "subtract", "*" => "multiply", _ => "divide" };
    let text = format!("{} {} {}", l, op, r);
    if ["+", "-", "*", "/"].contains(&op) {
        match parse_term(&text)? {
            Unifiable::SFunction { name, terms } => {
                if name != want { return Err(format!("`{}` is the function {}, the operator means {}", text, name, want)); }
                if terms.len() != 2 || ser(&terms[0]) != ser(&lt) || ser(&terms[1]) != ser(&rt) { return Err(format!("`{}`: the operands are {:?}", text, terms)); }
                Ok(())
            },
            o => Err(format!("`{}` is not a function: {:?}", text, o)),
        }
    } else {
        match parse_subgoal(&text)? {
            Goal::BuiltInGoal(b) => {
                if b.functor != want { return Err(format!("`{}` is the predicate {}, the operator means {}", text, b.functor, want)); }
                match &b.terms { Some(ts) if ts.len() == 2 && ser(&ts[0]) == ser(&lt) && ser(&ts[1]) == ser(&rt) => Ok(()), o => Err(format!("`{}`: the operands are {:?}", text, o)) }
            },
            o => Err(format!("`{}` is not a built-in predicate: {:?}", text, o)),
        }
    }
}
