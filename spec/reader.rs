// ---------------------------------------------------------------------------
// spec/reader.rs -- segmentation of source text into rules (C21)
// ---------------------------------------------------------------------------

// net depth of round / square brackets after the first i characters
pub open spec fn rdepth(s: Seq<char>, i: int) -> int
    decreases i,
{
    if i <= 0 { 0 } else { rdepth(s, i - 1) + (if s[i - 1] == '(' { 1int } else if s[i - 1] == ')' { -1int } else { 0int }) }
}
pub open spec fn sdepth(s: Seq<char>, i: int) -> int
    decreases i,
{
    if i <= 0 { 0 } else { sdepth(s, i - 1) + (if s[i - 1] == '[' { 1int } else if s[i - 1] == ']' { -1int } else { 0int }) }
}

pub proof fn lemma_depth_bound(s: Seq<char>, i: int)
    requires 0 <= i <= s.len(),
    ensures -i <= rdepth(s, i) <= i, -i <= sdepth(s, i) <= i,
    decreases i,
{
    if i > 0 { lemma_depth_bound(s, i - 1); }
}

// --- strip_comments --------------------------------------------------------------
// a comment starts at character i: `#`, `%`, or the second `/` of `//`, outside brackets
pub open spec fn comment_at(s: Seq<char>, i: int) -> bool {
    &&& 0 <= i < s.len()
    &&& rdepth(s, i) == 0 && sdepth(s, i) == 0
    &&& s[i] != '(' && s[i] != '[' && s[i] != ')' && s[i] != ']'
    &&& (s[i] == '#' || s[i] == '%' || (s[i] == '/' && i > 0 && s[i - 1] == '/'))
}
pub open spec fn no_comment_before(s: Seq<char>, n: int) -> bool {
    forall|j: int| 0 <= j < n ==> !comment_at(s, j)
}
// where the text is cut for a comment starting at i
pub open spec fn cut_of(s: Seq<char>, i: int) -> int {
    if s[i] == '/' { i - 1 } else { i }
}
// `index` is the cut for the first comment of s: the comment starts at index (`#`, `%`)
// or at index + 1 (the second `/` of `//`)
pub open spec fn is_first_cut(s: Seq<char>, index: int) -> bool {
    ||| (comment_at(s, index) && s[index] != '/' && no_comment_before(s, index))
    ||| (comment_at(s, index + 1) && s[index + 1] == '/' && no_comment_before(s, index + 1))
}

pub proof fn lemma_first_cut_unique(s: Seq<char>, index: int)
    requires is_first_cut(s, index),
    ensures
        !no_comment_before(s, s.len() as int),
        forall|i: int| #[trigger] comment_at(s, i) && no_comment_before(s, i) ==> cut_of(s, i) == index,
{
    let i0 = if comment_at(s, index) && s[index] != '/' && no_comment_before(s, index) { index } else { index + 1 };
    assert(comment_at(s, i0) && no_comment_before(s, i0) && cut_of(s, i0) == index);
    assert forall|i: int| #[trigger] comment_at(s, i) && no_comment_before(s, i) implies cut_of(s, i) == index by {
        if i < i0 { assert(!comment_at(s, i)); }
        if i0 < i { assert(!comment_at(s, i0)); }
    }
}

// --- separate_rules ----------------------------------------------------------------
pub open spec fn is_digit(c: char) -> bool { '0' <= c && c <= '9' }

// number of double quotes among the first i characters that the scan counts
// (the scan counts a quote only when the character is not a rule-ending period or a bracket)
pub open spec fn nquotes(s: Seq<char>, i: int) -> int
    decreases i,
{
    if i <= 0 { 0 } else { nquotes(s, i - 1) + (if s[i - 1] == '"' { 1int } else { 0int }) }
}

// a period between two digits is a decimal point (1.5), not the end of a rule
pub open spec fn decimal_point(s: Seq<char>, i: int) -> bool {
    0 < i && i + 1 < s.len() && is_digit(s[i - 1]) && is_digit(s[i + 1])
}

// character i ends a rule: a period at bracket depth 0, outside quotes, that is not a decimal point
pub open spec fn rule_end(s: Seq<char>, i: int) -> bool {
    &&& 0 <= i < s.len()
    &&& s[i] == '.'
    &&& rdepth(s, i) == 0 && sdepth(s, i) == 0 && nquotes(s, i) % 2 == 0
    &&& !decimal_point(s, i)
}

pub open spec fn no_rule_end_in(s: Seq<char>, lo: int, hi: int) -> bool {
    forall|j: int| lo <= j < hi ==> !rule_end(s, j)
}

// The segmentation contract of the statement (DESIGN.md C21, P1-P3): the returned strings,
// concatenated, are a prefix of the text; each one ends at a rule-ending period and contains
// no other one; what remains after the last of them contains none.
pub open spec fn segmented(s: Seq<char>, rules: Seq<Seq<char>>, consumed: int) -> bool
    decreases rules.len(),
{
    if rules.len() == 0 { consumed == 0 }
    else {
        let last = rules[rules.len() - 1];
        let start = consumed - last.len();
        &&& 0 <= start < consumed <= s.len()
        &&& last == s.subrange(start, consumed)
        &&& rule_end(s, consumed - 1)
        &&& no_rule_end_in(s, start, consumed - 1)
        &&& segmented(s, rules.drop_last(), start)
    }
}

pub open spec fn views(v: Seq<String>) -> Seq<Seq<char>> { v.map(|k: int, x: String| x@) }

pub proof fn lemma_quotes_bound(s: Seq<char>, i: int)
    requires 0 <= i <= s.len(),
    ensures 0 <= nquotes(s, i) <= i,
    decreases i,
{
    if i > 0 { lemma_quotes_bound(s, i - 1); }
}

// total length of the returned rule strings
pub open spec fn total_len(rules: Seq<Seq<char>>) -> int
    decreases rules.len(),
{
    if rules.len() == 0 { 0 } else { total_len(rules.drop_last()) + rules[rules.len() - 1].len() }
}

pub proof fn lemma_segmented_len(s: Seq<char>, rules: Seq<Seq<char>>, consumed: int)
    requires segmented(s, rules, consumed),
    ensures consumed == total_len(rules),
    decreases rules.len(),
{
    if rules.len() > 0 {
        let last = rules[rules.len() - 1];
        lemma_segmented_len(s, rules.drop_last(), consumed - last.len());
    }
}

// R10 target for `"lit".to_string() + &s` (String + &String crashes the Verus front end; error-message text only)
#[verifier::external_body]
pub fn str_concat_lit(a: &str, b: &String) -> (r: String)
    ensures r@ == a@ + b@,
{ a.to_string() + b }
