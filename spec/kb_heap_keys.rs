// ---------------------------------------------------------------------------
// spec/kb_heap_keys.rs -- the clause loop asks the knowledge base only for clauses that are there (unit solver_kb, overlay kbx)
// ---------------------------------------------------------------------------
// the key of a predicate: "functor/arity".  Goal::key and Unifiable::key build it with the same format string, wrapped
// identically (R10); the text itself is uninterpreted
pub uninterp spec fn key_text(functor: Unifiable, arity: usize) -> Seq<char>;
#[verifier::external_body]
pub fn fmt_key(functor: &Unifiable, arity: usize) -> (r: String)
    ensures r@ == key_text(*functor, arity),
{ unimplemented!() }
pub open spec fn key_of(t: Unifiable) -> Seq<char> {
    match t { Unifiable::SComplex(ts) => key_text(ts@[0], (ts@.len() - 1) as usize), _ => Seq::empty() }
}
// looking a predicate up: by the TEXT of its key.  TRUSTED(T2): vstd specifies HashMap<String, _> look-ups with a borrowed &str key through the
// uninterpreted contains_borrowed_key / maps_borrowed_key_to_value and has no axiom that two keys with the same text find the same entry
// (str hashes and compares by content); kb_contains / kb_maps are those two as functions of the key's text
pub uninterp spec fn kb_contains(kb: KnowledgeBase, k: Seq<char>) -> bool;
pub uninterp spec fn kb_maps(kb: KnowledgeBase, k: Seq<char>, v: Vec<Rule>) -> bool;
pub axiom fn axiom_kb_lookup(kb: KnowledgeBase, k: &str)
    ensures
        vstd::std_specs::hash::contains_borrowed_key(kb@, k) == kb_contains(kb, k@),
        forall|v: Vec<Rule>| #[trigger] vstd::std_specs::hash::maps_borrowed_key_to_value(kb@, k, v) == kb_maps(kb, k@, v);
// TRUSTED(T2): a map holds one value under a key, and a key that has a value is in the map
pub axiom fn axiom_kb_one_value(kb: KnowledgeBase, k: Seq<char>)
    ensures forall|v1: Vec<Rule>, v2: Vec<Rule>| #[trigger] kb_maps(kb, k, v1) && #[trigger] kb_maps(kb, k, v2) ==> v1 == v2,
            forall|v: Vec<Rule>| #[trigger] kb_maps(kb, k, v) ==> kb_contains(kb, k);
// n is the number of clauses of the predicate with the key k - or 0 (count_rules answers 0 for a missing predicate and while a query is being stopped)
pub open spec fn kb_has(kb: KnowledgeBase, k: Seq<char>, n: int) -> bool {
    n > 0 ==> kb_contains(kb, k) && forall|v: Vec<Rule>| #[trigger] kb_maps(kb, k, v) ==> n == v@.len()
}
