//! C18: every parser returns a value or an error for every input, never panics.
use crate::terms::Rng;
use suiron::*;

const ENTRY: [&str; 8] = ["parse_term", "parse_linked_list", "parse_complex", "parse_function", "parse_query", "parse_subgoal", "generate_goal", "parse_rule"];

pub fn enum_strings(seed: u64) -> Vec<String> {
    let alphabet: Vec<&str> = vec!["a", "b", "$X", "$_", "1", "2.5", "(", ")", "[", "]", ",", " ", "|", "\"", "\\", ".", ":-", "=", "==", "<", ">=", "+", "-", "*", "/", ";", "!", "not", "time", "é", "f(", "add("];
    let mut strs: Vec<String> = vec!["".into(), " ".into(), ".".into(), "a\\".into(), "f(a\\".into(), "f(a\\)".into(), "$X :- a.".into(), "a :- .".into(),
        "p :- (a, b".into(), "p :- a, (b; c)).".into(), "p :- ;.".into(), "p :- ,.".into(), "()".into(), "(a)".into(), "[|]".into(), "[a|]".into(),
        "[a | b]".into(), "\"".into(), "\"\"".into(), "f(\"\")".into(), "$X =".into(), "= $X".into(), "$X = ".into(), "a + ".into(), " + a".into(),
        "not()".into(), "time()".into(), "not(".into(), "p :- not(a.".into(), "p :- a :- b.".into(), ":-".into(), ":- a.".into(), "a:-".into(), "abc".into()];
    for a in &alphabet { strs.push(a.to_string()); }
    for a in &alphabet { for b in &alphabet { strs.push(format!("{}{}", a, b)); } }
    let mut rng = Rng(seed.wrapping_mul(0x2545F4914F6CDD1D) | 1);
    for _ in 0..3000 {
        let n = 3 + rng.below(7);
        let mut s = String::new();
        for _ in 0..n { s.push_str(alphabet[rng.below(alphabet.len())]); }
        strs.push(s);
    }
    let mut out = vec![];
    for s in strs { for e in ENTRY { out.push(format!("{}\u{1}{}", e, s)); } }
    out
}

pub fn check_string(case: &str) -> Result<(), String> {
    let (entry, s) = case.split_once('\u{1}').unwrap();
    // a panic is caught by the caller (run_case) and reported as the failure
    match entry {
        "parse_term" => { let _ = parse_term(s); }
        "parse_linked_list" => { let _ = parse_linked_list(s); }
        "parse_complex" => { let _ = parse_complex(s); }
        "parse_function" => { let _ = parse_function(s); }
        "parse_query" => { let _ = parse_query(s); }
        "parse_subgoal" => { let _ = parse_subgoal(s); }
        "generate_goal" => { let _ = generate_goal(s); }
        _ => { let _ = parse_rule(s); }
    }
    Ok(())
}

// ---- C19: canonical source text parses and prints back unchanged (bounded) ------------------------------------------
// Rules and facts in the documented syntax.  For each text: the parser accepts it; the printed value is the canonical text
// (the text itself, or - for infix comparison / arithmetic and facts without arguments - the functional form Display uses);
// and parsing the printed text gives an equal value.
pub fn enum_roundtrip(_s: u64) -> Vec<String> {
    let same = [
        // facts: atoms, integers, floats with a fractional part, variables, $_, atoms with spaces
        "p(a).", "parent(Alice, Bob).", "n(1, -3, 2.5, -0.25).", "v($X, $Y, $X).", "w($_, a).", "name(Harry Potter, wizard).",
        "one(a).", "five(a, b, c, d, e).",
        // floats with a fractional part of every size
        "f(0.5, 100.25, 0.001, 0.00005).", "tolerance(bolt, 0.000025, -0.0000001).", "g(123456789.125, 3.14159).", "r($D) :- $D = 0.00001.",
        // lists with optional tail variable, nested terms
        "l([]).", "l([a, b, c]).", "l([a, $X | $T]).", "l([[a, b], [c]]).", "l([$H | $T], $H).", "t(f(g(a), $X), [f(a)]).",
        // conjunction, disjunction (and binds tighter than or)
        "r($X) :- p($X), q($X).", "r($X) :- p($X); q($X).", "r($X) :- p($X), q($X), s($X).", "r($X) :- p($X); q($X); s($X).",
        "r($X) :- p($X), q($X); s($X).", "r($X) :- p($X); q($X), s($X).", "r($X) :- a($X), b($X); c($X), d($X).",
        "r($X) :- a($X); b($X), c($X); d($X).",
        // not, built-ins
        "r($X) :- not(p($X)).", "r($X) :- p($X), not(q($X)).", "r($X) :- p($X), !.", "r($X) :- p($X), !, fail.",
        "r($X) :- $X = a.", "r($X) :- print(value %s, $X), nl.", "r($L, $N) :- count($L, $N).", "r($A, $B, $C) :- append($A, $B, $C).",
        "r($X, $F) :- functor($X, $F).", "r($L, $O) :- include(p($_), $L, $O).", "r($L, $O) :- exclude(p($_), $L, $O).",
        "r($X) :- time(p($X)).", "r($L) :- print_list($L).",
    ];
    let sugar = [
        ("zero.", "zero()."),
        ("r($X) :- p($X), $X == 2.", "r($X) :- p($X), equal($X, 2)."),
        ("r($X, $Y) :- $X > $Y.", "r($X, $Y) :- greater_than($X, $Y)."),
        ("r($X, $Y) :- $X >= $Y, $X <= 10, $Y < 3.", "r($X, $Y) :- greater_than_or_equal($X, $Y), less_than_or_equal($X, 10), less_than($Y, 3)."),
        ("r($X, $Y) :- $Y = $X + 1.", "r($X, $Y) :- $Y = add($X, 1)."),
        ("r($X, $Y) :- $Y = $X - 1.", "r($X, $Y) :- $Y = subtract($X, 1)."),
        ("r($X, $Y) :- $Y = $X * 2.", "r($X, $Y) :- $Y = multiply($X, 2)."),
        ("r($X, $Y) :- $Y = $X / 2.", "r($X, $Y) :- $Y = divide($X, 2)."),
    ];
    let mut out: Vec<String> = same.iter().map(|t| format!("{}\u{1}{}", t, t)).collect();
    out.extend(sugar.iter().map(|(a, b)| format!("{}\u{1}{}", a, b)));
    out
}

pub fn check_roundtrip(case: &str) -> Result<(), String> {
    let (text, canonical) = case.split_once('\u{1}').ok_or("bad case")?;
    let rule = parse_rule(text).map_err(|e| format!("`{}` is not accepted: {}", text, e))?;
    let printed = format!("{}", rule);
    if printed != canonical { return Err(format!("`{}` is printed back as `{}`", text, printed)); }
    let again = parse_rule(&printed).map_err(|e| format!("the printed text `{}` is not accepted: {}", printed, e))?;
    if format!("{:?}", again) != format!("{:?}", rule) { return Err(format!("parsing the printed text `{}` gives a different value", printed)); }
    Ok(())
}

// ---- C19, random rules: the round trip on generated texts ---------------------------------------------------------------
// A rule is generated as a tree; from the tree come the SOURCE text (infix comparison and arithmetic where the syntax
// allows them, extra blanks around separators) and the CANONICAL text (what Display is documented to write: functional form
// for comparison and arithmetic, `, ` / `; ` / ` :- `, no parentheses - so a disjunction holds conjunctions, never the
// reverse).  check_roundtrip does the rest: print(parse(source)) == canonical, parse(canonical) == parse(source).

const R_ATOMS: [&str; 8] = ["a", "b", "abc", "foo_bar", "Alice", "Harry Potter", "x1", "noun"];
const R_VARS: [&str; 6] = ["$X", "$Y", "$Z", "$Abc", "$H", "$T"];
const R_INTS: [&str; 7] = ["0", "1", "7", "42", "-3", "100", "-12"];
const R_FLOATS: [&str; 8] = ["0.5", "2.5", "100.25", "0.001", "3.14159", "-0.25", "0.00005", "-7.125"];

/// (source, canonical) of a random term; `operand` = the term stands where parse_term reads it (right or left of an infix,
/// a list element), so arithmetic may be written infix at its top
pub fn r_term(r: &mut Rng, depth: usize, operand: bool) -> (String, String) {
    let pick = if depth == 0 { r.below(6) } else { r.below(10) };
    match pick {
        0 | 1 => { let a = R_ATOMS[r.below(R_ATOMS.len())]; (a.into(), a.into()) },
        2 | 3 => { let v = R_VARS[r.below(R_VARS.len())]; (v.into(), v.into()) },
        4 => {
            // (a signed number is a number as an argument and an atom where parse_term reads it - C20's known finding -
            //  so as an operand or a list element only unsigned numbers are generated)
            let mut n = if r.below(2) == 0 { R_INTS[r.below(R_INTS.len())] } else { R_FLOATS[r.below(R_FLOATS.len())] };
            if operand && n.starts_with('-') { n = &n[1..]; }
            (n.into(), n.into())
        },
        5 => ("$_".into(), "$_".into()),
        6 => {
            // a list, perhaps with a tail variable
            let n = r.below(4);
            let mut s = vec![]; let mut c = vec![];
            for _ in 0..n { let (a, b) = r_term(r, depth - 1, false); let (a, b) = (unsigned(a), unsigned(b)); s.push(a); c.push(b); }
            if n > 0 && r.below(3) == 0 {
                let t = R_VARS[r.below(R_VARS.len())];
                (format!("[{} | {}]", s.join(", "), t), format!("[{} | {}]", c.join(", "), t))
            } else { (format!("[{}]", s.join(if r.below(4) == 0 { " , " } else { ", " })), format!("[{}]", c.join(", "))) }
        },
        7 | 8 => {
            // a complex term
            let f = ["f", "g", "pair", "city"][r.below(4)];
            let n = 1 + r.below(3);
            let mut s = vec![]; let mut c = vec![];
            for _ in 0..n { let (a, b) = r_term(r, depth - 1, false); s.push(a); c.push(b); }
            (format!("{}({})", f, s.join(if r.below(4) == 0 { ",  " } else { ", " })), format!("{}({})", f, c.join(", ")))
        },
        _ => {
            // arithmetic: functional everywhere, infix only where parse_term reads the text
            let k = r.below(4);
            let name = ["add", "subtract", "multiply", "divide"][k];
            let op = ["+", "-", "*", "/"][k];
            let leaf = |r: &mut Rng| -> String { match r.below(3) { 0 => R_VARS[r.below(R_VARS.len())].to_string(), 1 => ["1", "2", "10"][r.below(3)].to_string(), _ => ["0.5", "2.5"][r.below(2)].to_string() } };
            let (a, b) = (leaf(r), leaf(r));
            let canon = format!("{}({}, {})", name, a, b);
            if operand && r.below(2) == 0 { (format!("{} {} {}", a, op, b), canon) } else { (canon.clone(), canon) }
        },
    }
}

fn unsigned(t: String) -> String { if t.starts_with('-') && t[1..].chars().all(|c| c.is_ascii_digit() || c == '.') { t[1..].to_string() } else { t } }

fn r_literal(r: &mut Rng, depth: usize) -> (String, String) {
    let pick = if depth == 0 { [0, 1, 2, 3, 9, 10, 11][r.below(7)] } else { r.below(16) };
    match pick {
        0..=4 => {
            let f = ["p", "q", "parent", "likes"][r.below(4)];
            let n = 1 + r.below(3);
            let mut s = vec![]; let mut c = vec![];
            for _ in 0..n { let (a, b) = r_term(r, 2, false); s.push(a); c.push(b); }
            (format!("{}({})", f, s.join(", ")), format!("{}({})", f, c.join(", ")))
        },
        5 | 6 => { let (a, b) = r_term(r, 1, true); let (x, y) = r_term(r, 2, true); (format!("{} = {}", a, x), format!("{} = {}", b, y)) },
        7 | 8 => {
            let k = r.below(5);
            let op = ["==", ">", "<", ">=", "<="][k];
            let name = ["equal", "greater_than", "less_than", "greater_than_or_equal", "less_than_or_equal"][k];
            let (a, b) = r_term(r, 0, true); let (x, y) = r_term(r, 0, true);
            if r.below(3) == 0 { (format!("{}({}, {})", name, a, x), format!("{}({}, {})", name, b, y)) } else { (format!("{} {} {}", a, op, x), format!("{}({}, {})", name, b, y)) }
        },
        9 => { let w = ["!", "fail", "nl"][r.below(3)]; (w.into(), w.into()) },
        10 | 11 => {
            let (name, n) = [("print", 2), ("print_list", 1), ("append", 3), ("functor", 2), ("include", 3), ("exclude", 3), ("count", 2)][r.below(7)];
            let mut s = vec![]; let mut c = vec![];
            for _ in 0..n { let (a, b) = r_term(r, 1, false); s.push(a); c.push(b); }
            (format!("{}({})", name, s.join(", ")), format!("{}({})", name, c.join(", ")))
        },
        12 | 13 => { let (a, b) = r_inner(r); (format!("not({})", a), format!("not({})", b)) },
        _ => { let (a, b) = r_inner(r); (format!("time({})", a), format!("time({})", b)) },
    }
}

fn r_inner(r: &mut Rng) -> (String, String) {
    // any literal: a call, a built-in, a unification or comparison with operands of every shape (read back since the
    // repair of check_infix, 8.34), another not / time
    r_literal(r, 1)
}

pub fn enum_random_rules(seed: u64) -> Vec<String> {
    let mut r = Rng(seed.wrapping_mul(0x9E3779B97F4A7C15) ^ 0x2545F4914F6CDD1D | 1);
    let mut out = vec![];
    for _ in 0..2500 {
        let hf = ["r", "rule", "h"][r.below(3)];
        let n = 1 + r.below(3);
        let mut s = vec![]; let mut c = vec![];
        for _ in 0..n { let (a, b) = r_term(&mut r, 2, false); s.push(a); c.push(b); }
        let (hs, hc) = (format!("{}({})", hf, s.join(", ")), format!("{}({})", hf, c.join(", ")));
        if r.below(5) == 0 { out.push(format!("{}.\u{1}{}.", hs, hc)); continue; }
        // body: a conjunction, or a disjunction of conjunctions
        let alts = if r.below(3) == 0 { 2 + r.below(2) } else { 1 };
        let mut sa = vec![]; let mut ca = vec![];
        for _ in 0..alts {
            let m = 1 + r.below(3);
            let mut sl = vec![]; let mut cl = vec![];
            for _ in 0..m { let (a, b) = r_literal(&mut r, 1); sl.push(a); cl.push(b); }
            sa.push(sl.join(if r.below(5) == 0 { " ,  " } else { ", " })); ca.push(cl.join(", "));
        }
        let sep = if r.below(5) == 0 { " ;  " } else { "; " };
        out.push(format!("{} :- {}.\u{1}{} :- {}.", hs, sa.join(sep), hc, ca.join("; ")));
    }
    out
}
