// ---------------------------------------------------------------------------
// spec/solutions.rs -- solve / solve_all and the query timer (C22)
// ---------------------------------------------------------------------------
// Opaque stand-ins for two foreign types.  solve() and solve_all() never look inside them: they receive a
// solution node and pass it on to next_solution(), they receive a timer from start_query_timer() and hand it to
// cancel_timer().  (The real SolutionNode holds Rc<RefCell<..>> links, the real ThreadTimer comes from the crate
// thread_timer; neither can be declared in a single-file Verus run.)
use std::cell::RefCell;
#[verifier::external_body]
pub struct SolutionNode<'a> { _p: core::marker::PhantomData<&'a ()> }
#[verifier::external_body]
pub struct ThreadTimer { _p: () }

#[verifier::external_type_specification]
#[verifier::external_body]
#[verifier::reject_recursive_types(T)]
pub struct ExRefCell<T: ?Sized>(std::cell::RefCell<T>);

// R10 target for `sn.borrow().goal.clone()`: the goal of a solution node (RefCell::borrow has no Verus specification)
#[verifier::external_body]
pub fn verif_goal_of<'a>(sn: &Rc<std::cell::RefCell<SolutionNode<'a>>>) -> (r: Rc<Goal>)
{ unimplemented!() }
