// ---------------------------------------------------------------------------
// spec/resolve.rs -- resolving a term through the substitution set
// (get_ground_term and friends; C08 termination, C14/C16/C17 'through variable chains')
// ---------------------------------------------------------------------------

pub open spec fn has_end(s: SS, i: int, f: nat) -> bool { var_end(s, i, f) is Some }

// number of variable-to-variable steps from variable i to the end of its chain
pub open spec fn chain_len(s: SS, i: int) -> nat {
    choose|f: nat| has_end(s, i, f) && forall|g: nat| g < f ==> !has_end(s, i, g)
}

proof fn lemma_least_upto(s: SS, i: int, f: nat) -> (l: nat)
    requires has_end(s, i, f),
    ensures l <= f, has_end(s, i, l), forall|g: nat| g < l ==> !has_end(s, i, g),
    decreases f,
{
    if f == 0 { 0 }
    else if has_end(s, i, (f - 1) as nat) { lemma_least_upto(s, i, (f - 1) as nat) }
    else {
        assert forall|g: nat| g < f implies !has_end(s, i, g) by {
            if has_end(s, i, g) { lemma_var_end_mono(s, i, g, (f - 1) as nat); }
        }
        f
    }
}

pub proof fn lemma_chain_len(s: SS, i: int)
    requires ends(s, i),
    ensures has_end(s, i, chain_len(s, i)), forall|g: nat| g < chain_len(s, i) ==> !has_end(s, i, g),
{
    let f = choose|f: nat| (#[trigger] var_end(s, i, f)) is Some;
    let l = lemma_least_upto(s, i, f);
    assert(has_end(s, i, l) && forall|g: nat| g < l ==> !has_end(s, i, g));
}

// one step along the chain shortens it by one
pub proof fn lemma_chain_len_step(s: SS, i: int)
    requires acyclic(s), next_var(s, i) is Some,
    ensures chain_len(s, i) == chain_len(s, next_var(s, i).unwrap()) + 1,
{
    let j = next_var(s, i).unwrap();
    assert(ends(s, i));
    assert(ends(s, j));
    lemma_chain_len(s, i);
    lemma_chain_len(s, j);
    let li = chain_len(s, i);
    let lj = chain_len(s, j);
    assert(li > 0) by { if li == 0 { assert(var_end(s, i, 0) is None); } }
    assert(has_end(s, j, (li - 1) as nat));
    assert(has_end(s, i, lj + 1)) by { assert(var_end(s, i, lj + 1) == var_end(s, j, lj)); }
    if lj + 1 < li { assert(!has_end(s, i, lj + 1)); }
    if li - 1 < lj { assert(!has_end(s, j, (li - 1) as nat)); }
}

// What get_ground_term returns: the non-variable term at the end of the chain,
// or None when the chain ends at an unbound variable.
pub open spec fn ground_of(s: SS, t: Unifiable) -> Option<Unifiable> {
    match t {
        Unifiable::LogicVar{id, name} => bnd(s, chain_end(s, id as int)),
        _ => Some(t),
    }
}

pub open spec fn is_var(t: Unifiable) -> bool { t is LogicVar }

pub open spec fn is_const(t: Unifiable) -> bool { t is Atom || t is SInteger || t is SFloat }

pub proof fn lemma_ground_of_step(s: SS, t: Unifiable)
    requires acyclic(s), t is LogicVar,
    ensures
        bnd(s, t->LogicVar_id as int) matches Some(u) ==> ground_of(s, u) == ground_of(s, t),
        bnd(s, t->LogicVar_id as int) is None ==> ground_of(s, t) is None,
        ground_of(s, t) matches Some(g) ==> !(g is LogicVar),
{
    let i = t->LogicVar_id as int;
    lemma_chain_end(s, i);
    lemma_chain_end(s, chain_end(s, i));
    let e = chain_end(s, i);
    // the chain end is not bound to a variable
    assert(next_var(s, e) is None) by {
        let f = choose|f: nat| (#[trigger] var_end(s, i, f)) == Some(e);
        lemma_end_is_end(s, i, f);
    }
    match bnd(s, i) {
        Some(u) => {
            match u {
                Unifiable::LogicVar{id, name} => { },
                _ => { },
            }
        },
        None => { },
    }
}

// the variable at which a chain ends is itself unbound or bound to a non-variable
pub proof fn lemma_end_is_end(s: SS, i: int, f: nat)
    requires var_end(s, i, f) is Some,
    ensures next_var(s, var_end(s, i, f).unwrap()) is None,
    decreases f,
{
    match bnd(s, i) {
        None => {},
        Some(t) => match t {
            Unifiable::LogicVar{id, name} => { if f > 0 { lemma_end_is_end(s, id as int, (f - 1) as nat); } },
            _ => {},
        },
    }
}

// measure for loops that walk a chain starting from a term
pub open spec fn walk_len(s: SS, t: Unifiable) -> nat {
    match t {
        Unifiable::LogicVar{id, name} => 1 + chain_len(s, id as int),
        _ => 0,
    }
}

pub proof fn lemma_walk_len_step(s: SS, t: Unifiable)
    requires acyclic(s), t is LogicVar, bnd(s, t->LogicVar_id as int) is Some,
    ensures walk_len(s, bnd(s, t->LogicVar_id as int).unwrap()) < walk_len(s, t),
{
    let i = t->LogicVar_id as int;
    let u = bnd(s, i).unwrap();
    match u {
        Unifiable::LogicVar{id, name} => { lemma_chain_len_step(s, i); },
        _ => {},
    }
}

pub open spec fn resolves_const(s: SS, t: Unifiable) -> bool {
    match ground_of(s, t) { Some(g) => is_const(g), None => false }
}
