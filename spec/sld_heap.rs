// ---------------------------------------------------------------------------
// spec/sld_heap.rs -- SOUNDNESS of the search with respect to resolution (unit solver_sld, overlay sld): every answer of a
// solution node is a computed answer of its goal by SLD resolution.
//
// The reference semantics is the relation `entails(kb, g, s0, s1)` - "from the bindings s0 the goal g has the computed
// answer s1" - given by its inference rules, each an axiom below (entails is otherwise uninterpreted: what can be PROVED
// to be entailed is exactly what the rules derive; no rule is ever used backwards).  The primitive steps are functions:
// `unify_res` (unify), `bip_res` (the built-in predicates), and `variant` (a renamed copy of the i-th clause of a predicate,
// as get_rule returns it).  Two simplifications, stated here and in the evidence: not(G) and `!` count as true (they only
// remove answers; what not(G) does is C03, what the cut removes is C02).
// ---------------------------------------------------------------------------
pub uninterp spec fn entails(kb: KnowledgeBase, g: Goal, s0: SS, s1: SS) -> bool;
pub uninterp spec fn unify_res(a: Unifiable, b: Unifiable, s: SS) -> Option<SS>;
pub uninterp spec fn bip_res(b: BuiltInPredicate, s: SS) -> Option<SS>;
pub uninterp spec fn variant(kb: KnowledgeBase, key: Seq<char>, i: int, copy: Rule) -> bool;
// some clause of the predicate of c has a renamed copy whose head unifies with c, under s0, to u, and whose body is `body`
pub uninterp spec fn clause_step(kb: KnowledgeBase, c: Unifiable, s0: SS, body: Goal, u: SS) -> bool;

pub axiom fn ax_clause(kb: KnowledgeBase, c: Unifiable, s0: SS, i: int, copy: Rule, u: SS)
    requires variant(kb, key_of(c), i, copy), unify_res(copy.head, c, s0) == Some(u),
    ensures clause_step(kb, c, s0, copy.body, u);
// a fact: the unifier is the answer
pub axiom fn ax_fact(kb: KnowledgeBase, c: Unifiable, s0: SS, body: Goal, u: SS)
    requires clause_step(kb, c, s0, body, u), body is Nil,
    ensures entails(kb, Goal::ComplexGoal(c), s0, u);
// a rule: an answer of the body under the unifier
pub axiom fn ax_rule(kb: KnowledgeBase, c: Unifiable, s0: SS, body: Goal, u: SS, s1: SS)
    requires clause_step(kb, c, s0, body, u), entails(kb, body, u, s1),
    ensures entails(kb, Goal::ComplexGoal(c), s0, s1);
// a conjunction: the first goal, then the remaining ones under its answer (a conjunction of one goal: that goal)
pub axiom fn ax_and_last(kb: KnowledgeBase, op: Operator, s0: SS, s1: SS)
    requires op is And, op_goals(op).len() == 1, entails(kb, op_goals(op)[0], s0, s1),
    ensures entails(kb, Goal::OperatorGoal(op), s0, s1);
pub axiom fn ax_and(kb: KnowledgeBase, op: Operator, tl: Operator, s0: SS, m: SS, s1: SS)
    requires op is And, is_tail_of(tl, op), op_goals(op).len() > 0, entails(kb, op_goals(op)[0], s0, m), entails(kb, Goal::OperatorGoal(tl), m, s1),
    ensures entails(kb, Goal::OperatorGoal(op), s0, s1);
// a disjunction: its first alternative, or the remaining ones, under the same bindings
pub axiom fn ax_or_first(kb: KnowledgeBase, op: Operator, s0: SS, s1: SS)
    requires op is Or, op_goals(op).len() > 0, entails(kb, op_goals(op)[0], s0, s1),
    ensures entails(kb, Goal::OperatorGoal(op), s0, s1);
pub axiom fn ax_or_rest(kb: KnowledgeBase, op: Operator, tl: Operator, s0: SS, s1: SS)
    requires op is Or, is_tail_of(tl, op), entails(kb, Goal::OperatorGoal(tl), s0, s1),
    ensures entails(kb, Goal::OperatorGoal(op), s0, s1);
// time(G) is G; not(G), when it succeeds, leaves the bindings as they are (simplification: see above)
pub axiom fn ax_time(kb: KnowledgeBase, op: Operator, s0: SS, s1: SS)
    requires op is Time, op_goals(op).len() > 0, entails(kb, op_goals(op)[0], s0, s1),
    ensures entails(kb, Goal::OperatorGoal(op), s0, s1);
pub axiom fn ax_not(kb: KnowledgeBase, op: Operator, s0: SS)
    requires op is Not,
    ensures entails(kb, Goal::OperatorGoal(op), s0, s0);
// built-in predicates: `=` is unification of its two arguments; the cut and the printing predicates leave the bindings as they are;
// the others are the functions they are
pub open spec fn bip_kind_same(b: BuiltInPredicate) -> bool {
    b.functor@ == "!"@ || b.functor@ == "print"@ || b.functor@ == "print_list"@ || b.functor@ == "nl"@
}
pub open spec fn bip_kind_fn(b: BuiltInPredicate) -> bool {
    b.functor@ == "append"@ || b.functor@ == "functor"@ || b.functor@ == "include"@ || b.functor@ == "exclude"@ || b.functor@ == "count"@
    || b.functor@ == "equal"@ || b.functor@ == "less_than"@ || b.functor@ == "less_than_or_equal"@ || b.functor@ == "greater_than"@ || b.functor@ == "greater_than_or_equal"@
}
pub axiom fn ax_bip_same(kb: KnowledgeBase, b: BuiltInPredicate, s0: SS)
    requires bip_kind_same(b),
    ensures entails(kb, Goal::BuiltInGoal(b), s0, s0);
pub axiom fn ax_bip_fn(kb: KnowledgeBase, b: BuiltInPredicate, s0: SS, s1: SS)
    requires bip_kind_fn(b), bip_res(b, s0) == Some(s1),
    ensures entails(kb, Goal::BuiltInGoal(b), s0, s1);
pub axiom fn ax_bip_unify(kb: KnowledgeBase, b: BuiltInPredicate, s0: SS, s1: SS)
    requires b.functor@ == "unify"@, b.terms matches Some(t) && t@.len() >= 2 && unify_res(t@[0], t@[1], s0) == Some(s1),
    ensures entails(kb, Goal::BuiltInGoal(b), s0, s1);

// ---- the invariant: what the links of a node stand for ------------------------------------------------------------------
pub open spec fn op_first(op: Operator) -> Goal { op_goals(op)[0] }
pub open spec fn node_sld(h: Heap, n: int) -> bool {
    let s = h.st[n];
    match s.goal {
        Goal::OperatorGoal(op) => {
            &&& op_goals(op).len() > 0
            &&& (s.head_sn matches Some(hd) ==> alive(h, hd) && h.st[hd].ss == s.ss && h.st[hd].kb == s.kb && h.st[hd].goal == op_first(op))
            &&& ((op is And || op is Or) ==> (s.operator_tail matches Some(tl) && is_tail_of(tl, op)))
            &&& (s.tail_sn matches Some(t) ==> alive(h, t) && h.st[t].kb == s.kb
                    && (s.operator_tail matches Some(tl) && h.st[t].goal == Goal::OperatorGoal(tl))
                    && (op is And ==> entails(s.kb, op_first(op), s.ss@, h.st[t].ss@))
                    && (op is Or ==> h.st[t].ss == s.ss))
        },
        Goal::ComplexGoal(c) => {
            s.child matches Some(ch) ==> alive(h, ch) && h.st[ch].kb == s.kb && clause_step(s.kb, c, s.ss@, h.st[ch].goal, h.st[ch].ss@)
        },
        _ => true,
    }
}
pub open spec fn heap_sld(h: Heap) -> bool {
    forall|n: int| #[trigger] alive(h, n) ==> node_sld(h, n)
}
// what never changes in a node: its goal, bindings, knowledge base, remaining operands
pub open spec fn fixed_part(a: NodeSt, b: NodeSt) -> bool {
    a.goal == b.goal && a.ss == b.ss && a.kb == b.kb && a.operator_tail == b.operator_tail
}
pub open spec fn fixed_same(h1: Heap, h2: Heap) -> bool {
    forall|n: int| #[trigger] alive(h1, n) ==> alive(h2, n) && fixed_part(h1.st[n], h2.st[n])
}
pub open spec fn links_same(a: NodeSt, b: NodeSt) -> bool {
    a.child == b.child && a.head_sn == b.head_sn && a.tail_sn == b.tail_sn
}
pub proof fn lemma_sld_step(h0: Heap, h1: Heap, h2: Heap)
    requires
        fixed_same(h0, h1), heap_sld(h1), fixed_same(h1, h2),
        forall|n: int| #[trigger] alive(h2, n) ==> (alive(h1, n) && links_same(h1.st[n], h2.st[n])) || node_sld(h2, n),
    ensures heap_sld(h2), fixed_same(h0, h2),
{
    assert forall|n: int| #[trigger] alive(h2, n) implies node_sld(h2, n) by {
        if !node_sld(h2, n) { assert(alive(h1, n) && node_sld(h1, n)); }
    }
    assert forall|n: int| #[trigger] alive(h0, n) implies alive(h2, n) && fixed_part(h0.st[n], h2.st[n]) by { assert(alive(h1, n)); }
}

// the answer of a request, as bindings (also fixes the type of a literal `None` in a contract block)
pub open spec fn ans_view<'a>(r: Option<Rc<SubstitutionSet<'a>>>) -> Option<SS> {
    match r { Some(x) => Some(x@), None => None }
}
