// ---------------------------------------------------------------------------
// spec/report.rs -- what solve / solve_all may report (C23, C01): the text of a computed answer
// ---------------------------------------------------------------------------
// TRUSTED(T10): Unifiable::replace_variables is a function of the term and the bindings
pub uninterp spec fn replaced(t: Unifiable, ss: SS) -> Unifiable;

pub open spec fn goal_term(g: Goal) -> Unifiable {
    match g { Goal::ComplexGoal(c) => c, _ => Unifiable::Nil }
}
