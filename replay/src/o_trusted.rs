//! AUDIT of the trusted specifications of std primitives (T2, T3, T6 of DESIGN.md) against the real std of the
//! toolchain that builds the crate.  Nothing here depends on /repo: the audits say whether an *assumption* of the
//! proofs is true of the library the code runs on.  Character-level facts are checked for EVERY char (complete);
//! string-level facts for every string up to a stated length over an alphabet that has every class the
//! specifications distinguish (bounded).  Each case is one assumed specification, named as in spec/*.rs.
use std::cmp::Ordering;
use std::collections::HashMap;

pub fn enum_audits(_s: u64) -> Vec<String> {
    ["chars :: axiom_not_ws axiom_blank_is_ws axiom_space_is_ws axiom_ws_is_not_a_symbol char::is_ascii_digit",
     "trim :: str::trim is_trim_of minimal axiom_trim_idempotent",
     "cmp :: String::cmp axiom_str_cmp_laws String==str axiom_str_ext axiom_string_eq axiom_string_eq_strref axiom_strref_eq_string",
     "strops :: str_is_empty String::len str_skip_first_byte str_starts_with_string str_contains_char str_ends_with_char Chars::last str_to_chars chars_to_string axiom_string_add_assign",
     "hashmap :: axiom_kb_lookup axiom_kb_one_value",
     "floats :: i64_to_f64 axiom_f64_arith_is_a_function axiom_f64_eq_sym axiom_f64_cmp_converse",
     "slices :: to_vec axiom_cloned_char",
    ].iter().map(|s| s.to_string()).collect()
}

fn lnh(ch: char) -> bool {
    ('a' <= ch && ch <= 'z') || ('A' <= ch && ch <= 'Z') || ('0' <= ch && ch <= '9')
    || ch == '_' || ch == '-' || ch == '\u{ad}'
    || ('\u{c0}' <= ch && ch < '\u{2c0}') || ('\u{380}' <= ch && ch < '\u{510}')
}

/// every string over `alpha` of length 0..=n
fn strings(alpha: &[char], n: usize) -> Vec<String> {
    let mut out = vec![String::new()];
    let mut layer = vec![String::new()];
    for _ in 0..n {
        let mut next = vec![];
        for s in &layer { for c in alpha { let mut t = s.clone(); t.push(*c); next.push(t); } }
        out.extend(next.iter().cloned());
        layer = next;
    }
    out
}

pub fn check_audit(case: &str) -> Result<(), String> {
    let name = case.split(" :: ").next().unwrap_or("");
    match name {
        "chars" => {
            let mut n = 0u32;
            for u in 0..=0x10FFFFu32 {
                let c = match char::from_u32(u) { Some(c) => c, None => continue };
                n += 1;
                if c.is_whitespace() {
                    if "\"()[]$.,\\;#@".contains(c) { return Err(format!("white space U+{:04X} is a symbol of the parsers", u)); }
                    if lnh(c) { return Err(format!("white space U+{:04X} is a letter/number/hyphen of the tokenizer", u)); }
                }
                if c.is_ascii_digit() != ('0' <= c && c <= '9') { return Err(format!("is_ascii_digit(U+{:04X})", u)); }
            }
            if n != 0x110000 - 0x800 { return Err(format!("{} chars visited", n)); }
            for c in [' ', '\t', '\n'] { if !c.is_whitespace() { return Err(format!("{:?} is not white space", c)); } }
            Ok(())
        }
        "trim" => {
            // blank, tab, line feed, NBSP (white space, 2 bytes), ideographic space (3 bytes), NEL, a letter, a quote, a 4-byte char
            let alpha = [' ', '\t', '\u{a0}', '\u{3000}', 'a', '"', '\u{1F600}'];
            for s in strings(&alpha, 6) {
                let r = s.trim();
                let sc: Vec<char> = s.chars().collect();
                let rc: Vec<char> = r.chars().collect();
                // is_trim_of: r == s[i..j], white space before i and from j on
                let i = sc.iter().take_while(|c| c.is_whitespace()).count();
                let found = (i..=sc.len()).any(|j| sc[i..j] == rc[..] && sc[j..].iter().all(|c| c.is_whitespace()))
                    || (rc.is_empty() && sc.iter().all(|c| c.is_whitespace()));
                if !found { return Err(format!("{:?}.trim() = {:?} is not the text between its white-space ends", s, r)); }
                if rc.len() > sc.len() { return Err(format!("{:?}.trim() is longer", s)); }
                if !rc.is_empty() && (rc[0].is_whitespace() || rc[rc.len() - 1].is_whitespace()) { return Err(format!("{:?}.trim() = {:?} can be trimmed further", s, r)); }
                if r.trim() != r { return Err(format!("{:?}: trim is not idempotent", s)); }
            }
            Ok(())
        }
        "cmp" => {
            // one-, two-, three- and four-byte characters: byte order on UTF-8 == code-point order
            let alpha = ['a', 'b', 'Z', '\u{e9}', '\u{3b1}', '\u{3000}', '\u{1F600}', ' '];
            let ss = strings(&alpha, 3);
            for a in &ss {
                for b in &ss {
                    let o = a.cmp(b);
                    if (o == Ordering::Equal) != (a.chars().eq(b.chars())) { return Err(format!("cmp({:?}, {:?}) = Equal disagrees with equality of the characters", a, b)); }
                    if (o == Ordering::Less) != (b.cmp(a) == Ordering::Greater) { return Err(format!("cmp({:?}, {:?}) is not antisymmetric", a, b)); }
                    // lexicographic on the code points (what the comparison predicates document)
                    let lex = a.chars().collect::<Vec<char>>().cmp(&b.chars().collect::<Vec<char>>());
                    if o != lex { return Err(format!("cmp({:?}, {:?}) = {:?}, code-point order gives {:?}", a, b, o, lex)); }
                    if (*a == *b.as_str()) != a.chars().eq(b.chars()) { return Err(format!("String == str on {:?}, {:?}", a, b)); }
                    // String == &str and &str == String (spec/std_eq.rs axiom_string_eq_strref, axiom_strref_eq_string)
                    { let bs: &str = b.as_str(); if (*a == bs) != a.chars().eq(b.chars()) || (bs == *a) != a.chars().eq(b.chars()) { return Err(format!("String == &str on {:?}, {:?}", a, b)); } }
                    // `==` on two &String (blanket impl for references; spec/std_eq.rs axiom_string_eq)
                    { let (ra, rb): (&String, &String) = (a, b); if (ra == rb) != a.chars().eq(b.chars()) || ra.eq(rb) != (ra == rb) { return Err(format!("&String == &String on {:?}, {:?}", a, b)); } }
                }
            }
            Ok(())
        }
        "strops" => {
            let alpha = ['a', '.', '\u{e9}', '\u{1F600}', ' '];
            let ss = strings(&alpha, 4);
            for s in &ss {
                let cs: Vec<char> = s.chars().collect();
                if (s.len() == 0) != cs.is_empty() { return Err(format!("len()==0 on {:?}", s)); }
                if (s.as_str().len() == 0) != cs.is_empty() { return Err(format!("str len()==0 on {:?}", s)); }
                if s.chars().last().is_some() != !cs.is_empty() { return Err(format!("Chars::last on {:?}", s)); }
                if !cs.is_empty() && (cs[0] as u32) < 128 {
                    let r = &s[1..];
                    if r.chars().collect::<Vec<char>>() != cs[1..] { return Err(format!("&s[1..] on {:?}", s)); }
                }
                if cs.iter().collect::<String>() != *s { return Err(format!("chars_to_string(str_to_chars({:?}))", s)); }
                // `+=` on a String appends (spec/std_eq.rs axiom_string_add_assign)
                { let mut t = String::from("x\u{e9}"); t += s; t += ", "; let want: String = "x\u{e9}".chars().chain(cs.iter().cloned()).chain(", ".chars()).collect(); if t != want { return Err(format!("String += {:?}", s)); } }
                for c in alpha {
                    if s.contains(c) != cs.contains(&c) { return Err(format!("contains({:?}) on {:?}", c, s)); }
                    if s.ends_with(c) && cs.is_empty() { return Err(format!("ends_with({:?}) on the empty text", c)); }
                    if s.ends_with(c) != (cs.last() == Some(&c)) { return Err(format!("ends_with({:?}) on {:?}", c, s)); }
                }
            }
            let short = strings(&alpha, 2);
            for s in &ss { for p in &short {
                let cs: Vec<char> = s.chars().collect(); let pc: Vec<char> = p.chars().collect();
                let want = pc.len() <= cs.len() && cs[..pc.len()] == pc[..];
                if s.starts_with(p.as_str()) != want { return Err(format!("{:?}.starts_with({:?})", s, p)); }
            } }
            Ok(())
        }
        "hashmap" => {
            // HashMap<String, V>::get / get_mut / contains_key with a &str key find the entry whose key has the same characters,
            // and there is one entry per text
            let alpha = ['a', '/', '1', '\u{e9}'];
            let keys = strings(&alpha, 3);
            let mut m: HashMap<String, Vec<usize>> = HashMap::new();
            for (k, s) in keys.iter().enumerate() { if k % 3 != 0 { m.insert(s.clone(), vec![k]); } }
            for (k, s) in keys.iter().enumerate() {
                let probe: String = s.chars().collect();       // a separately built text
                let got = m.get(probe.as_str());
                if k % 3 != 0 {
                    if got != Some(&vec![k]) { return Err(format!("get({:?}) = {:?}", s, got)); }
                    if !m.contains_key(probe.as_str()) { return Err(format!("contains_key({:?})", s)); }
                } else if got.is_some() || m.contains_key(probe.as_str()) { return Err(format!("get({:?}) finds an entry that was never inserted", s)); }
            }
            for (k, s) in keys.iter().enumerate() { if k % 3 != 0 { if let Some(v) = m.get_mut(s.as_str()) { v.push(k + 1); } } }
            for (k, s) in keys.iter().enumerate() { if k % 3 != 0 && m.get(s.as_str()) != Some(&vec![k, k + 1]) { return Err(format!("get_mut({:?}) wrote somewhere else", s)); } }
            let n = keys.iter().enumerate().filter(|(k, _)| k % 3 != 0).count();
            if m.len() != n { return Err(format!("{} entries for {} distinct texts", m.len(), n)); }
            Ok(())
        }
        "floats" => {
            // deterministic: the same operands give the same bits, twice (through black_box so that nothing is folded)
            let xs = [0.0f64, -0.0, 1.0, -1.5, 1e308, -1e308, 5e-324, f64::INFINITY, f64::NEG_INFINITY, f64::NAN, 0.1, 3.0];
            for a in xs { for b in xs {
                let f = |x: f64, y: f64| { let (x, y) = (std::hint::black_box(x), std::hint::black_box(y)); [(x + y).to_bits(), (x - y).to_bits(), (x * y).to_bits(), (x / y).to_bits()] };
                if f(a, b) != f(a, b) { return Err(format!("arithmetic on {:?}, {:?} is not a function", a, b)); }
                // the partial comparison of (b, a) is the converse of that of (a, b) (spec/std_eq.rs axiom_f64_cmp_converse)
                { let (x, y) = (std::hint::black_box(a), std::hint::black_box(b));
                  if x.partial_cmp(&y) != y.partial_cmp(&x).map(|o| o.reverse()) || (x <= y) != (y >= x) || (x < y) != (y > x) { return Err(format!("comparison of {:?}, {:?} is not the converse of the comparison the other way round", a, b)); } }
                // IEEE equality is symmetric (spec/std_eq.rs axiom_f64_eq_sym)
                if (std::hint::black_box(a) == std::hint::black_box(b)) != (std::hint::black_box(b) == std::hint::black_box(a)) { return Err(format!("{:?} == {:?} is not symmetric", a, b)); }
            } }
            for i in [0i64, 1, -1, i64::MAX, i64::MIN, (1 << 53) + 1, -(1 << 53) - 1, 123456789012345678] {
                let g = |x: i64| (std::hint::black_box(x) as f64).to_bits();
                if g(i) != g(i) { return Err(format!("{} as f64 is not a function", i)); }
            }
            Ok(())
        }
        "slices" => {
            let v: Vec<char> = "aé😀 \"".chars().collect();
            for lo in 0..=v.len() { for hi in lo..=v.len() {
                let w = v[lo..hi].to_vec();
                if w.len() != hi - lo || (0..w.len()).any(|k| w[k] != v[lo + k]) { return Err(format!("to_vec of [{}..{}]", lo, hi)); }
            } }
            Ok(())
        }
        _ => Err(format!("unknown audit {:?}", name)),
    }
}
