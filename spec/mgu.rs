// ---------------------------------------------------------------------------
// spec/mgu.rs -- completeness and most-generality of unification (C06).
//
// A *solution* is a ghost assignment `th` of a value tree (GT) to every variable id.  `ap(th, t)` is
// the value of term t under th (structural recursion on the real Unifiable; a tail-variable node
// stands for the value of its variable, the empty node for the empty list).  `solves(th, s)` says th
// respects every binding of the substitution s.  The clause proved about unify is
//
//     for every th that solves ss and gives self and other the same value:
//         unify succeeds, and th solves the resulting substitution
//
// i.e. unify succeeds whenever a unifier extending the prior bindings exists (completeness) and
// every such unifier is an instance of the result (the result binds no more than an MGU does).
// Value trees are finite, so pairs that would need an occurs check have no solution and the clause
// says nothing about them - exactly the statement's exclusion.
// ---------------------------------------------------------------------------

pub enum GT {
    GAtom(Seq<char>),
    GInt(i64),
    GFloat(f64),
    GFree(int),                 // an uninstantiated variable of the instance
    GCx(Seq<GT>),
    GNil,                       // the empty list
    GCons(Box<GT>, Box<GT>),
    GFn(Seq<char>, Seq<GT>),    // a function term that has not been evaluated: its name and the values of its arguments
    GBad,
}

pub type Theta = spec_fn(int) -> GT;

// The value of a float is its class under IEEE `==` (0.0 and -0.0 are one value; NaN, which is not equal to
// itself, has no value the clause talks about).  TRUSTED(T6): IEEE-754 `==` is an equivalence relation on the
// floats that are equal to themselves; `fcanon` names a representative of each class.
pub uninterp spec fn fcanon(f: f64) -> f64;
pub axiom fn axiom_f64_eq_is_an_equivalence()
    ensures forall|a: f64, b: f64| #[trigger] feq(a, b) <==> (feq(a, a) && feq(b, b) && fcanon(a) == fcanon(b));

pub open spec fn ap(th: Theta, t: Unifiable) -> GT
    decreases t,
{
    match t {
        Unifiable::Atom(s) => GT::GAtom(s@),
        Unifiable::SInteger(i) => GT::GInt(i),
        Unifiable::SFloat(f) => GT::GFloat(fcanon(f)),
        Unifiable::LogicVar{id, name} => th(id as int),
        Unifiable::SComplex(ts) => GT::GCx(ap_seq(th, ts@)),
        Unifiable::SLinkedList{term, next, count, tail_var} =>
            if tail_var { ap(th, *term) }
            else if *term == Unifiable::Nil { GT::GNil }
            else { GT::GCons(Box::new(ap(th, *term)), Box::new(ap(th, *next))) },
        Unifiable::SFunction{name, terms} => GT::GFn(name@, ap_seq(th, terms@)),
        _ => GT::GBad,
    }
}

pub open spec fn ap_seq(th: Theta, s: Seq<Unifiable>) -> Seq<GT>
    decreases s,
{
    if s.len() == 0 { Seq::empty() } else { seq![ap(th, s[0])] + ap_seq(th, s.drop_first()) }
}

pub proof fn lemma_ap_seq_index(th: Theta, s: Seq<Unifiable>, k: int)
    requires 0 <= k < s.len(),
    ensures ap_seq(th, s).len() == s.len(), ap_seq(th, s)[k] == ap(th, s[k]),
    decreases s.len(),
{
    lemma_ap_seq_len(th, s.drop_first());
    if k > 0 { lemma_ap_seq_index(th, s.drop_first(), k - 1); }
}

pub proof fn lemma_ap_seq_len(th: Theta, s: Seq<Unifiable>)
    ensures ap_seq(th, s).len() == s.len(),
    decreases s.len(),
{
    if s.len() > 0 { lemma_ap_seq_len(th, s.drop_first()); }
}

// th respects every binding of s
pub open spec fn solves(th: Theta, s: SS) -> bool {
    forall|i: int| 0 <= i < s.len() ==> ((#[trigger] s[i]) matches Some(r) ==> th(i) == ap(th, *r))
}

// --- the terms the clause is about ---------------------------------------------------------
// no `$_` (C09 covers it), no function term (C13), no bare Nil, no NaN (a float that is not equal to
// itself), and a list is never entered at a tail-variable node
pub open spec fn f_refl(f: f64) -> bool { feq(f, f) }

pub open spec fn clean(t: Unifiable) -> bool
    decreases t, 1nat,
{
    match t {
        Unifiable::Atom(s) => true,
        Unifiable::SInteger(i) => true,
        Unifiable::SFloat(f) => f_refl(f),
        Unifiable::LogicVar{id, name} => true,
        Unifiable::SComplex(ts) => clean_seq(ts@),
        Unifiable::SLinkedList{term, next, count, tail_var} => !tail_var && clean_nodes(t),
        _ => false,
    }
}

pub open spec fn clean_nodes(t: Unifiable) -> bool
    decreases t, 0nat,
{
    match t {
        Unifiable::SLinkedList{term, next, count, tail_var} =>
            if tail_var { *term is LogicVar }
            else if *term == Unifiable::Nil { true }
            else { clean(*term) && clean_nodes(*next) },
        _ => false,
    }
}

pub open spec fn clean_seq(s: Seq<Unifiable>) -> bool
    decreases s, 0nat,
{
    s.len() == 0 || (clean(s[0]) && clean_seq(s.drop_first()))
}

pub proof fn lemma_clean_seq_index(s: Seq<Unifiable>, k: int)
    requires clean_seq(s), 0 <= k < s.len(),
    ensures clean(s[k]),
    decreases s.len(),
{
    if k > 0 { lemma_clean_seq_index(s.drop_first(), k - 1); }
}

pub open spec fn clean_ss(s: SS) -> bool {
    forall|i: int| 0 <= i < s.len() ==> ((#[trigger] s[i]) matches Some(r) ==> clean(*r))
}

pub open spec fn mgu_dom(a: Unifiable, b: Unifiable, s: SS) -> bool {
    clean(a) && clean(b) && clean_ss(s)
}

// --- the clauses ------------------------------------------------------------------------------
// the result is again a substitution the clauses apply to
pub open spec fn post_clean(a: Unifiable, b: Unifiable, ss: RSS, res: Option<RSS>) -> bool {
    mgu_dom(a, b, ss@) ==> (res matches Some(r) ==> clean_ss(r@))
}
// complete and most general
pub open spec fn post_mgu(a: Unifiable, b: Unifiable, ss: RSS, res: Option<RSS>) -> bool {
    mgu_dom(a, b, ss@) ==>
        forall|th: Theta| #[trigger] solves(th, ss@) && ap(th, a) == ap(th, b) ==> (res matches Some(r) && solves(th, r@))
}
// sound, in the same formalism: every solution of the result gives the two terms the same value
pub open spec fn post_thsound(a: Unifiable, b: Unifiable, ss: RSS, res: Option<RSS>) -> bool {
    mgu_dom(a, b, ss@) ==> (res matches Some(r) ==> forall|th: Theta| #[trigger] solves(th, r@) ==> ap(th, a) == ap(th, b))
}

// --- binding a variable -----------------------------------------------------------------------
pub proof fn lemma_bind_solves(th: Theta, s2: SS, s: SS, x: int, t: Unifiable)
    requires is_bind(s2, s, x, t), solves(th, s), th(x) == ap(th, t),
    ensures solves(th, s2),
{
    assert forall|i: int| 0 <= i < s2.len() implies ((#[trigger] s2[i]) matches Some(r) ==> th(i) == ap(th, *r)) by {
        if i == x {
            assert(bnd(s2, x) == Some(t));
        } else {
            assert(bnd(s2, i) == bnd(s, i));
            if i < s.len() { assert(s2[i] == s[i]); }
        }
    }
}

pub proof fn lemma_bind_clean(s2: SS, s: SS, x: int, t: Unifiable)
    requires is_bind(s2, s, x, t), clean_ss(s), clean(t),
    ensures clean_ss(s2),
{
    assert forall|i: int| 0 <= i < s2.len() implies ((#[trigger] s2[i]) matches Some(r) ==> clean(*r)) by {
        if i == x {
            assert(bnd(s2, x) == Some(t));
        } else {
            assert(bnd(s2, i) == bnd(s, i));
            if i < s.len() { assert(s2[i] == s[i]); }
        }
    }
}

// every solution of a binding set solves what the set extends
pub proof fn lemma_solves_bound(th: Theta, s: SS, i: int, u: Unifiable)
    requires solves(th, s), bnd(s, i) == Some(u),
    ensures th(i) == ap(th, u),
{
    assert(0 <= i < s.len());
    assert(s[i] is Some);
}

// equal values of two complex terms: same arity, equal values position by position
pub proof fn lemma_ap_complex(th: Theta, p: Seq<Unifiable>, q: Seq<Unifiable>)
    requires ap_seq(th, p) == ap_seq(th, q),
    ensures p.len() == q.len(), forall|k: int| 0 <= k < p.len() ==> ap(th, #[trigger] p[k]) == ap(th, q[k]),
{
    lemma_ap_seq_len(th, p);
    lemma_ap_seq_len(th, q);
    assert forall|k: int| 0 <= k < p.len() implies ap(th, #[trigger] p[k]) == ap(th, q[k]) by {
        lemma_ap_seq_index(th, p, k);
        lemma_ap_seq_index(th, q, k);
    }
}

// --- the clause has teeth (checked on every run; a contract that could not fail would pass these too easily:
//     each lemma derives a concrete consequence from post_mgu alone) -------------------------------------
// completeness instance: an atom against an unbound variable must succeed
pub proof fn smoke_mgu_complete(a: Unifiable, b: Unifiable, ss: RSS, res: Option<RSS>)
    requires post_mgu(a, b, ss, res), a is Atom, b is LogicVar, ss@.len() == 0,
    ensures res is Some,
{
    let v = ap(|i: int| GT::GBad, a);
    let th: Theta = |i: int| v;
    assert(solves(th, ss@));
    assert(ap(th, a) == ap(th, b));
}
// generality instance: unifying two unbound variables must not bind either of them to an atom
pub proof fn smoke_mgu_general(a: Unifiable, b: Unifiable, ss: RSS, res: Option<RSS>)
    requires post_mgu(a, b, ss, res), a is LogicVar, b is LogicVar, ss@.len() == 0,
             res is Some, 0 <= a->LogicVar_id < res.unwrap()@.len(),
    ensures !(bnd(res.unwrap()@, a->LogicVar_id as int) matches Some(t) && t is Atom),
{
    let th: Theta = |i: int| GT::GFree(0);
    assert(solves(th, ss@));
    assert(ap(th, a) == ap(th, b));
    let r = res.unwrap();
    assert(solves(th, r@));
    if bnd(r@, a->LogicVar_id as int) matches Some(t) && t is Atom {
        assert(r@[a->LogicVar_id as int] is Some);
    }
}

// --- solutions of an extension solve what it extends -------------------------------------------------
pub proof fn lemma_solves_mono(th: Theta, s2: SS, s1: SS)
    requires extends(s2, s1), solves(th, s2),
    ensures solves(th, s1),
{
    assert forall|i: int| 0 <= i < s1.len() implies ((#[trigger] s1[i]) matches Some(r) ==> th(i) == ap(th, *r)) by {
        if s1[i] is Some { assert(s2[i] == s1[i]); }
    }
}
pub proof fn lemma_solves_mono_all(s1: SS)
    ensures forall|s2: SS, th: Theta| #[trigger] extends(s2, s1) && #[trigger] solves(th, s2) ==> solves(th, s1),
{
    assert forall|s2: SS, th: Theta| #[trigger] extends(s2, s1) && #[trigger] solves(th, s2) implies solves(th, s1) by {
        lemma_solves_mono(th, s2, s1);
    }
}

// equal terms have equal values (variable names are not part of the value; floats by class)
pub proof fn lemma_ueq_ap(th: Theta, a: Unifiable, b: Unifiable)
    requires ueq(a, b),
    ensures ap(th, a) == ap(th, b),
    decreases a,
{
    axiom_f64_eq_is_an_equivalence();
    reveal_with_fuel(ueq, 2);
    match (a, b) {
        (Unifiable::SComplex(p), Unifiable::SComplex(q)) => { lemma_ueq_ap_seq(th, p@, q@); },
        (Unifiable::SLinkedList{term: t1, next: n1, count: _, tail_var: tv1},
         Unifiable::SLinkedList{term: t2, next: n2, count: _, tail_var: tv2}) => {
            lemma_ueq_ap(th, *t1, *t2);
            lemma_ueq_ap(th, *n1, *n2);
            assert((*t1 == Unifiable::Nil) == (*t2 == Unifiable::Nil));
        },
        (Unifiable::SFunction{name: f1, terms: p}, Unifiable::SFunction{name: f2, terms: q}) => { lemma_ueq_ap_seq(th, p@, q@); },
        _ => {},
    }
}
pub proof fn lemma_ueq_ap_seq(th: Theta, a: Seq<Unifiable>, b: Seq<Unifiable>)
    requires ueq_seq(a, b),
    ensures ap_seq(th, a) == ap_seq(th, b),
    decreases a,
{
    if a.len() > 0 {
        lemma_ueq_ap(th, a[0], b[0]);
        lemma_ueq_ap_seq(th, a.drop_first(), b.drop_first());
    }
}
pub proof fn lemma_ueq_ap_all(a: Unifiable, b: Unifiable)
    ensures ueq(a, b) ==> forall|th: Theta| #[trigger] ap(th, a) == ap(th, b),
{
    if ueq(a, b) { assert forall|th: Theta| #[trigger] ap(th, a) == ap(th, b) by { lemma_ueq_ap(th, a, b); } }
}

// complex terms with pointwise equal values have equal values
pub proof fn lemma_ap_seq_ext(th: Theta, p: Seq<Unifiable>, q: Seq<Unifiable>)
    requires p.len() == q.len(), forall|k: int| 0 <= k < p.len() ==> ap(th, #[trigger] p[k]) == ap(th, q[k]),
    ensures ap_seq(th, p) == ap_seq(th, q),
    decreases p.len(),
{
    if p.len() > 0 {
        assert(ap(th, p[0]) == ap(th, q[0]));
        assert forall|k: int| 0 <= k < p.drop_first().len() implies ap(th, #[trigger] p.drop_first()[k]) == ap(th, q.drop_first()[k]) by {
            assert(p.drop_first()[k] == p[k + 1]);
            assert(q.drop_first()[k] == q[k + 1]);
        }
        lemma_ap_seq_ext(th, p.drop_first(), q.drop_first());
    }
}

// ---------------------------------------------------------------------------
// C07 (symmetry) as a lemma over the contract of unify: `r1` is any result the contract allows for
// unify(a, b, ss) and `r2` any result it allows for unify(b, a, ss).
//   * if some unifier of a and b respects ss, both calls succeed;
//   * if one call succeeds with a result that has a solution at all (no occurs-check situation),
//     the other succeeds too;
//   * when both succeed the two results have exactly the same solutions - every variable gets the
//     same value under every instance of either result, which is what "equal up to renaming of unbound
//     variables" means for two most general unifiers.
// ---------------------------------------------------------------------------
pub open spec fn same_solutions(r1: SS, r2: SS) -> bool {
    forall|th: Theta| #[trigger] solves(th, r1) <==> #[trigger] solves(th, r2)
}

pub proof fn lemma_unify_symmetric(a: Unifiable, b: Unifiable, ss: RSS, res1: Option<RSS>, res2: Option<RSS>)
    requires
        mgu_dom(a, b, ss@),
        post_keeps(ss, res1), post_mgu(a, b, ss, res1), post_thsound(a, b, ss, res1),
        post_keeps(ss, res2), post_mgu(b, a, ss, res2), post_thsound(b, a, ss, res2),
    ensures
        (exists|th: Theta| #[trigger] solves(th, ss@) && ap(th, a) == ap(th, b)) ==> res1 is Some && res2 is Some,
        (res1 matches Some(r1) && exists|th: Theta| #[trigger] solves(th, r1@)) ==> res2 is Some,
        (res2 matches Some(r2) && exists|th: Theta| #[trigger] solves(th, r2@)) ==> res1 is Some,
        (res1 matches Some(r1) && res2 matches Some(r2)) ==> same_solutions(res1.unwrap()@, res2.unwrap()@),
{
    if exists|th: Theta| #[trigger] solves(th, ss@) && ap(th, a) == ap(th, b) {
        let th = choose|th: Theta| #[trigger] solves(th, ss@) && ap(th, a) == ap(th, b);
        assert(solves(th, ss@) && ap(th, b) == ap(th, a));
    }
    if res1 is Some {
        let r1 = res1.unwrap();
        if exists|th: Theta| #[trigger] solves(th, r1@) {
            let th = choose|th: Theta| #[trigger] solves(th, r1@);
            lemma_solves_mono(th, r1@, ss@);
            assert(solves(th, ss@) && ap(th, b) == ap(th, a));
        }
    }
    if res2 is Some {
        let r2 = res2.unwrap();
        if exists|th: Theta| #[trigger] solves(th, r2@) {
            let th = choose|th: Theta| #[trigger] solves(th, r2@);
            lemma_solves_mono(th, r2@, ss@);
            assert(solves(th, ss@) && ap(th, a) == ap(th, b));
        }
    }
    if res1 is Some && res2 is Some {
        let r1 = res1.unwrap();
        let r2 = res2.unwrap();
        assert forall|th: Theta| #[trigger] solves(th, r1@) implies #[trigger] solves(th, r2@) by {
            lemma_solves_mono(th, r1@, ss@);
            assert(solves(th, ss@) && ap(th, b) == ap(th, a));
        }
        assert forall|th: Theta| #[trigger] solves(th, r2@) implies #[trigger] solves(th, r1@) by {
            lemma_solves_mono(th, r2@, ss@);
            assert(solves(th, ss@) && ap(th, a) == ap(th, b));
        }
    }
}

// soundness instance: "success" of a variable against an atom without any binding is refused by #th_sound
pub proof fn smoke_thsound(a: Unifiable, b: Unifiable, ss: RSS, res: Option<RSS>)
    requires post_thsound(a, b, ss, res), a is LogicVar, b is Atom, ss@.len() == 0, res is Some,
    ensures exists|i: int| 0 <= i < res.unwrap()@.len() && #[trigger] res.unwrap()@[i] is Some,
{
    let r = res.unwrap();
    if forall|i: int| 0 <= i < r@.len() ==> !(#[trigger] r@[i] is Some) {
        let th: Theta = |i: int| GT::GFree(0);
        assert(solves(th, r@));
        assert(ap(th, a) == ap(th, b));
        assert(false);
    }
}
