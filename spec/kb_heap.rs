// ---------------------------------------------------------------------------
// spec/kb_heap.rs -- heap-level part (after spec/kb_heap_keys.rs)
// ---------------------------------------------------------------------------
pub open spec fn node_kb_ok(n: NodeSt) -> bool {
    n.goal matches Goal::ComplexGoal(c) ==> (c is SComplex ==> kb_has(n.kb, key_of(c), n.number_facts_rules))
}
pub open spec fn heap_kb(h: Heap) -> bool {
    forall|n: int| #[trigger] alive(h, n) ==> node_kb_ok(h.st[n])
}
pub open spec fn same_kb_part(a: NodeSt, b: NodeSt) -> bool {
    a.goal == b.goal && a.kb == b.kb && a.number_facts_rules == b.number_facts_rules
}
pub proof fn lemma_kb_step(h1: Heap, h2: Heap)
    requires
        heap_kb(h1),
        forall|n: int| #[trigger] alive(h2, n) ==> (alive(h1, n) && same_kb_part(h1.st[n], h2.st[n])) || node_kb_ok(h2.st[n]),
    ensures heap_kb(h2),
{
}
