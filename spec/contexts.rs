// ---------------------------------------------------------------------------
// spec/contexts.rs -- C20: "a term's meaning does not depend on where it is written".
//
// The meaning of a text written on its own is what parse_term returns for it.  `alone` names that value; that
// parse_term IS a function of its text (no global state, no interior mutability) is the assumption T10, made
// where parse_term is a callee (units contexts_b); in unit contexts_a parse_term's body is proved to compute
// `meaning_ok`: trim, look for an arithmetic infix, otherwise classify the characters (flags_of) and hand the
// text to make_term.  The other contexts are then contracts of the functions that cut a text into pieces:
// a list element, an infix operand: the piece, trimmed, is handed to parse_term (proved);
// an argument (of a complex term, a built-in, a query): parse_arguments classifies the characters ITSELF and
// hands the piece to make_term - the obligations #argument_not_infix / #argument_as_alone at its two call
// sites say that this is the meaning of the piece on its own.  They are NOT provable on the current tree,
// and not true (known findings, DESIGN 8.33).
// ---------------------------------------------------------------------------

pub struct Flags { pub hd: bool, pub hnd: bool, pub hp: bool }

pub open spec fn mk_flags(hd: bool, hnd: bool, hp: bool) -> Flags { Flags { hd: hd, hnd: hnd, hp: hp } }

pub open spec fn is_digit_char(c: char) -> bool { '0' <= c && c <= '9' }

// the classification parse_term makes of a text: some digit / some period / some other character
pub open spec fn flags_of(s: Seq<char>) -> Flags {
    Flags {
        hd: exists|k: int| 0 <= k < s.len() && is_digit_char(#[trigger] s[k]),
        hp: exists|k: int| 0 <= k < s.len() && #[trigger] s[k] == '.',
        hnd: exists|k: int| 0 <= k < s.len() && !is_digit_char(#[trigger] s[k]) && s[k] != '.',
    }
}
pub open spec fn flags_upto(s: Seq<char>, n: int) -> Flags { flags_of(s.subrange(0, n)) }

// the two-character text `\c` stands for `c`
pub open spec fn unescape2(s: Seq<char>) -> Seq<char> {
    if s.len() == 2 && s[0] == '\\' { s.subrange(1, 2) } else { s }
}

// T10 (assumed where the function is a callee): these parsers are functions of their arguments
pub uninterp spec fn alone(text: Seq<char>) -> Result<Unifiable, String>;                       // parse_term
pub uninterp spec fn mk(text: Seq<char>, f: Flags) -> Result<Unifiable, String>;                // make_term
pub uninterp spec fn arith_infix(text: Seq<char>) -> (Infix, usize);                            // check_arithmetic_infix
pub uninterp spec fn operands(text: Seq<char>, index: usize, size: usize) -> Result<(Unifiable, Unifiable), String>;  // get_left_and_right

pub open spec fn is_arith(i: Infix) -> bool {
    i == Infix::Plus || i == Infix::Minus || i == Infix::Multiply || i == Infix::Divide
}
pub open spec fn arith_name(i: Infix) -> Seq<char> {
    match i {
        Infix::Plus => "add"@,
        Infix::Minus => "subtract"@,
        Infix::Multiply => "multiply"@,
        _ => "divide"@,
    }
}

// what parse_term returns for the text p
pub open spec fn meaning_ok(p: Seq<char>, r: Result<Unifiable, String>) -> bool {
    let s = trimmed(p);
    let ix = arith_infix(s);
    if is_arith(ix.0) {
        match operands(s, ix.1, 1) {
            Err(e) => r == Err::<Unifiable, String>(e),
            Ok(lr) => r matches Ok(Unifiable::SFunction{name, terms}) && name@ == arith_name(ix.0) && terms@ == seq![lr.0, lr.1],
        }
    } else {
        r == mk(unescape2(s), flags_of(s))
    }
}

// the same parse: both fail, or both give the same term
pub open spec fn same_parse(a: Result<Unifiable, String>, b: Result<Unifiable, String>) -> bool {
    match (a, b) {
        (Ok(x), Ok(y)) => x == y,
        (Err(_), Err(_)) => true,
        _ => false,
    }
}

// a list element / an operand / an argument cut out of `src` at [lo, hi): the term is the meaning of that piece, trimmed, on its own
pub open spec fn piece_alone(src: Seq<char>, lo: int, hi: int, t: Unifiable) -> bool {
    0 <= lo <= hi <= src.len() && Ok::<Unifiable, String>(t) == alone(trimmed(src.subrange(lo, hi)))
}

// every term of a sequence is the meaning of some piece of `src`
pub open spec fn has_piece(src: Seq<char>, t: Unifiable) -> bool {
    exists|lo: int, hi: int| #[trigger] piece_alone(src, lo, hi, t)
}
pub open spec fn pieces_ok(src: Seq<char>, es: Seq<Unifiable>) -> bool {
    forall|k: int| 0 <= k < es.len() ==> has_piece(src, #[trigger] es[k])
}
pub proof fn lemma_pieces_front(src: Seq<char>, lo: int, hi: int, t: Unifiable, es: Seq<Unifiable>)
    requires pieces_ok(src, es), piece_alone(src, lo, hi, t),
    ensures pieces_ok(src, seq![t] + es),
{
    let n = seq![t] + es;
    assert forall|k: int| 0 <= k < n.len() implies has_piece(src, #[trigger] n[k]) by {
        if k == 0 { assert(n[0] == t); assert(piece_alone(src, lo, hi, n[0])); }
        else { assert(n[k] == es[k - 1]); assert(has_piece(src, es[k - 1])); }
    }
}
// the text between the brackets of a list
pub open spec fn inner_text(p: Seq<char>) -> Seq<char> {
    let s = trimmed(p);
    s.subrange(1, s.len() - 1)
}

pub proof fn lemma_flags_step(s: Seq<char>, n: int)
    requires 0 <= n < s.len(),
    ensures
        flags_upto(s, n + 1).hd == (flags_upto(s, n).hd || is_digit_char(s[n])),
        flags_upto(s, n + 1).hp == (flags_upto(s, n).hp || s[n] == '.'),
        flags_upto(s, n + 1).hnd == (flags_upto(s, n).hnd || (!is_digit_char(s[n]) && s[n] != '.')),
{
    let a = s.subrange(0, n);
    let b = s.subrange(0, n + 1);
    assert(b[n] == s[n]);
    assert forall|k: int| 0 <= k < n implies a[k] == b[k] by {};
    if flags_of(a).hd { let k = choose|k: int| 0 <= k < a.len() && is_digit_char(#[trigger] a[k]); assert(is_digit_char(b[k])); }
    if flags_of(a).hp { let k = choose|k: int| 0 <= k < a.len() && #[trigger] a[k] == '.'; assert(b[k] == '.'); }
    if flags_of(a).hnd { let k = choose|k: int| 0 <= k < a.len() && !is_digit_char(#[trigger] a[k]) && a[k] != '.'; assert(!is_digit_char(b[k]) && b[k] != '.'); }
    if flags_of(b).hd && !is_digit_char(s[n]) { let k = choose|k: int| 0 <= k < b.len() && is_digit_char(#[trigger] b[k]); assert(k < n); assert(is_digit_char(a[k])); }
    if flags_of(b).hp && s[n] != '.' { let k = choose|k: int| 0 <= k < b.len() && #[trigger] b[k] == '.'; assert(k < n); assert(a[k] == '.'); }
    if flags_of(b).hnd && !(!is_digit_char(s[n]) && s[n] != '.') {
        let k = choose|k: int| 0 <= k < b.len() && !is_digit_char(#[trigger] b[k]) && b[k] != '.';
        assert(k < n); assert(!is_digit_char(a[k]) && a[k] != '.');
    }
}

// ---- the fragment of the argument contexts in which C20 holds, under proof -------------------------------------
// a character that the argument scan of parse_arguments treats like parse_term does: no sign, no blank or other white
// space, no bracket, quotation mark, comma or backslash
pub open spec fn simple_char(c: char) -> bool {
    c > ' ' && !is_ws(c) && c != '"' && c != '[' && c != ']' && c != '(' && c != ')' && c != ',' && c != '+' && c != '-' && c != '\\'
}
pub open spec fn all_simple(s: Seq<char>, lo: int, hi: int) -> bool {
    forall|k: int| lo <= k < hi ==> simple_char(#[trigger] s[k])
}
pub open spec fn is_sign_char(c: char) -> bool { c == '+' || c == '-' || c == '*' || c == '/' }

// T10, continued: arith_infix is the graph of check_arithmetic_infix, a total function (C18) whose body is proved to
// return, when it reports an arithmetic infix, the position of a sign with a blank after it (clause #infix_is_a_sign,
// unit contexts_c); so that holds of arith_infix at every text
pub axiom fn axiom_arith_infix_is_a_sign(s: Seq<char>)
    ensures is_arith(arith_infix(s).0) ==> arith_infix(s).1 + 1 < s.len() && is_sign_char(s[arith_infix(s).1 as int]) && s[arith_infix(s).1 + 1] == ' ';

pub proof fn lemma_flags_push(s: Seq<char>, c: char)
    ensures
        flags_of(s.push(c)).hd == (flags_of(s).hd || is_digit_char(c)),
        flags_of(s.push(c)).hp == (flags_of(s).hp || c == '.'),
        flags_of(s.push(c)).hnd == (flags_of(s).hnd || (!is_digit_char(c) && c != '.')),
{
    let t = s.push(c);
    assert(t.subrange(0, s.len() as int) =~= s);
    assert(t.subrange(0, t.len() as int) =~= t);
    lemma_flags_step(t, s.len() as int);
}

// a text without white space is its own trim
pub proof fn lemma_trim_nothing(s: Seq<char>)
    requires forall|k: int| 0 <= k < s.len() ==> !is_ws(#[trigger] s[k]), is_trim_of(trimmed(s), s),
    ensures trimmed(s) == s,
{
    let r = trimmed(s);
    let (i, j) = choose|i: int, j: int| trim_at(r, s, i, j);
    assert(trim_at(r, s, i, j));
    if i > 0 { assert(is_ws(s[0])); }
    if j < s.len() { assert(is_ws(s[s.len() - 1])); }
    assert(s.subrange(0, s.len() as int) =~= s);
}

// a simple piece written as an argument: no infix on its own, nothing to unescape, nothing to trim
pub proof fn lemma_simple_piece(src: Seq<char>, lo: int, hi: int)
    requires 0 <= lo <= hi <= src.len(), all_simple(src, lo, hi), is_trim_of(trimmed(src.subrange(lo, hi)), src.subrange(lo, hi)),
    ensures
        trimmed(src.subrange(lo, hi)) == src.subrange(lo, hi),
        unescape2(src.subrange(lo, hi)) == src.subrange(lo, hi),
        !is_arith(arith_infix(src.subrange(lo, hi)).0),
{
    let p = src.subrange(lo, hi);
    assert forall|k: int| 0 <= k < p.len() implies !is_ws(#[trigger] p[k]) by { assert(simple_char(src[lo + k])); }
    lemma_trim_nothing(p);
    if p.len() == 2 { assert(simple_char(src[lo])); assert(p[0] == src[lo]); }
    axiom_arith_infix_is_a_sign(p);
    if is_arith(arith_infix(p).0) {
        let x = arith_infix(p).1 as int;
        assert(simple_char(src[lo + x + 1]));
        assert(p[x + 1] == src[lo + x + 1]);
    }
}

// ---- the same fragment with blanks around the argument (`f(a, b)`: the second argument is " b") -----------------------------
pub open spec fn all_blank(s: Seq<char>, lo: int, hi: int) -> bool { forall|k: int| lo <= k < hi ==> #[trigger] s[k] == ' ' }
// [lo, a) blanks, [a, b) simple characters, [b, hi) blanks
pub open spec fn blank_simple_blank(s: Seq<char>, lo: int, a: int, b: int, hi: int) -> bool {
    lo <= a <= b <= hi && all_blank(s, lo, a) && all_simple(s, a, b) && all_blank(s, b, hi)
}
// such a piece trims to its core
pub proof fn lemma_trim_core(s: Seq<char>, lo: int, a: int, b: int, hi: int, r: Seq<char>)
    requires
        0 <= lo, hi <= s.len(), blank_simple_blank(s, lo, a, b, hi),
        is_trim_of(r, s.subrange(lo, hi)),
        r.len() > 0 ==> !is_ws(r[0]) && !is_ws(r[r.len() - 1]),
    ensures r == s.subrange(a, b),
{
    axiom_blank_is_ws();
    let p = s.subrange(lo, hi);
    let (i, j) = choose|i: int, j: int| trim_at(r, p, i, j);
    assert(trim_at(r, p, i, j));
    if a == b {
        // nothing but blanks: a non-empty result would begin with one
        if r.len() > 0 { assert(r[0] == p[i]); assert(p[i] == s[lo + i]); assert(s[lo + i] == ' '); }
        assert(r =~= s.subrange(a, b));
    } else {
        assert(simple_char(s[a]) && simple_char(s[b - 1]));
        // the first character of the core is not trimmed away, and nothing before it is kept
        if i > a - lo { assert(is_ws(p[a - lo])); assert(p[a - lo] == s[a]); }
        if j < b - lo { assert(is_ws(p[b - 1 - lo])); assert(p[b - 1 - lo] == s[b - 1]); }
        assert(r.len() > 0);
        if i < a - lo { assert(r[0] == p[i]); assert(p[i] == s[lo + i]); assert(s[lo + i] == ' '); }
        if j > b - lo { assert(r[r.len() - 1] == p[j - 1]); assert(p[j - 1] == s[lo + j - 1]); assert(s[lo + j - 1] == ' '); }
        assert(r =~= s.subrange(a, b));
    }
}

// a core of simple characters: no infix on its own, nothing to unescape
pub proof fn lemma_simple_core(src: Seq<char>, lo: int, hi: int)
    requires 0 <= lo <= hi <= src.len(), all_simple(src, lo, hi),
    ensures
        unescape2(src.subrange(lo, hi)) == src.subrange(lo, hi),
        !is_arith(arith_infix(src.subrange(lo, hi)).0),
{
    let p = src.subrange(lo, hi);
    if p.len() == 2 { assert(simple_char(src[lo])); assert(p[0] == src[lo]); }
    axiom_arith_infix_is_a_sign(p);
    if is_arith(arith_infix(p).0) {
        let x = arith_infix(p).1 as int;
        assert(simple_char(src[lo + x + 1]));
        assert(p[x + 1] == src[lo + x + 1]);
    }
}

// ---- infix comparison and `=`: what a subgoal written with an infix means (C14, C06, C13 at the surface) ------------------------
pub uninterp spec fn cmp_infix(text: Seq<char>) -> (Infix, usize);                             // check_infix (T10)
pub open spec fn is_cmp(i: Infix) -> bool {
    i == Infix::Unify || i == Infix::Equal || i == Infix::LessThan || i == Infix::LessThanOrEqual || i == Infix::GreaterThan || i == Infix::GreaterThanOrEqual
}
pub open spec fn cmp_name(i: Infix) -> Seq<char> {
    match i {
        Infix::Unify => "unify"@,
        Infix::Equal => "equal"@,
        Infix::LessThan => "less_than"@,
        Infix::LessThanOrEqual => "less_than_or_equal"@,
        Infix::GreaterThan => "greater_than"@,
        _ => "greater_than_or_equal"@,
    }
}
// the built-in predicates that take arguments
pub open spec fn arg_builtin(f: Seq<char>) -> bool {
    f == "print"@ || f == "append"@ || f == "functor"@ || f == "include"@ || f == "exclude"@ || f == "print_list"@ || f == "unify"@ || f == "equal"@
    || f == "less_than"@ || f == "less_than_or_equal"@ || f == "greater_than"@ || f == "greater_than_or_equal"@ || f == "count"@
}
// what parse_subgoal returns for a text with a comparison infix: the built-in predicate of that name on the two operands, each parsed on its own
pub open spec fn infix_goal_ok(p: Seq<char>, r: Result<Goal, String>) -> bool {
    let s = trimmed(p);
    let ix = cmp_infix(s);
    (s.len() > 0 && s != "!"@ && s != "fail"@ && s != "nl"@ && is_cmp(ix.0)) ==> match operands(s, ix.1, 2) {
        Err(e) => r == Err::<Goal, String>(e),
        Ok(lr) => r matches Ok(Goal::BuiltInGoal(b)) && b.functor@ == cmp_name(ix.0) && (b.terms matches Some(t) && t@ == seq![lr.0, lr.1]),
    }
}
