use suiron::*;
fn stub_random_state() -> std::hash::RandomState {
    unsafe { std::mem::transmute::<(u64, u64), std::hash::RandomState>((0u64, 0u64)) }
}

// ---- C02: the unsafe walk of SolutionNode::set_no_backtracking() ---------------------------------------------------
// NOT REGISTERED (feature `cutwalk`): one concrete shape needs more than 15 min / 9 GB in CBMC (seven Rc<RefCell<SolutionNode>>
// values with their borrow flags and drop glue); the same specification is checked on the real function by the replay oracle
// c02_walk instead (329 shapes, enumerated).  Kept for the record.
// BOUNDED: parent chains of up to 3 real nodes.  What is checked is the
// specification `walked` that the Verus unit `solver` assumes (spec/solver.rs): the flag is set on the node, on every
// node up the parent_node links and on the head node of each of these - and on no other node (a head of a head, a node
// that merely shares the knowledge base); no other field of any node changes.
use std::rc::Rc;
use std::cell::RefCell;

fn fresh_node<'a>(g: &Rc<Goal>, kb: &'a KnowledgeBase) -> Rc<RefCell<SolutionNode<'a>>> {
    Rc::new(RefCell::new(SolutionNode::new(Rc::clone(g), kb)))
}
fn untouched(n: &Rc<RefCell<SolutionNode>>) -> bool {
    let b = n.borrow();
    b.more_solutions && b.rule_index == 0 && b.number_facts_rules == 0 && b.child.is_none() && b.tail_sn.is_none() && b.operator_tail.is_none()
}

fn cut_walk_case(len: u8, top_has_head: bool, mid_has_head: bool) {
    let kb = KnowledgeBase::new();
    let g = Rc::new(Goal::Nil);
    let top = fresh_node(&g, &kb);
    let mid = fresh_node(&g, &kb);
    let leaf = fresh_node(&g, &kb);
    let head_of_top = fresh_node(&g, &kb);
    let head_of_mid = fresh_node(&g, &kb);
    let head_of_head = fresh_node(&g, &kb);
    let stranger = fresh_node(&g, &kb);
    // chain length: leaf alone, leaf -> mid, or leaf -> mid -> top
    if len >= 1 { leaf.borrow_mut().parent_node = Some(Rc::clone(&mid)); }
    if len >= 2 { mid.borrow_mut().parent_node = Some(Rc::clone(&top)); }
    if top_has_head { top.borrow_mut().head_sn = Some(Rc::clone(&head_of_top)); }
    if mid_has_head { mid.borrow_mut().head_sn = Some(Rc::clone(&head_of_mid)); }
    // a head node has a head of its own and hangs below its operator node
    head_of_mid.borrow_mut().head_sn = Some(Rc::clone(&head_of_head));
    head_of_mid.borrow_mut().parent_node = Some(Rc::clone(&mid));
    // the stranger points INTO the chain but is not on it
    stranger.borrow_mut().parent_node = Some(Rc::clone(&mid));
    stranger.borrow_mut().head_sn = Some(Rc::clone(&leaf));

    leaf.borrow_mut().set_no_backtracking();

    assert!(leaf.borrow().no_backtracking, "the node of the cut is flagged");
    assert!(mid.borrow().no_backtracking == (len >= 1), "the parent is flagged exactly when it is on the chain");
    assert!(top.borrow().no_backtracking == (len >= 2), "the grandparent is flagged exactly when it is on the chain");
    assert!(head_of_mid.borrow().no_backtracking == (len >= 1 && mid_has_head), "the head node of a chain node is flagged");
    assert!(head_of_top.borrow().no_backtracking == (len >= 2 && top_has_head), "the head node of a chain node is flagged");
    assert!(!head_of_head.borrow().no_backtracking, "the head of a head is not on the walk");
    assert!(!stranger.borrow().no_backtracking, "a node that points into the chain is not on the walk");
    assert!(untouched(&leaf) && untouched(&mid) && untouched(&top) && untouched(&head_of_mid) && untouched(&head_of_top) && untouched(&stranger),
            "the walk writes no other field");
    kani::cover!(true, "the end of the case is reachable");
    std::mem::forget((top, mid, leaf, head_of_top, head_of_mid, head_of_head, stranger));
}

// one harness per shape (a symbolic shape did not finish in 15 min / 7.6 GB)
#[kani::proof]
#[kani::stub(std::hash::RandomState::new, stub_random_state)]
#[kani::unwind(5)]
fn c02_walk_chain3() { cut_walk_case(2, true, true); }

#[kani::proof]
#[kani::stub(std::hash::RandomState::new, stub_random_state)]
#[kani::unwind(5)]
fn c02_walk_chain2() { cut_walk_case(1, false, true); }

#[kani::proof]
#[kani::stub(std::hash::RandomState::new, stub_random_state)]
#[kani::unwind(5)]
fn c02_walk_alone() { cut_walk_case(0, true, false); }
