// ---------------------------------------------------------------------------
// spec/ids_lists.rs -- the list built-ins introduce no variable of their own (C10): what they build comes from their arguments
// and from the bindings.  Lemmas over the value-level specifications of spec/listops.rs and spec/lists.rs.
// ---------------------------------------------------------------------------
pub open spec fn all_below(s: Seq<Unifiable>, c: int) -> bool { forall|i: int| 0 <= i < s.len() ==> below(#[trigger] s[i], c) }

pub proof fn lemma_below_seq_from(s: Seq<Unifiable>, c: int)
    requires all_below(s, c),
    ensures below_seq(s, c),
    decreases s.len(),
{
    if s.len() > 0 {
        assert forall|i: int| 0 <= i < s.drop_first().len() implies below(#[trigger] s.drop_first()[i], c) by { assert(s.drop_first()[i] == s[i + 1]); }
        lemma_below_seq_from(s.drop_first(), c);
    }
}
pub proof fn lemma_below_seq_all(s: Seq<Unifiable>, c: int)
    requires below_seq(s, c),
    ensures all_below(s, c),
{
    assert forall|i: int| 0 <= i < s.len() implies below(#[trigger] s[i], c) by { lemma_below_seq_index(s, c, i); }
}
// the end of a variable's chain is one of the bindings; anything else is its own value
pub proof fn lemma_ground_below(s: SS, t: Unifiable, c: int)
    requires below(t, c), ss_below(s, c), ground_of(s, t) is Some,
    ensures below(ground_of(s, t).unwrap(), c),
{
    if let Unifiable::LogicVar{id, name} = t {
        let j = chain_end(s, id as int);
        assert(bnd(s, j) is Some);
        assert(s[j] is Some);
    }
}
pub proof fn lemma_tail_list_below(s: SS, t: Unifiable, c: int)
    requires below(t, c), ss_below(s, c), tail_list(s, t) is Some,
    ensures below(tail_list(s, t).unwrap(), c),
{
    if t is LogicVar { lemma_ground_below(s, t, c); }
}
// the elements a walk through a list visits (tail variables followed through the bindings)
pub proof fn lemma_thru_below(s: SS, t: Unifiable, fuel: nat, keep: bool, c: int)
    requires below(t, c), ss_below(s, c), thru(s, t, fuel, keep) is Some,
    ensures all_below(thru(s, t, fuel, keep).unwrap(), c),
    decreases fuel, t,
{
    if let Unifiable::SLinkedList{term, next, count, tail_var} = t {
        if *term == Unifiable::Nil {
        } else if tail_var && !(*term is Anonymous) {
            match tail_list(s, *term) {
                Some(l) => { lemma_tail_list_below(s, *term, c); if fuel > 0 { lemma_thru_first_below(s, l, (fuel - 1) as nat, keep, c); } },
                None => { if keep { lemma_thru_below(s, *next, fuel, keep, c); let r = thru(s, *next, fuel, keep).unwrap(); assert forall|i: int| 0 <= i < (seq![*term] + r).len() implies below(#[trigger] (seq![*term] + r)[i], c) by { if i > 0 { assert((seq![*term] + r)[i] == r[i - 1]); } } } },
            }
        } else {
            lemma_thru_below(s, *next, fuel, keep, c);
            let r = thru(s, *next, fuel, keep).unwrap();
            assert forall|i: int| 0 <= i < (seq![*term] + r).len() implies below(#[trigger] (seq![*term] + r)[i], c) by { if i > 0 { assert((seq![*term] + r)[i] == r[i - 1]); } }
        }
    }
}
pub proof fn lemma_thru_first_below(s: SS, t: Unifiable, fuel: nat, keep: bool, c: int)
    requires below(t, c), ss_below(s, c), thru_first(s, t, fuel, keep) is Some,
    ensures all_below(thru_first(s, t, fuel, keep).unwrap(), c),
    decreases fuel, t, 1nat,
{
    if let Unifiable::SLinkedList{term, next, count, tail_var} = t {
        if *term != Unifiable::Nil {
            lemma_thru_below(s, *next, fuel, keep, c);
            let r = thru(s, *next, fuel, keep).unwrap();
            assert forall|i: int| 0 <= i < (seq![*term] + r).len() implies below(#[trigger] (seq![*term] + r)[i], c) by { if i > 0 { assert((seq![*term] + r)[i] == r[i - 1]); } }
        }
    }
}
pub proof fn lemma_thru_first_val_below(s: SS, t: Unifiable, keep: bool, c: int)
    requires below(t, c), ss_below(s, c), thru_first_def(s, t, keep),
    ensures all_below(thru_first_val(s, t, keep), c),
{
    let f = choose|f: nat| (#[trigger] thru_first(s, t, f, keep)) is Some;
    lemma_thru_first_below(s, t, f, keep, c);
}
// a selection of elements
pub proof fn lemma_keep_seq_below(q: Seq<Unifiable>, flt: Unifiable, s: SS, include: bool, c: int)
    requires all_below(q, c),
    ensures all_below(keep_seq(q, flt, s, include), c),
    decreases q.len(),
{
    if q.len() > 0 {
        assert forall|i: int| 0 <= i < q.drop_first().len() implies below(#[trigger] q.drop_first()[i], c) by { assert(q.drop_first()[i] == q[i + 1]); }
        lemma_keep_seq_below(q.drop_first(), flt, s, include, c);
        let r = keep_seq(q.drop_first(), flt, s, include);
        assert forall|i: int| 0 <= i < (seq![q[0]] + r).len() implies below(#[trigger] (seq![q[0]] + r)[i], c) by { if i > 0 { assert((seq![q[0]] + r)[i] == r[i - 1]); } }
    }
}
// the list built from a sequence of elements
pub proof fn lemma_list_of_below(q: Seq<Unifiable>, k: int, c: int)
    requires all_below(q, c),
    ensures below(list_of(q, k), c),
    decreases q.len() - k,
{
    reveal_with_fuel(below, 3);
    if !(k >= q.len() || k < 0) { lemma_list_of_below(q, k + 1, c); assert(below(q[k], c)); }
}
// what append collects from one argument, and from the first n arguments
pub proof fn lemma_arg_seq_below(s: SS, t: Unifiable, c: int)
    requires below(t, c), ss_below(s, c), walk_pre(s, t, true),
    ensures all_below(arg_seq(s, t), c),
{
    if let Some(g) = ground_of(s, t) {
        lemma_ground_below(s, t, c);
        if g is SLinkedList { lemma_thru_first_val_below(s, g, true, c); }
    }
}
pub proof fn lemma_flat_args_below(s: SS, ts: Seq<Unifiable>, n: int, c: int)
    requires all_below(ts, c), ss_below(s, c), 0 <= n <= ts.len(), forall|i: int| 0 <= i < n ==> walk_pre(s, #[trigger] ts[i], true),
    ensures all_below(flat_args(s, ts, n), c),
    decreases n,
{
    if n > 0 {
        lemma_flat_args_below(s, ts, n - 1, c);
        lemma_arg_seq_below(s, ts[n - 1], c);
        let a = flat_args(s, ts, n - 1);
        let b = arg_seq(s, ts[n - 1]);
        assert forall|i: int| 0 <= i < (a + b).len() implies below(#[trigger] (a + b)[i], c) by {
            if i < a.len() { assert((a + b)[i] == a[i]); } else { assert((a + b)[i] == b[i - a.len()]); }
        }
    }
}
