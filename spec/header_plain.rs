#![allow(unused_imports, unused_variables, unused_mut, unused_assignments, dead_code, unreachable_code, non_snake_case, unused_parens, unused_macros)]
use vstd::prelude::*;
use std::rc::Rc;
use std::cmp::Ordering;
use std::collections::HashMap;

