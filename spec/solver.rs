// ---------------------------------------------------------------------------
// spec/solver.rs -- the node heap: what next_solution() does to the solution nodes (C05, C03, cut flag of C02)
// ---------------------------------------------------------------------------
// TRUSTED(T8): the heap model of `Rc<RefCell<SolutionNode>>`.
//
// A solution node lives behind Rc<RefCell<..>>; the nodes point to their children and (through parent_node) back to
// their parents.  Verus has no specification of RefCell and cannot declare the cyclic struct.  Rule R15 of the
// extractor therefore turns every access through the RefCell into a call of one of the accessor functions below, and
// the functions that work on nodes pass a ghost heap along:
//
//     Heap.st      node identity -> contents of the node (the fields of SolutionNode the solver reads and writes,
//                  plus two ghost fields: `depth`, fixed when the node is made, and `done`, see below)
//     Heap.locked  the nodes for which a RefMut is alive (RefCell::borrow_mut without a matching drop)
//     Heap.out     number of output events so far (print, print_list, nl, the elapsed time of time(..))
//
// What is assumed, and nowhere proved: (1) two Rc handles with the same identity (Rc::clone) denote the same RefCell and
// different nodes have different identities; (2) reading / writing a field through a RefMut reads / writes exactly that
// field of that node; (3) there is one heap - every heap function receives the current one; (4) the raw-pointer writes
// of set_no_backtracking() (unsafe code, outside both verifiers) set `no_backtracking` flags and nothing else.
// borrow_mut() on a node that is already mutably borrowed panics in std: nd_borrow_mut REQUIRES the node to be unlocked,
// so the absence of that panic is proved, not assumed.

use std::cell::RefCell;
use std::time::Instant;

// (the struct SolutionNode itself is copied from solution_node.rs by the unit; a RefCell owns its content, so a type may
// contain itself behind one, as behind a Box)
#[verifier::external_type_specification]
#[verifier::external_body]
#[verifier::accept_recursive_types(T)]
pub struct ExRefCell<T: ?Sized>(std::cell::RefCell<T>);

#[verifier::external_type_specification]
#[verifier::external_body]
pub struct ExInstant(std::time::Instant);
pub assume_specification[ std::time::Instant::now ]() -> std::time::Instant;

// identity of a node
pub uninterp spec fn nid<'a>(n: Rc<RefCell<SolutionNode<'a>>>) -> int;

pub ghost struct NodeSt {
    pub goal: Goal,
    pub no_backtracking: bool,
    pub more_solutions: bool,
    pub child: Option<int>,
    pub head_sn: Option<int>,
    pub tail_sn: Option<int>,
    pub rule_index: int,
    pub number_facts_rules: int,
    pub operator_tail: Option<Operator>,
    pub ss: SubstitutionSet<'static>,
    // the knowledge base the node searches (every node of a query is made with the same one)
    pub kb: KnowledgeBase,
    pub parent: Option<int>,
    // ghost: distance from the base node of the query (a node's children are one deeper)
    pub depth: nat,
    // ghost: depth of the call this node belongs to - the nearest complex-goal node at or above it (a complex-goal node
    // has no parent_node, so the walk of set_no_backtracking() ends there)
    pub call_depth: nat,
    // ghost history: next_solution() on this node has returned None ("no (more) solution") at least once
    pub done: bool,
    // ghost history: a cut has run in the subtree of this node (the node was on the parent chain of a cut)
    pub on_chain: bool,
}

pub tracked struct Heap {
    pub ghost st: Map<int, NodeSt>,
    pub ghost locked: Set<int>,
    pub ghost out: nat,
    // the texts written by print (R16: `print!("{}", e)` appends the value of e); other output events leave it unspecified
    pub ghost log: Seq<Seq<char>>,
    // the value of the global variable-id counter LOGIC_VAR_ID (T9; moved by next_id / set_var_id, read by get_var_id)
    pub ghost ids: nat,
}

pub open spec fn alive(h: Heap, n: int) -> bool { h.st.dom().contains(n) }
pub open spec fn is_done(h: Heap, n: int) -> bool { alive(h, n) && h.st[n].done }
pub open spec fn opt_done(h: Heap, o: Option<int>) -> bool {
    match o { Some(c) => is_done(h, c), None => true }
}
pub open spec fn opt_kid(h: Heap, n: int, o: Option<int>) -> bool {
    match o {
        Some(c) => alive(h, c) && h.st[c].depth == h.st[n].depth + 1
            && h.st[c].call_depth == (if h.st[c].goal is ComplexGoal { h.st[c].depth } else { h.st[n].call_depth }),
        None => true,
    }
}
pub open spec fn opt_flagged(h: Heap, o: Option<int>) -> bool {
    match o { Some(c) => alive(h, c) && h.st[c].no_backtracking, None => true }
}
pub open spec fn op_goals(o: Operator) -> Seq<Goal> {
    match o { Operator::And(g) => g@, Operator::Or(g) => g@, Operator::Time(g) => g@, Operator::Not(g) => g@ }
}
pub open spec fn op_len(o: Operator) -> nat { op_goals(o).len() }
pub open spec fn op_tail_empty(o: Option<Operator>) -> bool {
    match o { Some(t) => op_len(t) == 0, None => true }
}
pub open spec fn is_not_goal(g: Goal) -> bool { g matches Goal::OperatorGoal(op) && op is Not }
pub open spec fn is_time_goal(g: Goal) -> bool { g matches Goal::OperatorGoal(op) && op is Time }

// what a node that has reported "no more" looks like: asking it again finds nothing to do
pub open spec fn local_done_body(h: Heap, n: int) -> bool {
    let s = h.st[n];
    s.no_backtracking || match s.goal {
        Goal::OperatorGoal(Operator::And(_)) => opt_done(h, s.head_sn) && opt_done(h, s.tail_sn),
        Goal::OperatorGoal(Operator::Or(_)) => match s.tail_sn {
            Some(t) => is_done(h, t),
            None => opt_done(h, s.head_sn) && op_tail_empty(s.operator_tail),
        },
        Goal::OperatorGoal(_) => !s.more_solutions,
        Goal::ComplexGoal(_) => s.rule_index >= s.number_facts_rules && opt_done(h, s.child),
        Goal::BuiltInGoal(_) => !s.more_solutions,
        Goal::Nil => true,
    }
}

pub open spec fn wf_node_body(h: Heap, n: int) -> bool {
    let s = h.st[n];
    &&& !(s.goal is Nil)
    &&& opt_kid(h, n, s.child) && opt_kid(h, n, s.head_sn) && opt_kid(h, n, s.tail_sn)
    &&& (s.goal is OperatorGoal ==> s.head_sn is Some)
    &&& (s.goal is BuiltInGoal ==> s.head_sn is None)
    &&& 0 <= s.rule_index && 0 <= s.number_facts_rules <= usize::MAX
    &&& s.call_depth <= s.depth && (s.goal is ComplexGoal ==> s.call_depth == s.depth)
    // the cut disables backtracking on the nodes of its parent chain, each together with its head node (the goals to the left)
    &&& (s.on_chain ==> s.no_backtracking && opt_flagged(h, s.head_sn))
    &&& parent_ok(h, n)
}
// parent_node links stay within the call: a complex-goal node has none (make_solution_node), the others point one level up
pub open spec fn parent_ok(h: Heap, n: int) -> bool {
    let s = h.st[n];
    &&& (s.goal is ComplexGoal ==> s.parent is None)
    &&& match s.parent { Some(p) => alive(h, p) && h.st[p].depth + 1 == s.depth && h.st[p].call_depth == s.call_depth, None => true }
}

// Under the quantifier of the invariant the two predicates are opaque: unfolded there, every node's well-formedness would
// mention its children, whose well-formedness mentions theirs - a matching loop down the tree.  They are unfolded for one
// node at a time (lemma_unfold_me).
#[verifier::opaque]
pub open spec fn wf_node(h: Heap, n: int) -> bool { wf_node_body(h, n) }
#[verifier::opaque]
pub open spec fn local_done(h: Heap, n: int) -> bool { local_done_body(h, n) }
pub proof fn lemma_unfold_me(h: Heap, n: int)
    requires inv(h), alive(h, n),
    ensures wf_node_body(h, n), h.st[n].done ==> local_done_body(h, n),
{
    reveal(wf_node); reveal(local_done);
}

// the heap invariant
pub open spec fn inv(h: Heap) -> bool {
    forall|n: int| #[trigger] alive(h, n) ==> wf_node(h, n) && (h.st[n].done ==> local_done(h, n))
}

// every live RefMut belongs to a node above n (the callers of the function working on n)
pub open spec fn above(h: Heap, n: int) -> bool {
    forall|m: int| #[trigger] h.locked.contains(m) ==> alive(h, m) && h.st[m].depth < h.st[n].depth
}

// all fields but the cut flag
pub open spec fn same_but_flag(a: NodeSt, b: NodeSt) -> bool {
    b == NodeSt { no_backtracking: b.no_backtracking, on_chain: b.on_chain, ..a }
}

// how the heap may change while a function works on nodes; l = the nodes whose RefMut is held by callers
pub open spec fn ev(h: Heap, h2: Heap, l: Set<int>) -> bool {
    &&& h.out <= h2.out
    &&& forall|m: int| #[trigger] alive(h, m) ==> alive(h2, m)
            && h2.st[m].goal == h.st[m].goal && h2.st[m].depth == h.st[m].depth && h2.st[m].call_depth == h.st[m].call_depth
            && h2.st[m].parent == h.st[m].parent && (h.st[m].on_chain ==> h2.st[m].on_chain)
            && (h.st[m].done ==> h2.st[m].done)
            && (h.st[m].no_backtracking ==> h2.st[m].no_backtracking)
            && (l.contains(m) ==> same_but_flag(h.st[m], h2.st[m]))
}
// the cut flags of the nodes above depth d are as they were
pub open spec fn flags_kept_above(h: Heap, h2: Heap, d: nat) -> bool {
    forall|m: int| #[trigger] alive(h, m) && h.st[m].depth < d ==> alive(h2, m) && h2.st[m].no_backtracking == h.st[m].no_backtracking
}
pub open spec fn evolves(h: Heap, h2: Heap) -> bool {
    ev(h, h2, h.locked) && h2.locked == h.locked
}

pub proof fn lemma_ev_trans(a: Heap, b: Heap, c: Heap, l: Set<int>, l2: Set<int>)
    requires ev(a, b, l), ev(b, c, l2), l.subset_of(l2),
    ensures ev(a, c, l),
{
    assert forall|m: int| #[trigger] alive(a, m) implies alive(c, m)
            && c.st[m].goal == a.st[m].goal && c.st[m].depth == a.st[m].depth && c.st[m].call_depth == a.st[m].call_depth
            && c.st[m].parent == a.st[m].parent && (a.st[m].on_chain ==> c.st[m].on_chain)
            && (a.st[m].done ==> c.st[m].done)
            && (a.st[m].no_backtracking ==> c.st[m].no_backtracking)
            && (l.contains(m) ==> same_but_flag(a.st[m], c.st[m])) by {
        assert(alive(b, m));
    }
}

// ---- ghost operations --------------------------------------------------------------------------------------------
// the RefMut of node n is dropped
pub proof fn heap_unlock(tracked h: &mut Heap, n: int)
    requires old(h).locked.contains(n),
    ensures final(h).st == old(h).st, final(h).out == old(h).out, final(h).locked == old(h).locked.remove(n), final(h).ids == old(h).ids, final(h).log == old(h).log,
{
    h.locked = h.locked.remove(n);
}
// next_solution() on node n is about to return None
pub proof fn heap_mark_done(tracked h: &mut Heap, n: int)
    requires alive(*old(h), n),
    ensures final(h).st == old(h).st.insert(n, NodeSt { done: true, ..old(h).st[n] }),
            final(h).out == old(h).out, final(h).locked == old(h).locked, final(h).ids == old(h).ids, final(h).log == old(h).log,
{
    h.st = h.st.insert(n, NodeSt { done: true, ..h.st[n] });
}

// ---- accessors (R15) ----------------------------------------------------------------------------------------------
// R15c  `let mut r = n.borrow_mut();`
#[verifier::external_body]
pub fn nd_borrow_mut<'a>(n: &Rc<RefCell<SolutionNode<'a>>>, Tracked(h): Tracked<&mut Heap>)
    requires
        alive(*old(h), nid(*n)),
        // std panics with "already borrowed" otherwise
        !old(h).locked.contains(nid(*n)),
    ensures
        final(h).ids == old(h).ids,
        final(h).st == old(h).st, final(h).out == old(h).out, final(h).locked == old(h).locked.insert(nid(*n)),
{ unimplemented!() }

// R15g  the end of the block that declares a RefMut must not be reached by falling through (tool limit, see extract.py)
#[verifier::external_body]
pub fn nd_scope_end() -> !
    requires false,
{ unimplemented!() }

pub open spec fn held(h: Heap, n: int) -> bool { alive(h, n) && h.locked.contains(n) }
pub open spec fn opt_is(o: Option<int>, r: Option<int>) -> bool { o == r }

// R15e  reads through the RefMut
#[verifier::external_body]
pub fn nd_goal<'a>(n: &Rc<RefCell<SolutionNode<'a>>>, Tracked(h): Tracked<&Heap>) -> (r: Rc<Goal>)
    requires held(*h, nid(*n)),
    ensures *r == h.st[nid(*n)].goal,
{ unimplemented!() }
#[verifier::external_body]
pub fn nd_kb<'a>(n: &Rc<RefCell<SolutionNode<'a>>>, Tracked(h): Tracked<&Heap>) -> (r: &'a KnowledgeBase)
    requires held(*h, nid(*n)),
    ensures *r == h.st[nid(*n)].kb,
{ unimplemented!() }
#[verifier::external_body]
pub fn nd_ss<'a>(n: &Rc<RefCell<SolutionNode<'a>>>, Tracked(h): Tracked<&Heap>) -> (r: Rc<SubstitutionSet<'a>>)
    requires held(*h, nid(*n)),
    ensures *r == h.st[nid(*n)].ss,
{ unimplemented!() }
#[verifier::external_body]
pub fn nd_no_backtracking<'a>(n: &Rc<RefCell<SolutionNode<'a>>>, Tracked(h): Tracked<&Heap>) -> (r: bool)
    requires held(*h, nid(*n)),
    ensures r == h.st[nid(*n)].no_backtracking,
{ unimplemented!() }
#[verifier::external_body]
pub fn nd_more_solutions<'a>(n: &Rc<RefCell<SolutionNode<'a>>>, Tracked(h): Tracked<&Heap>) -> (r: bool)
    requires held(*h, nid(*n)),
    ensures r == h.st[nid(*n)].more_solutions,
{ unimplemented!() }
pub open spec fn link_is<'a>(r: Option<Rc<RefCell<SolutionNode<'a>>>>, o: Option<int>) -> bool {
    match r { Some(x) => o == Some(nid(x)), None => o is None }
}
#[verifier::external_body]
pub fn nd_child<'a>(n: &Rc<RefCell<SolutionNode<'a>>>, Tracked(h): Tracked<&Heap>) -> (r: Option<Rc<RefCell<SolutionNode<'a>>>>)
    requires held(*h, nid(*n)),
    ensures link_is(r, h.st[nid(*n)].child),
{ unimplemented!() }
#[verifier::external_body]
pub fn nd_head_sn<'a>(n: &Rc<RefCell<SolutionNode<'a>>>, Tracked(h): Tracked<&Heap>) -> (r: Option<Rc<RefCell<SolutionNode<'a>>>>)
    requires held(*h, nid(*n)),
    ensures link_is(r, h.st[nid(*n)].head_sn),
{ unimplemented!() }
#[verifier::external_body]
pub fn nd_tail_sn<'a>(n: &Rc<RefCell<SolutionNode<'a>>>, Tracked(h): Tracked<&Heap>) -> (r: Option<Rc<RefCell<SolutionNode<'a>>>>)
    requires held(*h, nid(*n)),
    ensures link_is(r, h.st[nid(*n)].tail_sn),
{ unimplemented!() }
#[verifier::external_body]
pub fn nd_rule_index<'a>(n: &Rc<RefCell<SolutionNode<'a>>>, Tracked(h): Tracked<&Heap>) -> (r: usize)
    requires held(*h, nid(*n)),
    ensures r == h.st[nid(*n)].rule_index,
{ unimplemented!() }
#[verifier::external_body]
pub fn nd_number_facts_rules<'a>(n: &Rc<RefCell<SolutionNode<'a>>>, Tracked(h): Tracked<&Heap>) -> (r: usize)
    requires held(*h, nid(*n)),
    ensures r == h.st[nid(*n)].number_facts_rules,
{ unimplemented!() }
#[verifier::external_body]
pub fn nd_operator_tail<'a>(n: &Rc<RefCell<SolutionNode<'a>>>, Tracked(h): Tracked<&Heap>) -> (r: Option<Operator>)
    requires held(*h, nid(*n)),
    ensures r == h.st[nid(*n)].operator_tail,
{ unimplemented!() }

// R15f  reads through a short-lived `n.borrow()` (std panics if a RefMut of the node is alive)
#[verifier::external_body]
pub fn nb_goal<'a>(n: &Rc<RefCell<SolutionNode<'a>>>, Tracked(h): Tracked<&Heap>) -> (r: Rc<Goal>)
    requires alive(*h, nid(*n)), !h.locked.contains(nid(*n)),
    ensures *r == h.st[nid(*n)].goal,
{ unimplemented!() }
#[verifier::external_body]
pub fn nb_no_backtracking<'a>(n: &Rc<RefCell<SolutionNode<'a>>>, Tracked(h): Tracked<&Heap>) -> (r: bool)
    requires alive(*h, nid(*n)), !h.locked.contains(nid(*n)),
    ensures r == h.st[nid(*n)].no_backtracking,
{ unimplemented!() }

// R15d  writes through the RefMut
#[verifier::external_body]
pub fn nd_set_more_solutions<'a>(n: &Rc<RefCell<SolutionNode<'a>>>, v: bool, Tracked(h): Tracked<&mut Heap>)
    requires held(*old(h), nid(*n)),
    ensures final(h).ids == old(h).ids, final(h).st == old(h).st.insert(nid(*n), NodeSt { more_solutions: v, ..old(h).st[nid(*n)] }),
            final(h).out == old(h).out, final(h).locked == old(h).locked,
{ unimplemented!() }
#[verifier::external_body]
pub fn nd_set_rule_index<'a>(n: &Rc<RefCell<SolutionNode<'a>>>, v: usize, Tracked(h): Tracked<&mut Heap>)
    requires held(*old(h), nid(*n)),
    ensures final(h).ids == old(h).ids, final(h).st == old(h).st.insert(nid(*n), NodeSt { rule_index: v as int, ..old(h).st[nid(*n)] }),
            final(h).out == old(h).out, final(h).locked == old(h).locked,
{ unimplemented!() }
pub open spec fn link_of<'a>(r: Option<Rc<RefCell<SolutionNode<'a>>>>) -> Option<int> {
    match r { Some(x) => Some(nid(x)), None => None }
}
#[verifier::external_body]
pub fn nd_set_head_sn<'a>(n: &Rc<RefCell<SolutionNode<'a>>>, v: Option<Rc<RefCell<SolutionNode<'a>>>>, Tracked(h): Tracked<&mut Heap>)
    requires held(*old(h), nid(*n)),
    ensures final(h).ids == old(h).ids, final(h).st == old(h).st.insert(nid(*n), NodeSt { head_sn: link_of(v), ..old(h).st[nid(*n)] }),
            final(h).out == old(h).out, final(h).locked == old(h).locked,
{ unimplemented!() }

// R15g  the RefMut declared in the body of a function without a result is dropped at the end of that body
#[verifier::external_body]
pub fn nd_release<'a>(n: &Rc<RefCell<SolutionNode<'a>>>, Tracked(h): Tracked<&mut Heap>)
    requires held(*old(h), nid(*n)),
    ensures final(h).ids == old(h).ids, final(h).st == old(h).st, final(h).out == old(h).out, final(h).locked == old(h).locked.remove(nid(*n)),
{ unimplemented!() }

// R15h  `rc_cell!(x)` = Rc::new(RefCell::new(x)): a new node with the contents of the struct x.  depth / call_depth are ghost.
pub open spec fn state_of<'a>(x: SolutionNode<'a>, d: nat, cd: nat) -> NodeSt {
    NodeSt {
        goal: *x.goal, no_backtracking: x.no_backtracking, more_solutions: x.more_solutions,
        child: link_of(x.child), head_sn: link_of(x.head_sn), tail_sn: link_of(x.tail_sn),
        rule_index: x.rule_index as int, number_facts_rules: x.number_facts_rules as int,
        operator_tail: x.operator_tail, ss: *x.ss, kb: *x.kb, parent: link_of(x.parent_node), depth: d, call_depth: cd, done: false, on_chain: false,
    }
}
#[verifier::external_body]
pub fn nd_alloc<'a>(x: SolutionNode<'a>, Ghost(d): Ghost<nat>, Ghost(cd): Ghost<nat>, Tracked(h): Tracked<&mut Heap>) -> (r: Rc<RefCell<SolutionNode<'a>>>)
    ensures final(h).ids == old(h).ids, !alive(*old(h), nid(r)),
            final(h).st == old(h).st.insert(nid(r), state_of(x, d, cd)),
            final(h).out == old(h).out, final(h).locked == old(h).locked,
{ unimplemented!() }

// ---- nodes under construction (make_solution_node) -------------------------------------------------------------------
// An operator node exists for a moment without its head node (the head node needs the operator node as its parent).
// inv_but(h, u): the invariant, except that the nodes in u may still lack their head node.
pub open spec fn wf_partial(h: Heap, n: int) -> bool {
    let s = h.st[n];
    &&& !(s.goal is Nil)
    &&& opt_kid(h, n, s.child) && opt_kid(h, n, s.head_sn) && opt_kid(h, n, s.tail_sn)
    &&& 0 <= s.rule_index && 0 <= s.number_facts_rules <= usize::MAX
    &&& s.call_depth <= s.depth && (s.goal is ComplexGoal ==> s.call_depth == s.depth)
    &&& !s.no_backtracking && !s.done && !s.on_chain
    &&& parent_ok(h, n)
}
pub open spec fn inv_but(h: Heap, u: Set<int>) -> bool {
    forall|n: int| #[trigger] alive(h, n) ==>
        if u.contains(n) { wf_partial(h, n) } else { wf_node(h, n) && (h.st[n].done ==> local_done(h, n)) }
}
pub proof fn lemma_inv_but_empty(h: Heap)
    ensures inv(h) == inv_but(h, Set::empty()),
{}
// a new node r is added; no other node changes
pub proof fn lemma_alloc_but(h1: Heap, h2: Heap, r: int, u: Set<int>, full: bool)
    requires inv_but(h1, u), !alive(h1, r), !u.contains(r), h2.st == h1.st.insert(r, h2.st[r]),
             if full { wf_node_body(h2, r) && !h2.st[r].done } else { wf_partial(h2, r) },
    ensures inv_but(h2, if full { u } else { u.insert(r) }),
{
    reveal(wf_node); reveal(local_done);
    let u2 = if full { u } else { u.insert(r) };
    assert forall|n: int| #[trigger] alive(h2, n) implies
        (if u2.contains(n) { wf_partial(h2, n) } else { wf_node(h2, n) && (h2.st[n].done ==> local_done(h2, n)) }) by {
        if n != r {
            assert(alive(h1, n));
            assert(h2.st[n] == h1.st[n]);
            assert(u2.contains(n) == u.contains(n));
            assert(forall|c: int| is_done(h1, c) ==> is_done(h2, c));
            assert(forall|o: Option<int>| opt_done(h1, o) ==> #[trigger] opt_done(h2, o));
            assert forall|o: Option<int>| opt_kid(h1, n, o) implies #[trigger] opt_kid(h2, n, o) by {
                match o { Some(c) => { assert(alive(h2, c)); assert(c != r); }, None => {} }
            }
            assert forall|o: Option<int>| opt_flagged(h1, o) implies #[trigger] opt_flagged(h2, o) by {
                match o { Some(c) => { assert(alive(h2, c)); assert(c != r); }, None => {} }
            }
        }
    }
}
// the head node of r is set: r is complete
pub proof fn lemma_complete_but(h1: Heap, h2: Heap, r: int, u: Set<int>)
    requires inv_but(h1, u.insert(r)), alive(h1, r), !u.contains(r),
             h2.st == h1.st.insert(r, h2.st[r]), wf_node_body(h2, r), !h2.st[r].done,
             h2.st[r].depth == h1.st[r].depth, h2.st[r].call_depth == h1.st[r].call_depth, h2.st[r].goal == h1.st[r].goal,
             h2.st[r].no_backtracking == h1.st[r].no_backtracking, h2.st[r].parent == h1.st[r].parent, h2.st[r].on_chain == h1.st[r].on_chain,
    ensures inv_but(h2, u),
{
    reveal(wf_node); reveal(local_done);
    assert forall|n: int| #[trigger] alive(h2, n) implies
        (if u.contains(n) { wf_partial(h2, n) } else { wf_node(h2, n) && (h2.st[n].done ==> local_done(h2, n)) }) by {
        assert(alive(h1, n));
        if n != r {
            assert(h2.st[n] == h1.st[n]);
            assert(u.insert(r).contains(n) == u.contains(n));
            assert(forall|c: int| is_done(h1, c) ==> is_done(h2, c)) by { assert(!h1.st[r].done); }
            assert(forall|o: Option<int>| opt_done(h1, o) ==> #[trigger] opt_done(h2, o));
            assert forall|o: Option<int>| opt_kid(h1, n, o) implies #[trigger] opt_kid(h2, n, o) by {
                match o { Some(c) => { assert(alive(h2, c)); }, None => {} }
            }
            assert forall|o: Option<int>| opt_flagged(h1, o) implies #[trigger] opt_flagged(h2, o) by {
                match o { Some(c) => { assert(alive(h2, c)); }, None => {} }
            }
        }
    }
}
#[verifier::external_body]
pub fn nd_set_child<'a>(n: &Rc<RefCell<SolutionNode<'a>>>, v: Option<Rc<RefCell<SolutionNode<'a>>>>, Tracked(h): Tracked<&mut Heap>)
    requires held(*old(h), nid(*n)),
    ensures final(h).ids == old(h).ids, final(h).st == old(h).st.insert(nid(*n), NodeSt { child: link_of(v), ..old(h).st[nid(*n)] }),
            final(h).out == old(h).out, final(h).locked == old(h).locked,
{ unimplemented!() }
#[verifier::external_body]
pub fn nd_set_tail_sn<'a>(n: &Rc<RefCell<SolutionNode<'a>>>, v: Option<Rc<RefCell<SolutionNode<'a>>>>, Tracked(h): Tracked<&mut Heap>)
    requires held(*old(h), nid(*n)),
    ensures final(h).ids == old(h).ids, final(h).st == old(h).st.insert(nid(*n), NodeSt { tail_sn: link_of(v), ..old(h).st[nid(*n)] }),
            final(h).out == old(h).out, final(h).locked == old(h).locked,
{ unimplemented!() }

// R10 target: `body == Goal::Nil` (derived PartialEq against a variant without fields)
#[verifier::external_body]
pub fn goal_is_nil(g: &Goal) -> (r: bool)
    ensures r == (*g is Nil),
{ unimplemented!() }

// derived PartialEq on Goal where one side is the field-less variant Nil: equal exactly when both are Nil (TRUSTED T2; the
// wrapped form `body == Goal::Nil` above stays; this gives the comparison a meaning however it is written, e.g. `Goal::Nil == body`)
pub assume_specification[ <Goal as PartialEq>::eq ](a: &Goal, b: &Goal) -> (r: bool)
    ensures (*a is Nil || *b is Nil) ==> r == (*a is Nil && *b is Nil);

pub assume_specification[ <Operator as Clone>::clone ](o: &Operator) -> (r: Operator)
    ensures r == *o;
pub assume_specification[ <BuiltInPredicate as Clone>::clone ](o: &BuiltInPredicate) -> (r: BuiltInPredicate)
    ensures r == *o;

// ---- vocabulary of the contracts -------------------------------------------------------------------------------------
pub open spec fn ss_is<'a>(r: Option<Rc<SubstitutionSet<'a>>>, s: SubstitutionSet<'static>) -> bool {
    match r { Some(x) => *x == s, None => false }
}
// the state of a function that holds the RefMut of node me, h0 being the heap it was called with
pub open spec fn working(h0: Heap, h: Heap, me: int) -> bool {
    &&& alive(h0, me) && held(h, me)
    &&& h.locked == h0.locked.insert(me)
    &&& ev(h0, h, h0.locked)
    &&& inv(h)
    // only the function that holds the RefMut marks its node
    &&& h.st[me].done == h0.st[me].done
    // the invariant, unfolded for this one node
    &&& wf_node_body(h, me) && (h.st[me].done ==> local_done_body(h, me))
}
// a child of me can be asked: every live RefMut is above it
pub proof fn lemma_kid_below(h0: Heap, h: Heap, me: int, c: int)
    requires working(h0, h, me), above(h0, me), alive(h, c), h.st[c].depth == h.st[me].depth + 1,
    ensures above(h, c),
{
    assert forall|m: int| #[trigger] h.locked.contains(m) implies alive(h, m) && h.st[m].depth < h.st[c].depth by {
        if m != me { assert(h0.locked.contains(m)); assert(alive(h0, m)); }
        assert(alive(h0, me));
    }
}
// after a callee has returned
pub proof fn lemma_after_call(h0: Heap, h1: Heap, h2: Heap, me: int)
    requires working(h0, h1, me), evolves(h1, h2), inv(h2),
    ensures working(h0, h2, me), same_but_flag(h1.st[me], h2.st[me]),
{
    assert(alive(h1, me));
    lemma_unfold_me(h2, me);
    lemma_ev_trans(h0, h1, h2, h0.locked, h1.locked);
}
// after a write to a field of me
pub open spec fn wrote(h1: Heap, h2: Heap, me: int) -> bool {
    &&& h2.st.dom() =~= h1.st.dom() && h2.locked == h1.locked && h2.out == h1.out
    &&& forall|m: int| m != me ==> h2.st[m] == h1.st[m]
    &&& h2.st[me].goal == h1.st[me].goal && h2.st[me].depth == h1.st[me].depth && h2.st[me].call_depth == h1.st[me].call_depth
    &&& h2.st[me].parent == h1.st[me].parent && h2.st[me].on_chain == h1.st[me].on_chain
    &&& h2.st[me].done == h1.st[me].done && h2.st[me].no_backtracking == h1.st[me].no_backtracking
}
pub proof fn lemma_after_write(h0: Heap, h1: Heap, h2: Heap, me: int)
    requires working(h0, h1, me), wrote(h1, h2, me), !h0.locked.contains(me),
             wf_node_body(h2, me), h2.st[me].done ==> local_done_body(h2, me),
    ensures working(h0, h2, me),
{
    reveal(wf_node); reveal(local_done);
    assert forall|n: int| #[trigger] alive(h2, n) implies wf_node(h2, n) && (h2.st[n].done ==> local_done(h2, n)) by {
        assert(alive(h1, n));
        if n != me {
            assert(wf_node(h1, n));
            assert(h2.st[n] == h1.st[n]);
            let s = h1.st[n];
            assert(forall|c: int| is_done(h1, c) ==> is_done(h2, c));
            assert(forall|o: Option<int>| opt_done(h1, o) ==> #[trigger] opt_done(h2, o));
            assert(forall|o: Option<int>| opt_kid(h1, n, o) ==> #[trigger] opt_kid(h2, n, o)) by {
                assert forall|o: Option<int>| opt_kid(h1, n, o) implies #[trigger] opt_kid(h2, n, o) by {
                    match o { Some(c) => { assert(alive(h2, c)); if c == me {} }, None => {} }
                }
            }
        }
    }
    assert forall|m: int| #[trigger] alive(h0, m) implies alive(h2, m)
            && h2.st[m].goal == h0.st[m].goal && h2.st[m].depth == h0.st[m].depth && h2.st[m].call_depth == h0.st[m].call_depth
            && h2.st[m].parent == h0.st[m].parent && (h0.st[m].on_chain ==> h2.st[m].on_chain)
            && (h0.st[m].done ==> h2.st[m].done)
            && (h0.st[m].no_backtracking ==> h2.st[m].no_backtracking)
            && (h0.locked.contains(m) ==> same_but_flag(h0.st[m], h2.st[m])) by {
        assert(alive(h1, m));
    }
}
// the end of the function: the RefMut is dropped, and a node that reports None is marked
pub proof fn lemma_mark(h1: Heap, h2: Heap, me: int)
    requires inv(h1), alive(h1, me), local_done_body(h1, me),
             h2.st == h1.st.insert(me, NodeSt { done: true, ..h1.st[me] }),
    ensures inv(h2),
{
    reveal(wf_node); reveal(local_done);
    assert forall|n: int| #[trigger] alive(h2, n) implies wf_node(h2, n) && (h2.st[n].done ==> local_done(h2, n)) by {
        assert(alive(h1, n));
        assert(wf_node(h1, n));
        assert(forall|c: int| is_done(h1, c) ==> is_done(h2, c));
        assert(forall|o: Option<int>| opt_done(h1, o) ==> #[trigger] opt_done(h2, o));
        assert forall|o: Option<int>| opt_kid(h1, n, o) implies #[trigger] opt_kid(h2, n, o) by {
            match o { Some(c) => { assert(alive(h2, c)); }, None => {} }
        }
        if n == me { assert(local_done(h1, n)); }
        if h2.st[n].done && n != me { assert(local_done(h1, n)); }
    }
}
pub proof fn lemma_same_but_flag_refl(a: NodeSt)
    ensures same_but_flag(a, a),
{}
pub proof fn lemma_inv_same_st(h: Heap, h2: Heap)
    requires inv(h), h2.st == h.st,
    ensures inv(h2),
{
    reveal(wf_node); reveal(local_done);
    assert forall|n: int| #[trigger] alive(h2, n) implies wf_node(h2, n) && (h2.st[n].done ==> local_done(h2, n)) by {
        assert(alive(h, n));
        assert(wf_node(h, n));
        assert(forall|c: int| is_done(h, c) == is_done(h2, c));
        assert(forall|o: Option<int>| opt_done(h, o) == #[trigger] opt_done(h2, o));
        assert(forall|o: Option<int>| opt_kid(h, n, o) == #[trigger] opt_kid(h2, n, o));
        if h2.st[n].done { assert(local_done(h, n)); }
    }
}
// right after the RefMut has been taken
pub proof fn lemma_working_start(h0: Heap, h: Heap, me: int)
    requires inv(h0), alive(h0, me), h.st == h0.st, h.out == h0.out, h.locked == h0.locked.insert(me),
    ensures working(h0, h, me),
{
    lemma_inv_same_st(h0, h);
    lemma_unfold_me(h, me);
    assert forall|m: int| #[trigger] alive(h0, m) implies same_but_flag(h0.st[m], h.st[m]) by { lemma_same_but_flag_refl(h0.st[m]); }
}
pub proof fn lemma_not_locked(h: Heap, me: int)
    requires above(h, me),
    ensures !h.locked.contains(me),
{
    if h.locked.contains(me) { assert(h.st[me].depth < h.st[me].depth); }
}
pub open spec fn marked(h1: Heap, h2: Heap, me: int, mark: bool) -> bool {
    &&& h2.out == h1.out
    &&& h2.st == (if mark { h1.st.insert(me, NodeSt { done: true, ..h1.st[me] }) } else { h1.st })
}
// the function that held the RefMut of me returns: the RefMut is dropped; a node that reports None is marked done
pub proof fn lemma_finish(h0: Heap, h1: Heap, h2: Heap, me: int, mark: bool)
    requires working(h0, h1, me), above(h0, me), marked(h1, h2, me, mark), h2.locked == h1.locked.remove(me),
             mark ==> local_done_body(h1, me),
    ensures inv(h2), evolves(h0, h2),
{
    lemma_not_locked(h0, me);
    assert(h2.locked =~= h0.locked);
    let hm = Heap { st: h1.st, locked: h2.locked, out: h2.out, log: h2.log, ids: h2.ids };
    lemma_inv_same_st(h1, hm);
    if mark { lemma_mark(hm, h2, me); } else { lemma_inv_same_st(h1, h2); }
    assert forall|m: int| #[trigger] alive(h0, m) implies alive(h2, m)
            && h2.st[m].goal == h0.st[m].goal && h2.st[m].depth == h0.st[m].depth && h2.st[m].call_depth == h0.st[m].call_depth
            && h2.st[m].parent == h0.st[m].parent && (h0.st[m].on_chain ==> h2.st[m].on_chain)
            && (h0.st[m].done ==> h2.st[m].done)
            && (h0.st[m].no_backtracking ==> h2.st[m].no_backtracking)
            && (h0.locked.contains(m) ==> same_but_flag(h0.st[m], h2.st[m])) by {
        assert(alive(h1, m));
    }
}
// the same for a function that delegated to another one (no RefMut of its own)
pub proof fn lemma_finish_unlocked(h0: Heap, h1: Heap, h2: Heap, me: int, mark: bool)
    requires evolves(h0, h1), inv(h1), alive(h0, me), above(h0, me), marked(h1, h2, me, mark), h2.locked == h1.locked,
             mark ==> local_done_body(h1, me),
    ensures inv(h2), evolves(h0, h2),
{
    lemma_not_locked(h0, me);
    assert(alive(h1, me));
    if mark { lemma_mark(h1, h2, me); } else { lemma_inv_same_st(h1, h2); }
    assert forall|m: int| #[trigger] alive(h0, m) implies alive(h2, m)
            && h2.st[m].goal == h0.st[m].goal && h2.st[m].depth == h0.st[m].depth && h2.st[m].call_depth == h0.st[m].call_depth
            && h2.st[m].parent == h0.st[m].parent && (h0.st[m].on_chain ==> h2.st[m].on_chain)
            && (h0.st[m].done ==> h2.st[m].done)
            && (h0.st[m].no_backtracking ==> h2.st[m].no_backtracking)
            && (h0.locked.contains(m) ==> same_but_flag(h0.st[m], h2.st[m])) by {
        assert(alive(h1, m));
    }
}
// after make_solution_node() has added nodes
pub proof fn lemma_after_alloc(h0: Heap, h1: Heap, h2: Heap, me: int)
    requires working(h0, h1, me), inv(h2), h2.locked == h1.locked, h2.out == h1.out,
             forall|m: int| #[trigger] alive(h1, m) ==> alive(h2, m) && h2.st[m] == h1.st[m],
    ensures working(h0, h2, me),
{
    assert(alive(h1, me));
    lemma_unfold_me(h2, me);
    assert forall|m: int| #[trigger] alive(h0, m) implies alive(h2, m)
            && h2.st[m].goal == h0.st[m].goal && h2.st[m].depth == h0.st[m].depth && h2.st[m].call_depth == h0.st[m].call_depth
            && h2.st[m].parent == h0.st[m].parent && (h0.st[m].on_chain ==> h2.st[m].on_chain)
            && (h0.st[m].done ==> h2.st[m].done)
            && (h0.st[m].no_backtracking ==> h2.st[m].no_backtracking)
            && (h0.locked.contains(m) ==> same_but_flag(h0.st[m], h2.st[m])) by {
        assert(alive(h1, m));
    }
}
// after an output event
pub proof fn lemma_after_out(h0: Heap, h1: Heap, h2: Heap, me: int)
    requires working(h0, h1, me), h2.st == h1.st, h2.locked == h1.locked, h1.out <= h2.out,
    ensures working(h0, h2, me),
{
    lemma_inv_same_st(h1, h2);
    lemma_unfold_me(h2, me);
    assert forall|m: int| #[trigger] alive(h0, m) implies alive(h2, m)
            && h2.st[m].goal == h0.st[m].goal && h2.st[m].depth == h0.st[m].depth && h2.st[m].call_depth == h0.st[m].call_depth
            && h2.st[m].parent == h0.st[m].parent && (h0.st[m].on_chain ==> h2.st[m].on_chain)
            && (h0.st[m].done ==> h2.st[m].done)
            && (h0.st[m].no_backtracking ==> h2.st[m].no_backtracking)
            && (h0.locked.contains(m) ==> same_but_flag(h0.st[m], h2.st[m])) by {
        assert(alive(h1, m));
    }
}

// ---- make_solution_node ------------------------------------------------------------------------------------------------
pub open spec fn op_head(o: Operator) -> Goal { op_goals(o)[0] }
// the operator of the remaining operands: same kind, operands 1..
pub open spec fn is_tail_of(t: Operator, o: Operator) -> bool {
    &&& op_goals(t) =~= op_goals(o).subrange(1, op_goals(o).len() as int)
    &&& ((o is And && t is And) || (o is Or && t is Or))
}
pub assume_specification[ <Goal as Clone>::clone ](g: &Goal) -> (r: Goal)
    ensures r == *g;
pub open spec fn op_operand0(o: Operator) -> Goal {
    match o { Operator::And(g) => g@[0], Operator::Or(g) => g@[0], Operator::Time(g) => g@[0], Operator::Not(g) => g@[0] }
}
// R10 target for `goals[0].clone()`
#[verifier::external_body]
pub fn first_goal_clone(goals: &Vec<Goal>) -> (r: Goal)
    // ASSUMED about the data: an operand of not(..) / time(..) is never Goal::Nil (the parsers build none)
    ensures goals@.len() > 0, r == goals@[0], !(r is Nil),
{ unimplemented!() }
pub open spec fn head_has(h: Heap, n: int, s: SubstitutionSet<'static>) -> bool {
    match h.st[n].head_sn { Some(hd) => alive(h, hd) && h.st[hd].ss == s, None => false }
}
pub open spec fn is_cx(g: Rc<Goal>) -> bool { *g is ComplexGoal }
// every live RefMut belongs to an existing node
pub proof fn lemma_locked_alive(h0: Heap, h: Heap, me: int)
    requires working(h0, h, me), above(h0, me),
    ensures h.locked.subset_of(h.st.dom()),
{
    assert forall|m: int| h.locked.contains(m) implies h.st.dom().contains(m) by {
        if m != me { assert(h0.locked.contains(m)); assert(alive(h0, m)); assert(alive(h, m)); }
    }
}

// ---- the cut: SolutionNode::set_no_backtracking() ----------------------------------------------------------------------
// a is n or one of the nodes reached from n through parent links
pub open spec fn up(h: Heap, n: int, a: int) -> bool
    decreases h.st[n].depth,
{
    a == n || match h.st[n].parent {
        Some(p) => alive(h, p) && h.st[p].depth < h.st[n].depth && up(h, p, a),
        None => false,
    }
}
// m is the head node of a node strictly above n on the walk (the walk flags the head nodes of the ancestors, not the one of n itself)
pub open spec fn head_of_up(h: Heap, n: int, m: int) -> bool {
    exists|a: int| alive(h, a) && a != n && #[trigger] up(h, n, a) && h.st[a].head_sn == Some(m)
}
// What the raw-pointer walk of set_no_backtracking() does, started on node n (PROVED of its verbatim body in unit cutwalk, rule R17;
// assumed here of the call through the RefMut, R15e) -
// the flag is set on n and on every node up the parent_node links, and on the head node of each of those ancestors (not of n itself); nothing else changes.
// (`on_chain` is the ghost record of "was on the walk".)  Checked on the real function by a bounded Kani harness.
pub open spec fn walked(h: Heap, h2: Heap, n: int) -> bool {
    &&& h2.st.dom() =~= h.st.dom() && h2.locked == h.locked && h2.out == h.out
    &&& forall|m: int| #[trigger] alive(h, m) ==> h2.st[m] == NodeSt {
            no_backtracking: h.st[m].no_backtracking || up(h, n, m) || head_of_up(h, n, m),
            on_chain: h.st[m].on_chain || up(h, n, m),
            ..h.st[m]
        }
}
// the parent chain of n is well formed: its nodes exist, each link goes one level up, a head link points at an existing node
pub open spec fn chain_ok(h: Heap, n: int) -> bool {
    forall|a: int| #[trigger] up(h, n, a) ==> alive(h, a)
        && (h.st[a].parent matches Some(p) ==> alive(h, p) && h.st[p].depth < h.st[a].depth)
        && (h.st[a].head_sn matches Some(m) ==> alive(h, m))
}
// every up-node of a live node is alive
pub proof fn lemma_up_alive(h: Heap, n: int, a: int)
    requires alive(h, n), up(h, n, a),
    ensures alive(h, a),
    decreases h.st[n].depth,
{
    if a != n { match h.st[n].parent { Some(p) => { lemma_up_alive(h, p, a); }, None => {} } }
}
// the heap invariant gives it
pub proof fn lemma_chain_ok(h: Heap, n: int)
    requires inv(h), alive(h, n),
    ensures chain_ok(h, n),
{
    reveal(wf_node);
    assert forall|a: int| #[trigger] up(h, n, a) implies alive(h, a)
            && (h.st[a].parent matches Some(p) ==> alive(h, p) && h.st[p].depth < h.st[a].depth)
            && (h.st[a].head_sn matches Some(m) ==> alive(h, m)) by {
        lemma_up_alive(h, n, a);
        assert(wf_node(h, a));
    }
}
// R15e  `sn_ref.set_no_backtracking()` (a method of the node, reached through the RefMut)
#[verifier::external_body]
pub fn nd_call_set_no_backtracking<'a>(n: &Rc<RefCell<SolutionNode<'a>>>, Tracked(h): Tracked<&mut Heap>)
    requires held(*old(h), nid(*n)),
             // (the precondition under which `walked` is PROVED of the method's body, unit cutwalk)
             chain_ok(*old(h), nid(*n)),
    ensures final(h).ids == old(h).ids, walked(*old(h), *final(h), nid(*n)),
{ unimplemented!() }

// the walk stays inside the call: every node on it has the call depth of n and lies at or below that depth
pub proof fn lemma_up_in_call(h: Heap, n: int, a: int)
    requires inv(h), alive(h, n), up(h, n, a),
    ensures alive(h, a), h.st[a].call_depth == h.st[n].call_depth, h.st[a].call_depth <= h.st[a].depth,
    decreases h.st[n].depth,
{
    reveal(wf_node);
    assert(wf_node(h, n));
    if a != n {
        let p = h.st[n].parent->0;
        assert(alive(h, p));
        lemma_up_in_call(h, p, a);
    }
}
pub proof fn lemma_walk(h: Heap, h2: Heap, n: int)
    requires inv(h), alive(h, n), walked(h, h2, n), h.st[n].head_sn is None,
    ensures inv(h2), flags_kept_above(h, h2, h.st[n].call_depth),
            forall|l: Set<int>| #[trigger] ev(h, h2, l),
            h2.st[n].no_backtracking,
{
    reveal(wf_node); reveal(local_done);
    assert forall|m: int| #[trigger] alive(h2, m) implies wf_node(h2, m) && (h2.st[m].done ==> local_done(h2, m)) by {
        assert(alive(h, m));
        assert(wf_node(h, m));
        let s = h.st[m];
        assert(forall|c: int| is_done(h, c) == is_done(h2, c)) by {
            assert forall|c: int| is_done(h, c) == is_done(h2, c) by { if alive(h, c) {} }
        }
        assert(forall|o: Option<int>| opt_done(h, o) == #[trigger] opt_done(h2, o));
        assert forall|o: Option<int>| opt_kid(h, m, o) implies #[trigger] opt_kid(h2, m, o) by {
            match o { Some(c) => { assert(alive(h, c)); }, None => {} }
        }
        assert forall|o: Option<int>| opt_flagged(h, o) implies #[trigger] opt_flagged(h2, o) by {
            match o { Some(c) => { assert(alive(h, c)); }, None => {} }
        }
        if h2.st[m].on_chain {
            match s.head_sn {
                Some(x) => {
                    assert(alive(h, x));
                    if !s.on_chain { assert(up(h, n, m)); assert(m != n); assert(head_of_up(h, n, x)); }
                },
                None => {},
            }
        }
        match s.parent { Some(p) => { assert(alive(h, p)); }, None => {} }
        if h2.st[m].done { assert(local_done(h, m)); }
    }
    assert forall|m: int| #[trigger] alive(h, m) && h.st[m].depth < h.st[n].call_depth
        implies alive(h2, m) && h2.st[m].no_backtracking == h.st[m].no_backtracking by {
        if up(h, n, m) { lemma_up_in_call(h, n, m); }
        if head_of_up(h, n, m) {
            let a = choose|a: int| alive(h, a) && a != n && #[trigger] up(h, n, a) && h.st[a].head_sn == Some(m);
            lemma_up_in_call(h, n, a);
            assert(wf_node(h, a));
        }
    }
    assert forall|l: Set<int>| #[trigger] ev(h, h2, l) by {
        assert forall|m: int| #[trigger] alive(h, m) implies alive(h2, m)
            && h2.st[m].goal == h.st[m].goal && h2.st[m].depth == h.st[m].depth && h2.st[m].call_depth == h.st[m].call_depth
            && h2.st[m].parent == h.st[m].parent && (h.st[m].on_chain ==> h2.st[m].on_chain)
            && (h.st[m].done ==> h2.st[m].done)
            && (h.st[m].no_backtracking ==> h2.st[m].no_backtracking)
            && (l.contains(m) ==> same_but_flag(h.st[m], h2.st[m])) by {}
    }
    assert(up(h, n, n));
}

// R16  print!(..): one output event
#[verifier::external_body]
pub fn verif_print(Tracked(h): Tracked<&mut Heap>)
    ensures final(h).ids == old(h).ids, final(h).st == old(h).st, final(h).locked == old(h).locked, final(h).out == old(h).out + 1,
{ unimplemented!() }
// R16  print!("{}", e): one output event whose text is the value of e
#[verifier::external_body]
pub fn verif_print_text(s: &String, Tracked(h): Tracked<&mut Heap>)
    ensures final(h).ids == old(h).ids, final(h).st == old(h).st, final(h).locked == old(h).locked, final(h).out == old(h).out + 1,
            final(h).log == old(h).log.push(s@),
{ unimplemented!() }
// R2d  panic!(..) in a function whose claims are about calls that return
#[verifier::external_body]
pub fn verif_diverge() -> !
{ unimplemented!() }
// R10 target for `&terms[i]`: std panics when i is out of range
#[verifier::external_body]
pub fn vec_at<T>(v: &Vec<T>, i: usize) -> (r: &T)
    ensures i < v@.len(), *r == v@[i as int],
{ unimplemented!() }
// after the walk of a cut started on me
pub proof fn lemma_after_walk(h0: Heap, h1: Heap, h2: Heap, me: int)
    requires working(h0, h1, me), walked(h1, h2, me), inv(h2), forall|l: Set<int>| #[trigger] ev(h1, h2, l),
             flags_kept_above(h0, h1, h0.st[me].call_depth), flags_kept_above(h1, h2, h1.st[me].call_depth),
    ensures working(h0, h2, me), flags_kept_above(h0, h2, h0.st[me].call_depth),
{
    assert(alive(h1, me));
    assert(ev(h1, h2, h0.locked));
    lemma_ev_trans(h0, h1, h2, h0.locked, h0.locked);
    lemma_unfold_me(h2, me);
    assert forall|m: int| #[trigger] alive(h0, m) && h0.st[m].depth < h0.st[me].call_depth
        implies alive(h2, m) && h2.st[m].no_backtracking == h0.st[m].no_backtracking by {
        assert(alive(h1, m));
    }
}
pub open spec fn is_cut(b: BuiltInPredicate) -> bool { b.functor@ =~= seq!['!'] }
pub open spec fn is_print_list(b: BuiltInPredicate) -> bool { b.functor@ =~= "print_list"@ }
pub proof fn lemma_up_same(h: Heap, h2: Heap, n: int, a: int)
    requires up(h, n, a), alive(h, n),
             forall|m: int| #[trigger] alive(h, m) ==> alive(h2, m) && h2.st[m].parent == h.st[m].parent && h2.st[m].depth == h.st[m].depth,
    ensures up(h2, n, a),
    decreases h.st[n].depth,
{
    if a != n {
        let p = h.st[n].parent->0;
        assert(alive(h, p));
        lemma_up_same(h, h2, p, a);
    }
}
// #cut_left_goals [C02]: after a cut, the goals to its left are not re-tried.  An and-node that was on the walk of a cut has a
// flagged head node (heap invariant), and a request on a flagged node returns None and does nothing (next_solution, clause
// #cut_blocks): so the and-node's "try another solution of the head" yields nothing, wherever in the function it stands.
pub proof fn lemma_cut_left_goals(h: Heap, n: int)
    requires inv(h), alive(h, n), h.st[n].on_chain, h.st[n].head_sn is Some,
    ensures alive(h, h.st[n].head_sn->0), h.st[h.st[n].head_sn->0].no_backtracking,
{
    lemma_unfold_me(h, n);
}
pub open spec fn ssv<'a>(r: Rc<SubstitutionSet<'a>>) -> SubstitutionSet<'static> { *r }
