// ---------------------------------------------------------------------------
// spec/slist_text.rs -- the text format_slist gives for a list (C04: "a list as the text of its elements")
// ---------------------------------------------------------------------------
// one element: its bound value shown (Display, `disp`), after ", " unless it is the first element of the list; an element
// without a value - an unbound variable - shows nothing (and no separator: `[$X, a]` with $X unbound reads ", a" - what
// the code does; recorded as an observation in 8.35)
pub open spec fn sl_piece(s: SS, e: Unifiable, first: bool) -> Seq<char> {
    match ground_of(s, e) {
        Some(g) => (if first { Seq::<char>::empty() } else { ", "@ }) + disp(g),
        None => Seq::<char>::empty(),
    }
}
// the elements q[0..n), in order
pub open spec fn sl_text(s: SS, q: Seq<Unifiable>, n: int) -> Seq<char>
    decreases n,
{
    if n <= 0 { Seq::<char>::empty() } else { sl_text(s, q, n - 1) + sl_piece(s, q[n - 1], n - 1 == 0) }
}
pub proof fn lemma_sl_text_push(s: SS, q: Seq<Unifiable>, e: Unifiable)
    ensures sl_text(s, q.push(e), q.len() as int + 1) == sl_text(s, q, q.len() as int) + sl_piece(s, e, q.len() == 0),
{
    lemma_sl_text_prefix(s, q, q.push(e), q.len() as int);
}
pub proof fn lemma_sl_text_prefix(s: SS, q: Seq<Unifiable>, r: Seq<Unifiable>, n: int)
    requires 0 <= n <= q.len(), n <= r.len(), forall|k: int| 0 <= k < n ==> q[k] == r[k],
    ensures sl_text(s, q, n) == sl_text(s, r, n),
    decreases n,
{
    if n > 0 { lemma_sl_text_prefix(s, q, r, n - 1); }
}

// the text format_slist gives for a list: the text of its elements when the walk through the list ends (PROVED on the body of
// format_slist, unit slist); whatever the function returns otherwise (a list that is its own tail: uninterpreted, T10); nothing
// for a term that is not a list
pub uninterp spec fn fmt_slist_other(l: Unifiable, ss: SS) -> Seq<char>;
pub open spec fn fmt_slist(l: Unifiable, ss: SS) -> Seq<char> {
    if l is SLinkedList {
        if thru_first_def(ss, l, true) { sl_text(ss, thru_first_val(ss, l, true), thru_first_val(ss, l, true).len() as int) }
        else { fmt_slist_other(l, ss) }
    } else { Seq::<char>::empty() }
}

// R10 targets for `out += &format!("{}", t);` and `out += &format!(", {}", ground);`
#[verifier::external_body]
pub fn str_append_disp(out: &mut String, t: &Unifiable, comma: bool)
    ensures final(out)@ == old(out)@ + (if comma { ", "@ } else { Seq::<char>::empty() }) + disp(*t),
{ unimplemented!() }
