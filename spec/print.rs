// ---------------------------------------------------------------------------
// spec/print.rs -- what print writes (C04, formatting sentence)
// ---------------------------------------------------------------------------
// TRUSTED(T3): str::split(pattern).collect::<Vec<&str>>() cuts the text at the occurrences of the pattern: `split_spec`
// is left uninterpreted but for the two facts below (there is at least one piece; a text without the pattern is one piece).
pub uninterp spec fn split_spec(s: Seq<char>, sep: Seq<char>) -> Seq<Seq<char>>;
pub uninterp spec fn has_sub(s: Seq<char>, sep: Seq<char>) -> bool;
pub axiom fn axiom_split_spec(s: Seq<char>, sep: Seq<char>)
    ensures split_spec(s, sep).len() >= 1,
            !has_sub(s, sep) ==> split_spec(s, sep) =~= seq![s];

// R10 target for `format_string.split(FORMAT_SPECIFIER).collect()`
#[verifier::external_body]
pub fn str_split_collect<'a>(s: &'a String, sep: &str) -> (r: Vec<&'a str>)
    ensures r@.len() == split_spec(s@, sep@).len(),
            forall|i: int| 0 <= i < r@.len() ==> (#[trigger] r@[i])@ == split_spec(s@, sep@)[i],
{ unimplemented!() }
// R10 target for `out += split[i];` (String += &str)
#[verifier::external_body]
pub fn str_append_str(out: &mut String, s: &str)
    ensures final(out)@ == old(out)@ + s@,
{ unimplemented!() }

// The text of print: the pieces of the first string (cut at the markers) with the later strings put in between, in order:
// piece 0, string 1, piece 1, string 2, ...  - when the markers run out the remaining strings follow one another
// ("concatenates when there are none"), when the strings run out the remaining pieces do.
pub open spec fn weave(p: Seq<Seq<char>>, a: Seq<Seq<char>>, i: int, j: int) -> Seq<char>
    decreases (if i < p.len() { p.len() - i } else { 0 }) + (if j < a.len() { a.len() - j } else { 0 }),
{
    if i >= p.len() && j >= a.len() { Seq::empty() }
    else {
        (if j < a.len() && j >= 0 { a[j] } else { Seq::empty() })
        + (if i < p.len() && i >= 0 { p[i] } else { Seq::empty() })
        + weave(p, a, if i < p.len() { i + 1 } else { i }, if j < a.len() { j + 1 } else { j })
    }
}
pub open spec fn print_text(strs: Seq<Seq<char>>, marker: Seq<char>) -> Seq<char> {
    let p = split_spec(strs[0], marker);
    p[0] + weave(p, strs, 1, 1)
}
pub open spec fn views(v: Seq<String>) -> Seq<Seq<char>> { Seq::new(v.len(), |i: int| v[i]@) }

// what is shown for an argument: its bound value (the end of its binding chain), or the argument itself when it is unbound
pub open spec fn shown(ss: SS, t: Unifiable) -> Unifiable {
    match ground_of(ss, t) { Some(g) => g, None => t }
}
// R10 target for `the_strings[0].to_string()` (ToString for String is the blanket impl over Display: no specification possible)
#[verifier::external_body]
pub fn string_dup(s: &String) -> (r: String)
    ensures r@ == s@,
{ unimplemented!() }

// ---- format_solution (C01: "each formatted as `$Var = value` for the query's variables in argument order") ----------
pub open spec fn any_var(q: Seq<Unifiable>, a: int, b: int) -> bool {
    exists|j: int| a <= j < b && (#[trigger] q[j]) is LogicVar
}
pub open spec fn fmt_upto(q: Seq<Unifiable>, r: Seq<Unifiable>, k: int) -> Seq<char>
    decreases k,
{
    if k <= 1 { Seq::empty() }
    else {
        let prev = fmt_upto(q, r, k - 1);
        match q[k - 1] {
            Unifiable::LogicVar{id, name} =>
                (if any_var(q, 1, k - 1) { prev + ", "@ } else { prev }) + name@ + " = "@ + disp(r[k - 1]),
            _ => prev,
        }
    }
}
// R10 targets for `out += &format!("{} = {}", name, r_terms[i]);` and `out += &format!(", {} = {}", name, r_terms[i]);`
#[verifier::external_body]
pub fn str_append_binding(out: &mut String, name: &String, t: &Unifiable, comma: bool)
    ensures final(out)@ == (if comma { old(out)@ + ", "@ } else { old(out)@ }) + name@ + " = "@ + disp(*t),
{ unimplemented!() }
pub open spec fn fmt_is(query: Goal, result: Unifiable, text: Seq<char>) -> bool {
    match query {
        Goal::ComplexGoal(Unifiable::SComplex(q)) => match result {
            Unifiable::SComplex(r) => text == fmt_upto(q@, r@, if q@.len() >= 1 { q@.len() as int } else { 1 }),
            _ => text.len() == 0,
        },
        _ => text.len() == 0,
    }
}
pub proof fn lemma_any_var_step(q: Seq<Unifiable>, a: int, b: int)
    requires a <= b,
    ensures any_var(q, a, b + 1) == (any_var(q, a, b) || q[b] is LogicVar),
{
    if any_var(q, a, b + 1) {
        let j = choose|j: int| a <= j < b + 1 && (#[trigger] q[j]) is LogicVar;
        if j < b { assert(any_var(q, a, b)); }
    }
    if any_var(q, a, b) {
        let j = choose|j: int| a <= j < b && (#[trigger] q[j]) is LogicVar;
        assert(a <= j < b + 1 && q[j] is LogicVar);
    }
    if q[b] is LogicVar { assert(a <= b < b + 1 && q[b] is LogicVar); }
}
