// ---------------------------------------------------------------------------
// spec/lists.rs -- what make_linked_list(vbar, terms) must build (C15).
// ---------------------------------------------------------------------------

// The effective element sequence: the list branch of recreate_variables may
// pass the terminating Nil of the empty node as a last "term"; the constructor
// skips it.  (Derived from the call site, see DESIGN.md C15.)
pub open spec fn eff(s: Seq<Unifiable>) -> Seq<Unifiable> {
    if s.len() >= 1 && s[s.len() - 1] == Unifiable::Nil { s.subrange(0, s.len() - 1) } else { s }
}

pub open spec fn is_list(t: Unifiable) -> bool { t is SLinkedList }

// The documented constructor splices a trailing list in as the rest of the new
// list ([a | [b, c]] == [a, b, c]).  It does so whenever the last of two or more
// terms is a list and no Nil sentinel follows it.
pub open spec fn splices(s: Seq<Unifiable>) -> bool {
    s.len() >= 2 && is_list(s[s.len() - 1])
}

// precondition on the term vector, from the call sites
pub open spec fn mll_pre(vbar: bool, s: Seq<Unifiable>) -> bool {
    let e = eff(s);
    &&& no_nil(e)
    &&& (splices(s) ==> wf_list(s[s.len() - 1]) && node_count(s[s.len() - 1]) + s.len() < usize::MAX)
    &&& (vbar ==> e.len() >= 1 && (splices(s) || is_tail_term(e[e.len() - 1])))
}

// elements of the list that represents e[k..] (e = eff(s)) under the constructor's conventions
pub open spec fn lst_elems(vbar: bool, s: Seq<Unifiable>, k: int) -> Seq<Unifiable> {
    let e = eff(s);
    let m = e.len() as int;
    if k <= m - 1 && splices(s) { e.subrange(k, m - 1) + elems(e[m - 1]) }
    else if k <= m - 1 && vbar { e.subrange(k, m - 1) }
    else { e.subrange(k, m) }
}

pub open spec fn lst_tail(vbar: bool, s: Seq<Unifiable>, k: int) -> Option<Unifiable> {
    let e = eff(s);
    let m = e.len() as int;
    if k <= m - 1 && splices(s) { tail_of(e[m - 1]) }
    else if k <= m - 1 && vbar { Some(e[m - 1]) }
    else { None }
}

pub open spec fn lst_count(vbar: bool, s: Seq<Unifiable>, k: int) -> int {
    let e = eff(s);
    let m = e.len() as int;
    if k <= m - 1 && splices(s) { m - 1 - k + node_count(e[m - 1]) } else { m - k }
}

// what a caller that wants *exactly* the given elements must pass:
// no tail bar and nothing that the constructor would splice.
pub open spec fn exact_elems_pre(s: Seq<Unifiable>) -> bool {
    !splices(s) && no_nil(eff(s))
}

pub open spec fn imin(a: int, b: int) -> int { if a < b { a } else { b } }

// cons of an element in front of a well-formed list
pub proof fn lemma_cons_elem(x: Unifiable, tail: Unifiable, num: usize)
    requires wf_list(tail), x != Unifiable::Nil, num == node_count(tail) + 1,
    ensures
        wf_list(Unifiable::SLinkedList{term: Box::new(x), next: Box::new(tail), count: num, tail_var: false}),
        elems(Unifiable::SLinkedList{term: Box::new(x), next: Box::new(tail), count: num, tail_var: false})
            == seq![x] + elems(tail),
        tail_of(Unifiable::SLinkedList{term: Box::new(x), next: Box::new(tail), count: num, tail_var: false})
            == tail_of(tail),
        node_count(Unifiable::SLinkedList{term: Box::new(x), next: Box::new(tail), count: num, tail_var: false})
            == node_count(tail) + 1,
{
}
// The list holding exactly the elements q[k..] (no tail variable): the value every
// engine-built list must have (C15), as a spec-level term.
pub open spec fn list_of(q: Seq<Unifiable>, k: int) -> Unifiable
    decreases q.len() - k,
{
    if k >= q.len() || k < 0 { empty_node() }
    else {
        Unifiable::SLinkedList{term: Box::new(q[k]), next: Box::new(list_of(q, k + 1)),
                               count: (q.len() - k) as usize, tail_var: false}
    }
}

pub proof fn lemma_list_of(q: Seq<Unifiable>, k: int)
    requires no_nil(q), 0 <= k <= q.len(), q.len() <= usize::MAX,
    ensures
        wf_list(list_of(q, k)),
        elems(list_of(q, k)) == q.subrange(k, q.len() as int),
        tail_of(list_of(q, k)) is None,
        node_count(list_of(q, k)) == q.len() - k,
    decreases q.len() - k,
{
    if k < q.len() {
        lemma_list_of(q, k + 1);
        assert(q.subrange(k, q.len() as int) =~= seq![q[k]] + q.subrange(k + 1, q.len() as int));
    } else {
        assert(q.subrange(k, q.len() as int) =~= Seq::<Unifiable>::empty());
    }
}

// pushing the Nil sentinel after q gives a vector whose effective elements are q
pub proof fn lemma_eff_sentinel(q: Seq<Unifiable>)
    requires q.len() >= 1, no_nil(q),
    ensures eff(q.push(Unifiable::Nil)) == q, exact_elems_pre(q.push(Unifiable::Nil)), mll_pre(false, q.push(Unifiable::Nil)),
{
    let s = q.push(Unifiable::Nil);
    assert(s.subrange(0, s.len() - 1) =~= q);
}

pub proof fn lemma_eff_empty()
    ensures eff(Seq::<Unifiable>::empty()) == Seq::<Unifiable>::empty(),
            exact_elems_pre(Seq::<Unifiable>::empty()), mll_pre(false, Seq::<Unifiable>::empty()),
{
}

// what make_linked_list promises, as one predicate (a trigger for lemma_rename_list)
pub open spec fn mll_post(vbar: bool, s: Seq<Unifiable>, res: Unifiable) -> bool {
    &&& wf_list(res)
    &&& elems(res) =~= lst_elems(vbar, s, 0)
    &&& tail_of(res) == lst_tail(vbar, s, 0)
}
