// ---------------------------------------------------------------------------
// spec/cutwalk.rs -- the walk of the cut, SolutionNode::set_no_backtracking(), on its verbatim (unsafe) body (unit cutwalk, rule R17)
// ---------------------------------------------------------------------------
// a handle on the node a raw pointer points to (`Rc<RefCell<_>>::as_ptr()`)
pub struct NodePtr { pub id: Ghost<int> }
#[verifier::external_body]
pub fn nd_as_ptr<'a>(n: &Rc<RefCell<SolutionNode<'a>>>) -> (r: NodePtr)
    ensures r.id@ == nid(*n),
{ unimplemented!() }
// `self.no_backtracking = true;` - self is the node verif_me; it is on the walk (ghost bit on_chain)
#[verifier::external_body]
pub fn nd_self_set_flag(Ghost(me): Ghost<int>, Tracked(h): Tracked<&mut Heap>)
    requires alive(*old(h), me),
    ensures final(h).ids == old(h).ids, final(h).locked == old(h).locked, final(h).out == old(h).out, final(h).log == old(h).log,
            final(h).st == old(h).st.insert(me, NodeSt { no_backtracking: true, on_chain: true, ..old(h).st[me] }),
{ unimplemented!() }
// `&self.parent_node`
#[verifier::external_body]
pub fn nd_self_parent<'a, 'b>(s: &'b SolutionNode<'a>, Ghost(me): Ghost<int>, Tracked(h): Tracked<&Heap>) -> (r: &'b Option<Rc<RefCell<SolutionNode<'a>>>>)
    requires alive(*h, me),
    ensures link_is(*r, h.st[me].parent),
{ unimplemented!() }
// `(*raw).no_backtracking = true;` on a node of the parent chain (it is on the walk: on_chain) / on a head node
#[verifier::external_body]
pub fn nd_raw_set_flag_chain(p: &NodePtr, Tracked(h): Tracked<&mut Heap>)
    requires alive(*old(h), p.id@),
    ensures final(h).ids == old(h).ids, final(h).locked == old(h).locked, final(h).out == old(h).out, final(h).log == old(h).log,
            final(h).st == old(h).st.insert(p.id@, NodeSt { no_backtracking: true, on_chain: true, ..old(h).st[p.id@] }),
{ unimplemented!() }
#[verifier::external_body]
pub fn nd_raw_set_flag(p: &NodePtr, Tracked(h): Tracked<&mut Heap>)
    requires alive(*old(h), p.id@),
    ensures final(h).ids == old(h).ids, final(h).locked == old(h).locked, final(h).out == old(h).out, final(h).log == old(h).log,
            final(h).st == old(h).st.insert(p.id@, NodeSt { no_backtracking: true, ..old(h).st[p.id@] }),
{ unimplemented!() }
// `&(*raw).head_sn` / `&(*raw).parent_node`
#[verifier::external_body]
pub fn nd_raw_head_sn<'a, 'b>(p: &NodePtr, Tracked(h): Tracked<&Heap>) -> (r: &'b Option<Rc<RefCell<SolutionNode<'a>>>>)
    requires alive(*h, p.id@),
    ensures link_is(*r, h.st[p.id@].head_sn),
{ unimplemented!() }
#[verifier::external_body]
pub fn nd_raw_parent<'a, 'b>(p: &NodePtr, Tracked(h): Tracked<&Heap>) -> (r: &'b Option<Rc<RefCell<SolutionNode<'a>>>>)
    requires alive(*h, p.id@),
    ensures link_is(*r, h.st[p.id@].parent),
{ unimplemented!() }

// a is on the parent chain of n, at or below c
pub open spec fn upto(h: Heap, n: int, c: int, a: int) -> bool { up(h, n, a) && up(h, a, c) }
// the state of node m when the walk started on n has reached c
pub open spec fn walked_to(h: Heap, h2: Heap, n: int, c: int) -> bool {
    &&& h2.st.dom() =~= h.st.dom() && h2.locked == h.locked && h2.out == h.out
    &&& forall|m: int| #[trigger] alive(h, m) ==> h2.st[m] == NodeSt {
            no_backtracking: h.st[m].no_backtracking || upto(h, n, c, m) || (exists|a: int| alive(h, a) && a != n && #[trigger] upto(h, n, c, a) && h.st[a].head_sn == Some(m)),
            on_chain: h.st[m].on_chain || upto(h, n, c, m),
            ..h.st[m]
        }
}
pub proof fn lemma_up_refl(h: Heap, n: int)
    ensures up(h, n, n),
{
}
pub proof fn lemma_up_trans(h: Heap, n: int, a: int, b: int)
    requires up(h, n, a), up(h, a, b),
    ensures up(h, n, b),
    decreases h.st[n].depth,
{
    if a != n {
        match h.st[n].parent { Some(p) => { lemma_up_trans(h, p, a, b); }, None => {} }
    }
}
// one step up: p is the parent of c
pub proof fn lemma_up_step(h: Heap, n: int, c: int, p: int)
    requires up(h, n, c), h.st[c].parent == Some(p), alive(h, p), h.st[p].depth < h.st[c].depth,
    ensures up(h, n, p), up(h, c, p),
{
    lemma_up_refl(h, p);
    assert(up(h, c, p));
    lemma_up_trans(h, n, c, p);
}
// the nodes between a and its parent p: a itself and p
pub proof fn lemma_up_parent_cases(h: Heap, a: int, p: int, x: int)
    requires h.st[a].parent == Some(p), up(h, a, x),
    ensures x == a || up(h, p, x),
{
}
// the chain from n up to p is the chain up to c, and p
pub proof fn lemma_upto_step(h: Heap, n: int, c: int, p: int, a: int)
    requires up(h, n, c), h.st[c].parent == Some(p), alive(h, p), h.st[p].depth < h.st[c].depth,
    ensures upto(h, n, p, a) == (upto(h, n, c, a) || a == p),
    decreases h.st[n].depth,
{
    lemma_up_step(h, n, c, p);
    lemma_up_refl(h, p);
    if upto(h, n, c, a) { lemma_up_trans(h, a, c, p); }
    if a == p { }
    if upto(h, n, p, a) && a != p && !upto(h, n, c, a) {
        // a is on the chain of n, at or below p, and not p: then it is at or below c
        lemma_below_parent(h, n, c, p, a);
    }
}
// on one chain: a node at or below p = parent(c), other than p, is at or below c
pub proof fn lemma_below_parent(h: Heap, n: int, c: int, p: int, a: int)
    requires up(h, n, c), up(h, n, a), up(h, a, p), a != p, h.st[c].parent == Some(p),
    ensures up(h, a, c),
    decreases h.st[n].depth,
{
    if n == c {
        // a is on the chain of c and below p: only c itself
        if a != c { match h.st[c].parent { Some(q) => { assert(up(h, q, a)); lemma_above_not_below(h, p, a); }, None => {} } }
        lemma_up_refl(h, c);
    } else if a == n {
    } else {
        match h.st[n].parent { Some(q) => { lemma_below_parent(h, q, c, p, a); }, None => {} }
    }
}
// a node on the chain of p, other than p, is strictly above p: p is not on ITS chain
pub proof fn lemma_above_not_below(h: Heap, p: int, a: int)
    requires up(h, p, a), a != p, up(h, a, p),
    ensures false,
    decreases h.st[p].depth,
{
    lemma_depth_up(h, p, a);
    lemma_depth_up(h, a, p);
}
pub proof fn lemma_depth_up(h: Heap, n: int, a: int)
    requires up(h, n, a),
    ensures h.st[a].depth <= h.st[n].depth, a != n ==> h.st[a].depth < h.st[n].depth,
    decreases h.st[n].depth,
{
    if a != n { match h.st[n].parent { Some(p) => { lemma_depth_up(h, p, a); }, None => {} } }
}
// at the top of the chain (no parent) everything on the chain of n is at or below it
pub proof fn lemma_upto_top(h: Heap, n: int, c: int, a: int)
    requires up(h, n, c), h.st[c].parent is None, up(h, n, a),
    ensures up(h, a, c),
    decreases h.st[n].depth,
{
    if a == n { }
    else { match h.st[n].parent { Some(q) => { if n == c { } else { lemma_upto_top(h, q, c, a); } }, None => {} } }
}
