"""Minimal Rust lexer and item finder used by extract.py.

Only what is needed to copy items *verbatim* out of /repo/src and to find
syntactic anchor points (signature end, loop heads, statements).  It is not a
parser: it tracks strings, chars, lifetimes, comments and bracket depth.
"""
import re

IDENT_START = re.compile(r'[A-Za-z_]')
IDENT_CONT = re.compile(r'[A-Za-z0-9_]')


class Tok:
    __slots__ = ('kind', 'text', 'start', 'end')

    def __init__(self, kind, text, start, end):
        self.kind = kind
        self.text = text
        self.start = start
        self.end = end

    def __repr__(self):
        return 'Tok(%s,%r,%d)' % (self.kind, self.text, self.start)


def lex(src):
    """Return list of tokens. kinds: ws, comment, doc, str, char, life, id, num, p"""
    toks = []
    i = 0
    n = len(src)
    while i < n:
        c = src[i]
        if c in ' \t\r\n':
            j = i
            while j < n and src[j] in ' \t\r\n':
                j += 1
            toks.append(Tok('ws', src[i:j], i, j))
            i = j
            continue
        if src.startswith('//', i):
            j = src.find('\n', i)
            if j < 0:
                j = n
            text = src[i:j]
            kind = 'doc' if (text.startswith('///') and not text.startswith('////')) or text.startswith('//!') else 'comment'
            toks.append(Tok(kind, text, i, j))
            i = j
            continue
        if src.startswith('/*', i):
            depth = 1
            j = i + 2
            while j < n and depth > 0:
                if src.startswith('/*', j):
                    depth += 1
                    j += 2
                elif src.startswith('*/', j):
                    depth -= 1
                    j += 2
                else:
                    j += 1
            toks.append(Tok('comment', src[i:j], i, j))
            i = j
            continue
        # raw strings r"..." r#"..."#  (and br)
        m = re.match(r'b?r(#*)"', src[i:i + 40])
        if m:
            hashes = m.group(1)
            endpat = '"' + hashes
            j = src.find(endpat, i + m.end())
            j = n if j < 0 else j + len(endpat)
            toks.append(Tok('str', src[i:j], i, j))
            i = j
            continue
        if c == '"' or (c == 'b' and i + 1 < n and src[i + 1] == '"'):
            j = i + (2 if c == 'b' else 1)
            while j < n:
                if src[j] == '\\':
                    j += 2
                    continue
                if src[j] == '"':
                    j += 1
                    break
                j += 1
            toks.append(Tok('str', src[i:j], i, j))
            i = j
            continue
        if c == "'":
            # char literal or lifetime
            # char: '\x' forms or 'c' (single char then ')
            if i + 1 < n and src[i + 1] == '\\':
                j = i + 2
                # escape: consume until closing '
                while j < n and src[j] != "'":
                    j += 1
                j += 1
                toks.append(Tok('char', src[i:j], i, j))
                i = j
                continue
            if i + 2 < n and src[i + 2] == "'":
                toks.append(Tok('char', src[i:i + 3], i, i + 3))
                i += 3
                continue
            # lifetime
            j = i + 1
            while j < n and IDENT_CONT.match(src[j]):
                j += 1
            toks.append(Tok('life', src[i:j], i, j))
            i = j
            continue
        if IDENT_START.match(c):
            j = i
            while j < n and IDENT_CONT.match(src[j]):
                j += 1
            toks.append(Tok('id', src[i:j], i, j))
            i = j
            continue
        if c.isdigit():
            j = i
            while j < n and (IDENT_CONT.match(src[j]) or (src[j] == '.' and j + 1 < n and src[j + 1].isdigit())):
                j += 1
            toks.append(Tok('num', src[i:j], i, j))
            i = j
            continue
        toks.append(Tok('p', c, i, i + 1))
        i += 1
    return toks


OPEN = {'(': ')', '[': ']', '{': '}'}
CLOSE = {')': '(', ']': '[', '}': '{'}


def sig(toks):
    """indices of significant tokens (not ws/comment/doc)"""
    return [k for k, t in enumerate(toks) if t.kind not in ('ws', 'comment', 'doc')]


def match_close(toks, k):
    """toks[k] is an opening bracket token; return index of matching close."""
    depth = 0
    for j in range(k, len(toks)):
        t = toks[j]
        if t.kind == 'p':
            if t.text in OPEN:
                depth += 1
            elif t.text in CLOSE:
                depth -= 1
                if depth == 0:
                    return j
    raise ValueError('unbalanced bracket at offset %d' % toks[k].start)


def next_sig(toks, k):
    j = k + 1
    while j < len(toks) and toks[j].kind in ('ws', 'comment', 'doc'):
        j += 1
    return j


def prev_sig(toks, k):
    j = k - 1
    while j >= 0 and toks[j].kind in ('ws', 'comment', 'doc'):
        j -= 1
    return j


class Item:
    def __init__(self, kind, name, owner, start, end, toks_range, attrs_start):
        self.kind = kind        # fn, enum, struct, type, static, const, macro
        self.name = name
        self.owner = owner      # impl type name for methods, else None
        self.start = start      # byte offset where item text starts (incl. pub)
        self.end = end          # byte offset after item
        self.toks_range = toks_range
        self.attrs_start = attrs_start  # byte offset incl. preceding attributes


def find_items(src):
    toks = lex(src)
    items = []
    n = len(toks)

    impl_headers = {}

    def scan(lo, hi, owner, in_impl):
        k = lo
        while k < hi:
            t = toks[k]
            if t.kind == 'id' and t.text == 'mod':
                # skip module body entirely (tests)
                j = next_sig(toks, k)  # name
                j = next_sig(toks, j)
                if j < hi and toks[j].kind == 'p' and toks[j].text == '{':
                    k = match_close(toks, j) + 1
                    continue
                k = j + 1
                continue
            if t.kind == 'id' and t.text == 'impl' and not in_impl:
                # header up to '{'
                j = k + 1
                header = []
                while j < hi and not (toks[j].kind == 'p' and toks[j].text == '{'):
                    if toks[j].kind not in ('ws', 'comment', 'doc'):
                        header.append(toks[j])
                    j += 1
                close = match_close(toks, j)
                texts = [h.text for h in header]
                if 'for' in texts:
                    # trait impl: owner "Trait for Type"
                    idx = texts.index('for')
                    tyname = [h.text for h in header[idx + 1:] if h.kind == 'id']
                    trname = [h.text for h in header[:idx] if h.kind == 'id']
                    own = '%s as %s' % (tyname[0] if tyname else '?', trname[-1] if trname else '?')
                else:
                    ids = [h.text for h in header if h.kind == 'id']
                    own = ids[0] if ids else '?'
                    # skip generic param names like impl<'a> Foo<'a>
                    impl_headers[own] = src[toks[k].start:toks[j].start].strip()
                scan(j + 1, close, own, True)
                k = close + 1
                continue
            if t.kind == 'id' and t.text in ('fn', 'enum', 'struct', 'type', 'static', 'const'):
                # 'const' may be 'const fn' - ignore that case (not used in repo)
                kind = t.text
                j = next_sig(toks, k)
                if j >= hi or toks[j].kind != 'id':
                    k += 1
                    continue
                name = toks[j].text
                if kind == 'static' and name == 'mut':
                    j = next_sig(toks, j)
                    name = toks[j].text
                # item start: back over pub / pub(crate)
                s = k
                p = prev_sig(toks, k)
                if p >= lo and toks[p].kind == 'p' and toks[p].text == ')':
                    # pub(crate)
                    q = p
                    while q >= lo and not (toks[q].kind == 'id' and toks[q].text == 'pub'):
                        q -= 1
                    if q >= lo:
                        s = q
                        p = prev_sig(toks, q)
                elif p >= lo and toks[p].kind == 'id' and toks[p].text == 'pub':
                    s = p
                    p = prev_sig(toks, p)
                # attributes: sequences of #[...]
                a = s
                while p >= lo and toks[p].kind == 'p' and toks[p].text == ']':
                    # find matching '['
                    depth = 0
                    q = p
                    while q >= lo:
                        if toks[q].kind == 'p' and toks[q].text == ']':
                            depth += 1
                        elif toks[q].kind == 'p' and toks[q].text == '[':
                            depth -= 1
                            if depth == 0:
                                break
                        q -= 1
                    h = prev_sig(toks, q)
                    if h >= lo and toks[h].kind == 'p' and toks[h].text == '#':
                        a = h
                        p = prev_sig(toks, h)
                    else:
                        break
                # item end
                if kind in ('fn', 'enum', 'struct'):
                    j2 = j
                    # find first '{' or ';' at paren depth 0
                    depth = 0
                    while j2 < hi:
                        tt = toks[j2]
                        if tt.kind == 'p':
                            if tt.text in '([':
                                depth += 1
                            elif tt.text in ')]':
                                depth -= 1
                            elif tt.text == '{' and depth == 0:
                                break
                            elif tt.text == ';' and depth == 0:
                                break
                        j2 += 1
                    if j2 >= hi:
                        k += 1
                        continue
                    if toks[j2].text == '{':
                        e = match_close(toks, j2)
                    else:
                        e = j2
                else:
                    j2 = j
                    depth = 0
                    while j2 < hi:
                        tt = toks[j2]
                        if tt.kind == 'p':
                            if tt.text in OPEN:
                                depth += 1
                            elif tt.text in CLOSE:
                                depth -= 1
                            elif tt.text == ';' and depth == 0:
                                break
                        j2 += 1
                    e = j2
                items.append(Item(kind, name, owner, toks[s].start, toks[e].end, (s, e + 1), toks[a].start))
                k = e + 1
                continue
            if t.kind == 'id' and t.text == 'macro_rules':
                j = next_sig(toks, k)  # !
                j = next_sig(toks, j)  # name
                name = toks[j].text
                j = next_sig(toks, j)
                e = match_close(toks, j)
                items.append(Item('macro', name, None, t.start, toks[e].end, (k, e + 1), t.start))
                k = e + 1
                continue
            k += 1

    scan(0, n, None, False)
    for it in items:
        it.impl_header = impl_headers.get(it.owner) if it.owner else None
    return toks, items
