// ---------------------------------------------------------------------------
// spec/idsets_rename.rs -- from the renaming map of a clause copy to an interval of ids (unit rename)
// ---------------------------------------------------------------------------
pub proof fn lemma_vars_in_interval(t: Unifiable, m: VM, lo: nat, hi: nat)
    requires vars_in(t, m), all_fresh(m, lo, hi),
    ensures below(t, hi as int + 1), ids_above(t, lo as int),
    decreases t,
{
    match t {
        Unifiable::SComplex(ts) => { lemma_vars_in_seq_interval(ts@, m, lo, hi); },
        Unifiable::SLinkedList{term, next, count, tail_var} => { lemma_vars_in_interval(*term, m, lo, hi); lemma_vars_in_interval(*next, m, lo, hi); },
        Unifiable::SFunction{name, terms} => { lemma_vars_in_seq_interval(terms@, m, lo, hi); },
        _ => {},
    }
}
pub proof fn lemma_vars_in_seq_interval(s: Seq<Unifiable>, m: VM, lo: nat, hi: nat)
    requires vars_in_seq(s, m), all_fresh(m, lo, hi),
    ensures below_seq(s, hi as int + 1), ids_above_seq(s, lo as int),
    decreases s,
{
    if s.len() > 0 { lemma_vars_in_interval(s[0], m, lo, hi); lemma_vars_in_seq_interval(s.drop_first(), m, lo, hi); }
}
pub proof fn lemma_good_goal_interval(g: Goal, m: VM, lo: nat, hi: nat)
    requires good_goal(g, m), all_fresh(m, lo, hi),
    ensures goal_below(g, hi as int + 1), goal_above(g, lo as int),
    decreases g,
{
    match g {
        Goal::OperatorGoal(x) => { assert(gl_goals(x) == op_goals(x)); lemma_good_goals_interval(op_goals(x), m, lo, hi); },
        Goal::BuiltInGoal(x) => { if let Some(t) = x.terms { lemma_vars_in_seq_interval(t@, m, lo, hi); } },
        Goal::ComplexGoal(x) => { lemma_vars_in_interval(x, m, lo, hi); },
        Goal::Nil => {},
    }
}
pub proof fn lemma_good_goals_interval(s: Seq<Goal>, m: VM, lo: nat, hi: nat)
    requires good_goals(s, m), all_fresh(m, lo, hi),
    ensures goals_below(s, hi as int + 1), goals_above(s, lo as int),
    decreases s,
{
    if s.len() > 0 { lemma_good_goal_interval(s[0], m, lo, hi); lemma_good_goals_interval(s.drop_first(), m, lo, hi); }
}
pub proof fn lemma_good_rule_interval(r: Rule, m: VM, lo: nat, hi: nat)
    requires good_rule(r, m), all_fresh(m, lo, hi),
    ensures rule_ids_in(r, lo as int, hi as int),
{
    lemma_vars_in_interval(r.head, m, lo, hi);
    lemma_good_goal_interval(r.body, m, lo, hi);
}
