"""microharmless.py [name-substring] -- applies each ONE-LINE BEHAVIOUR-PRESERVING edit of selftest/micro_harmless.json to a scratch copy of /repo
(under /tmp, removed afterwards) and verifies the units that prove the edited function: every line must read `errors=0`, or an
`undecided=` (tool limit / lost anchor = exit 2).  A line with errors is a FALSE ALARM of the contracts (DESIGN 8.47, 8.48).
Run by hand after changing a spec file; not a registered check."""
import sys, os, subprocess, shutil, json, hashlib, glob
from concurrent.futures import ThreadPoolExecutor
cases = json.load(open('/verif/selftest/micro_harmless.json'))
flt = sys.argv[1] if len(sys.argv) > 1 else ''
for c in cases:
    if flt not in c['name']: continue
    d = '/tmp/microharmless_wt_' + c['name']
    shutil.rmtree(d, ignore_errors=True); os.makedirs(d)
    subprocess.run('cp -r /repo/src /repo/Cargo.toml /repo/Cargo.lock %s/' % d, shell=True)
    p = os.path.join(d, 'src', c['file']); s = open(p).read()
    if c['old'] not in s: print(c['name'], 'PATTERN NOT FOUND'); continue
    open(p, 'w').write(s.replace(c['old'], c['new'], 1))
    def run(u):
        r = subprocess.run(['python3', 'tools/vshow.py', u, '--repo', d], capture_output=True, text=True, cwd='/verif')
        lines = [l for l in r.stdout.split('\n') if l.startswith('unit ') or l.startswith('  - ')]
        return u, lines
    with ThreadPoolExecutor(3) as ex:
        for u, lines in ex.map(run, c['units']):
            # (unit contexts_b fails two obligations on purpose: the known findings of C20)
            fails = [l for l in r_lines(u) if l.startswith('  - ')] if False else [l for l in lines if l.startswith('  - ')]
            bad = any('errors=' in l and 'errors=0' not in l for l in lines) and not (u == 'contexts_b' and all(('argument_not_infix' in l or 'argument_as_alone' in l) for l in fails) and 'errors=2' in ' '.join(lines))
            print('FALSE-ALARM' if bad else 'ok        ', c['name'], '|', ' ; '.join(l.strip()[:150] for l in lines[:3]), flush=True)
    shutil.rmtree(d, ignore_errors=True)
    h = hashlib.sha1(os.path.abspath(d).encode()).hexdigest()[:8]
    for q in glob.glob('/verif/build/*_' + h): shutil.rmtree(q, ignore_errors=True)
