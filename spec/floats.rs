// ---------------------------------------------------------------------------
// spec/floats.rs -- the integer-to-float cast (C12, C14)
// ---------------------------------------------------------------------------

// the value of `i as f64` (IEEE round-to-nearest conversion), kept uninterpreted
pub uninterp spec fn i2f(i: i64) -> f64;

// TRUSTED(T6): the exec cast `i as f64` is a function of `i` (rule R12 routes every such cast here;
// Verus itself leaves the cast's result unconstrained)
#[verifier::external_body]
pub fn i64_to_f64(i: i64) -> (r: f64)
    ensures r == i2f(i),
{ i as f64 }

