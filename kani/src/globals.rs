//! C10 (fresh ids) and C22 (query constructors re-establish the initial global state).
//! Loop-free harnesses over full-domain scalars: complete proofs, not bounded stand-ins.
use suiron::*;

/// next_id / set_var_id / get_var_id / clear_id contracts.
#[kani::proof]
fn c10_counter_contract() {
    let s: usize = kani::any();
    kani::assume(s < usize::MAX - 1);       // overflow of the id counter is outside the claim
    set_var_id(s);
    kani::cover!(true);
    assert!(get_var_id() == s);
    let a = next_id();
    let b = next_id();
    assert!(a == s + 1, "next_id returns the successor");
    assert!(b == s + 2, "consecutive ids are consecutive");
    assert!(a != b && a != 0 && b != 0, "fresh ids are distinct and non-zero");
    assert!(a > s && b > s, "fresh ids exceed every id handed out before");
    assert!(get_var_id() == b);
    clear_id();
    assert!(get_var_id() == 0);
}

/// start_query() from an arbitrary prior global state.
#[kani::proof]
fn c22_start_query_resets() {
    if kani::any() { stop_query(); }
    set_var_id(kani::any());
    start_query();
    assert!(!query_stopped(), "start_query clears the stop flag");
    assert!(get_var_id() == 0, "start_query resets the id counter");
}

/// stop_query / query_stopped are a plain flag.
#[kani::proof]
fn c22_stop_flag() {
    start_query();
    assert!(!query_stopped());
    stop_query();
    assert!(query_stopped());
    let before = get_var_id();
    stop_query();
    assert!(get_var_id() == before, "the stop flag and the id counter are independent");
}

// ---- make_query, verified modularly: the renaming callee is replaced by a stub -------------
fn stub_recreate(this: Unifiable, _vars: &mut VarMap) -> Unifiable {
    // frame assumption checked by tools (scan): renaming never writes the stop flag.
    // It does advance the id counter; model that by one arbitrary call to next_id.
    if kani::any() { let _ = next_id(); }
    this
}
fn stub_format(_args: std::fmt::Arguments<'_>) -> String { String::new() }
fn stub_random_state() -> std::hash::RandomState {
    unsafe { std::mem::transmute::<(u64, u64), std::hash::RandomState>((0u64, 0u64)) }
}

#[kani::proof]
#[kani::stub(suiron::Unifiable::recreate_variables, stub_recreate)]
#[kani::stub(alloc::fmt::format, stub_format)]
#[kani::stub(std::hash::RandomState::new, stub_random_state)]
#[kani::unwind(3)]
fn c22_make_query_resets() {
    // arbitrary prior global state: an earlier query may have timed out and used ids
    if kani::any() { stop_query(); }
    let prior: usize = kani::any();
    kani::assume(prior < usize::MAX - 4);
    set_var_id(prior);
    let q = make_query(vec![Unifiable::Atom(String::new())]);
    assert!(!query_stopped(), "a query constructor must clear the stop flag");
    assert!(get_var_id() <= 1, "a query constructor must restart variable ids");
    std::mem::forget(q);
}

// ---- start_query_timer: the thread is abstracted away, the flag reset is not -----------------
// ThreadTimer::new() spawns a thread and start() sends it a message: both are replaced by stubs
// (Kani has no threads).  What remains under check is what start_query_timer itself does to the
// global state before it arms the timer.
fn stub_timer_new() -> thread_timer::ThreadTimer {
    // never dereferenced: start() is stubbed too and the harness forgets the value
    unsafe { std::mem::MaybeUninit::<thread_timer::ThreadTimer>::zeroed().assume_init() }
}
fn stub_timer_start<F>(_t: &thread_timer::ThreadTimer, _dur: std::time::Duration, _f: F)
        -> Result<(), thread_timer::TimerStartError>
        where F: FnOnce() + Send + 'static {
    std::mem::forget(_f);
    Ok(())
}

#[kani::proof]
#[kani::stub(thread_timer::ThreadTimer::new, stub_timer_new)]
#[kani::stub(thread_timer::ThreadTimer::start, stub_timer_start)]
#[kani::stub(alloc::fmt::format, stub_format)]
fn c22_start_query_timer_resets() {
    if kani::any() { stop_query(); }
    let prior: usize = kani::any();
    set_var_id(prior);
    let t = start_query_timer(kani::any());
    assert!(!query_stopped(), "starting the query timer must clear the stop flag of an earlier query");
    assert!(get_var_id() == prior, "starting the timer does not touch the id counter");
    std::mem::forget(t);
}

// ---- parse_query: the string-driven query constructor ----------------------------------------
// NOT REGISTERED (feature `pq`): neither harness finished in 15 min / 9.5 GB (drop glue of the parsed
// term); parse_query is decided in Verus instead (clause #query_from_constructor, unit parsers).
#[cfg(feature = "pq")]
mod pq {
use super::*;
// The parser proper (parse_complex) is replaced by a stub that accepts or rejects the text and returns
// an arbitrary one-term complex; what remains under check is what parse_query itself does with the
// global state on the way to a query: EVERY text it turns into a query - with or without variables,
// with or without the final period - must leave the initial global state behind.
fn stub_parse_complex(_s: &str) -> Result<Unifiable, String> {
    if kani::any() { Ok(Unifiable::SComplex(vec![Unifiable::Atom(String::new())])) } else { Err(String::new()) }
}

fn parse_query_resets(text: &str) {
    if kani::any() { stop_query(); }
    let prior: usize = kani::any();
    kani::assume(prior < usize::MAX - 4);
    set_var_id(prior);
    match parse_query(text) {
        Ok(q) => {
            kani::cover!(true);
            assert!(!query_stopped(), "a query constructor must clear the stop flag");
            assert!(get_var_id() <= 1, "a query constructor must restart variable ids");
            std::mem::forget(q);
        },
        Err(e) => { std::mem::forget(e); },
    }
}

#[kani::proof]
#[kani::stub(suiron::s_complex::parse_complex, stub_parse_complex)]
#[kani::stub(suiron::Unifiable::recreate_variables, stub_recreate)]
#[kani::stub(alloc::fmt::format, stub_format)]
#[kani::stub(std::hash::RandomState::new, stub_random_state)]
#[kani::unwind(12)]
fn c22_parse_query_resets_ground() { parse_query_resets("go"); }

#[kani::proof]
#[kani::stub(suiron::s_complex::parse_complex, stub_parse_complex)]
#[kani::stub(suiron::Unifiable::recreate_variables, stub_recreate)]
#[kani::stub(alloc::fmt::format, stub_format)]
#[kani::stub(std::hash::RandomState::new, stub_random_state)]
#[kani::unwind(12)]
fn c22_parse_query_resets_var() { parse_query_resets("p($X)."); }
} // mod pq
