//! C22 / C10: global state (stop flag, id counter) and the query constructors.
use suiron::*;

fn field<'a>(case: &'a str, key: &str) -> &'a str {
    for p in case.split(';') { if let Some(v) = p.strip_prefix(&format!("{}=", key)) { return v; } }
    ""
}

pub fn enum_make_query(_s: u64) -> Vec<String> {
    let mut v = vec![];
    for flag in ["f", "t"] { for id in [0usize, 1, 7, 1000] { for ctor in ["make_query", "parse_query", "parse_query_ground", "start_query", "timer"] {
        v.push(format!("flag={};id={};ctor={}", flag, id, ctor));
    } } }
    // the timer armed by solve() must not outlive the call (it would stop a LATER query): checked once, it costs 1.2 s
    v.push("flag=f;id=0;ctor=solve_exhausted".to_string());
    v
}

/// After an arbitrary earlier history (summarised by the two globals), build a query with a
/// query constructor and run it against a one-fact knowledge base: it must answer as in a fresh process.
pub fn check_make_query(case: &str) -> Result<(), String> {
    let id: usize = field(case, "id").parse().unwrap();
    // earlier history
    start_query();
    set_var_id(id);
    if field(case, "flag") == "t" { stop_query(); }
    let mut kb = KnowledgeBase::new();
    let fact = parse_rule("p(a).").unwrap();
    add_rules!(&mut kb, fact);
    if field(case, "ctor") == "timer" {
        // solve() and solve_all() start every search with start_query_timer()
        let t = start_query_timer(1000);
        let stopped = query_stopped();
        cancel_timer(t);
        if stopped { return Err("stop flag of an earlier (timed-out) query still set after start_query_timer(); solve() would report a timeout".into()); }
        return Ok(());
    }
    if field(case, "ctor") == "solve_exhausted" {
        // ask a query with solve() until it says "No more."; a second later no timer of that call may fire
        let query = parse_query("p($X)").unwrap();
        let sn = make_base_node(std::rc::Rc::new(query), &kb);
        let mut answers = vec![];
        for _ in 0..3 { let a = solve(std::rc::Rc::clone(&sn)); let done = a == "No more."; answers.push(a); if done { break; } }
        start_query();
        std::thread::sleep(std::time::Duration::from_millis(1200));
        if query_stopped() { return Err(format!("a timer armed by solve() (answers {:?}) fired after the call had returned: a later query would be stopped", answers)); }
        return Ok(());
    }
    if field(case, "ctor") == "parse_query_ground" {
        // a query without variables, given with its final period
        let query = parse_query("p(a).").unwrap();
        if query_stopped() {
            let sn = make_base_node(std::rc::Rc::new(query), &kb);
            let ans = next_solution(sn);
            return Err(format!("stop flag still set after parse_query of a ground query; it then yields {}", if ans.is_some() { "an answer" } else { "no answer (p(a) is a fact)" }));
        }
        if get_var_id() != 0 { return Err(format!("id counter not restarted by parse_query of a ground query: {}", get_var_id())); }
        let sn = make_base_node(std::rc::Rc::new(query), &kb);
        return match next_solution(sn) { Some(_) => Ok(()), None => Err("ground query has no answer although p(a) is a fact".into()) };
    }
    let query = match field(case, "ctor") {
        "make_query" => make_query(vec![Unifiable::Atom("p".to_string()), Unifiable::LogicVar { id: 0, name: "$X".to_string() }]),
        "parse_query" => parse_query("p($X)").unwrap(),
        _ => { start_query(); Goal::ComplexGoal(Unifiable::SComplex(vec![Unifiable::Atom("p".to_string()), Unifiable::LogicVar { id: 1, name: "$X".to_string() }])) }
    };
    if query_stopped() { 
        // show the observable consequence as well
        let sn = make_base_node(std::rc::Rc::new(query), &kb);
        let ans = next_solution(sn);
        return Err(format!("stop flag still set after the constructor; the query then yields {}", if ans.is_some() { "an answer" } else { "no answer (expected $X = a)" }));
    }
    let printed = format!("{}", query);
    if printed != "p($X_1)" { return Err(format!("query variables are not numbered from 1: {}", printed)); }
    let sn = make_base_node(std::rc::Rc::new(query), &kb);
    match next_solution(sn) { Some(_) => Ok(()), None => Err("query has no answer although p(a) is a fact".into()) }
}

pub fn enum_counter(_s: u64) -> Vec<String> {
    [0usize, 1, 2, 41, 1 << 20, usize::MAX - 3].iter().map(|s| format!("start={}", s)).collect()
}
pub fn check_counter(case: &str) -> Result<(), String> {
    let s: usize = field(case, "start").parse().unwrap();
    set_var_id(s);
    let a = next_id();
    let b = next_id();
    if a != s + 1 || b != s + 2 { return Err(format!("next_id after {} gave {}, {}", s, a, b)); }
    if get_var_id() != b { return Err("get_var_id differs from the last id".into()); }
    clear_id();
    if get_var_id() != 0 { return Err("clear_id did not reset".into()); }
    Ok(())
}
