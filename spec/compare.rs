// ---------------------------------------------------------------------------
// spec/compare.rs -- comparison predicates (C14)
// ---------------------------------------------------------------------------

// both operands of a comparison, resolved through the substitution set
pub open spec fn cmp_operands(bip: BuiltInPredicate, s: SS) -> Option<(Unifiable, Unifiable)> {
    match bip.terms {
        Some(t) =>
            if t@.len() >= 2 {
                match (ground_of(s, t@[0]), ground_of(s, t@[1])) {
                    (Some(l), Some(r)) => if is_const(l) && is_const(r) { Some((l, r)) } else { None },
                    _ => None,
                }
            } else { None },
        None => None,
    }
}

pub open spec fn is_number(t: Unifiable) -> bool { t is SInteger || t is SFloat }

// kinds that can be compared: atom with atom, number with number
pub open spec fn comparable(l: Unifiable, r: Unifiable) -> bool {
    (l is Atom && r is Atom) || (is_number(l) && is_number(r))
}

pub open spec fn cmp_pre(bip: BuiltInPredicate, s: SS) -> bool {
    &&& acyclic(s)
    // the parser builds comparison predicates with two operands
    &&& (bip.terms matches Some(t) ==> t@.len() >= 2)
}

// common part of the five predicates: at most the unchanged substitution; only on comparable constants
pub open spec fn cmp_common(bip: BuiltInPredicate, ss: Rc<Vec<Option<Rc<Unifiable>>>>, res: Option<Rc<Vec<Option<Rc<Unifiable>>>>>) -> bool {
    &&& (res matches Some(r) ==> r == ss)
    &&& (res is Some ==> (cmp_operands(bip, ss@) matches Some(p) && comparable(p.0, p.1)))
}

pub open spec fn cmp_ints(bip: BuiltInPredicate, s: SS) -> Option<(i64, i64)> {
    match cmp_operands(bip, s) {
        Some(p) => match p { (Unifiable::SInteger(a), Unifiable::SInteger(b)) => Some((a, b)), _ => None },
        None => None,
    }
}

pub open spec fn cmp_atoms(bip: BuiltInPredicate, s: SS) -> Option<(Seq<char>, Seq<char>)> {
    match cmp_operands(bip, s) {
        Some(p) => match p { (Unifiable::Atom(a), Unifiable::Atom(b)) => Some((a@, b@)), _ => None },
        None => None,
    }
}

pub open spec fn cmp_comparable(bip: BuiltInPredicate, s: SS) -> bool {
    match cmp_operands(bip, s) { Some(p) => comparable(p.0, p.1), None => false }
}

// --- float / float arms ---------------------------------------------------------------
pub open spec fn cmp_floats(bip: BuiltInPredicate, s: SS) -> Option<(f64, f64)> {
    match cmp_operands(bip, s) {
        Some(p) => match p { (Unifiable::SFloat(a), Unifiable::SFloat(b)) => Some((a, b)), _ => None },
        None => None,
    }
}

pub open spec fn f_lt(a: f64, b: f64) -> bool { vstd::std_specs::cmp::PartialOrdSpec::partial_cmp_spec(&a, &b) == Some(Ordering::Less) }
pub open spec fn f_gt(a: f64, b: f64) -> bool { vstd::std_specs::cmp::PartialOrdSpec::partial_cmp_spec(&a, &b) == Some(Ordering::Greater) }
pub open spec fn f_eq(a: f64, b: f64) -> bool { vstd::std_specs::cmp::PartialEqSpec::eq_spec(&a, &b) }

// --- integer / float arms ---------------------------------------------------------------
pub open spec fn cmp_int_float(bip: BuiltInPredicate, s: SS) -> Option<(i64, f64)> {
    match cmp_operands(bip, s) {
        Some(p) => match p { (Unifiable::SInteger(a), Unifiable::SFloat(b)) => Some((a, b)), _ => None },
        None => None,
    }
}
pub open spec fn cmp_float_int(bip: BuiltInPredicate, s: SS) -> Option<(f64, i64)> {
    match cmp_operands(bip, s) {
        Some(p) => match p { (Unifiable::SFloat(a), Unifiable::SInteger(b)) => Some((a, b)), _ => None },
        None => None,
    }
}

// f64::total_cmp (the IEEE totalOrder predicate: -0.0 before 0.0, NaNs ordered).  It is NOT the numeric order
// the comparison predicates are documented with; it is specified (as an uninterpreted function of its operands)
// only so that code using it can be type-checked and then fails the order clauses instead of stopping the verifier.
pub uninterp spec fn f_total_cmp(a: f64, b: f64) -> Ordering;
pub assume_specification[ f64::total_cmp ](a: &f64, b: &f64) -> (r: Ordering)
    ensures r == f_total_cmp(*a, *b);
