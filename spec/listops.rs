// ---------------------------------------------------------------------------
// spec/listops.rs -- the elements of a list, continuing through bound tail
// variables (count, include/exclude, join, append: C16, C17)
// ---------------------------------------------------------------------------

// the list a tail term continues into (what get_list(head, ss) returns)
pub open spec fn tail_list(s: SS, term: Unifiable) -> Option<Unifiable> {
    if term is SLinkedList { Some(term) }
    else if term is LogicVar {
        match ground_of(s, term) { Some(g) => if g is SLinkedList { Some(g) } else { None }, None => None }
    }
    else { None }
}

// Heads visited from node t on.  A tail-variable node whose variable is bound to a
// list continues into that list (one unit of fuel per hop).  A tail that does not
// resolve to a list (unbound, or $_) is itself the last element when `keep`, and
// ends the walk otherwise ($_ is always kept: count([a | $_]) is 2).
pub open spec fn thru(s: SS, t: Unifiable, fuel: nat, keep: bool) -> Option<Seq<Unifiable>>
    decreases fuel, t,
{
    match t {
        Unifiable::SLinkedList{term, next, count, tail_var} =>
            if *term == Unifiable::Nil { Some(Seq::empty()) }
            else if tail_var && !(*term is Anonymous) {
                match tail_list(s, *term) {
                    Some(l) => if fuel == 0 { None } else { thru_first(s, l, (fuel - 1) as nat, keep) },
                    None => if keep {
                            match thru(s, *next, fuel, keep) { Some(r) => Some(seq![*term] + r), None => None }
                        } else { Some(Seq::empty()) },
                }
            } else {
                match thru(s, *next, fuel, keep) { Some(r) => Some(seq![*term] + r), None => None }
            },
        _ => Some(Seq::empty()),
    }
}

// same, for the node a walk starts at (its own tail flag is not looked at)
pub open spec fn thru_first(s: SS, t: Unifiable, fuel: nat, keep: bool) -> Option<Seq<Unifiable>>
    decreases fuel, t, 1nat,
{
    match t {
        Unifiable::SLinkedList{term, next, count, tail_var} =>
            if *term == Unifiable::Nil { Some(Seq::empty()) }
            else { match thru(s, *next, fuel, keep) { Some(r) => Some(seq![*term] + r), None => None } },
        _ => Some(Seq::empty()),
    }
}

pub open spec fn thru_def(s: SS, t: Unifiable, keep: bool) -> bool { exists|f: nat| (#[trigger] thru(s, t, f, keep)) is Some }
pub open spec fn thru_first_def(s: SS, t: Unifiable, keep: bool) -> bool { exists|f: nat| (#[trigger] thru_first(s, t, f, keep)) is Some }

pub open spec fn thru_val(s: SS, t: Unifiable, keep: bool) -> Seq<Unifiable> {
    thru(s, t, choose|f: nat| (#[trigger] thru(s, t, f, keep)) is Some, keep).unwrap()
}
pub open spec fn thru_first_val(s: SS, t: Unifiable, keep: bool) -> Seq<Unifiable> {
    thru_first(s, t, choose|f: nat| (#[trigger] thru_first(s, t, f, keep)) is Some, keep).unwrap()
}

pub proof fn lemma_thru_mono(s: SS, t: Unifiable, f: nat, g: nat, keep: bool)
    requires f <= g,
    ensures
        thru(s, t, f, keep) is Some ==> thru(s, t, g, keep) == thru(s, t, f, keep),
        thru_first(s, t, f, keep) is Some ==> thru_first(s, t, g, keep) == thru_first(s, t, f, keep),
    decreases f, t,
{
    match t {
        Unifiable::SLinkedList{term, next, count, tail_var} => {
            if *term == Unifiable::Nil { }
            else {
                lemma_thru_mono(s, *next, f, g, keep);
                if tail_var && !(*term is Anonymous) {
                    match tail_list(s, *term) {
                        Some(l) => { if f > 0 { lemma_thru_mono(s, l, (f - 1) as nat, (g - 1) as nat, keep); } },
                        None => { },
                    }
                }
            }
        },
        _ => {},
    }
}

// the value does not depend on which sufficient fuel is chosen
pub proof fn lemma_thru_val(s: SS, t: Unifiable, keep: bool)
    ensures
        forall|f: nat| (#[trigger] thru(s, t, f, keep)) is Some ==> thru(s, t, f, keep) == Some(thru_val(s, t, keep)),
        forall|f: nat| (#[trigger] thru_first(s, t, f, keep)) is Some ==> thru_first(s, t, f, keep) == Some(thru_first_val(s, t, keep)),
{
    assert forall|f: nat| (#[trigger] thru(s, t, f, keep)) is Some implies thru(s, t, f, keep) == Some(thru_val(s, t, keep)) by {
        let f0 = choose|f: nat| (#[trigger] thru(s, t, f, keep)) is Some;
        if f <= f0 { lemma_thru_mono(s, t, f, f0, keep); } else { lemma_thru_mono(s, t, f0, f, keep); }
    }
    assert forall|f: nat| (#[trigger] thru_first(s, t, f, keep)) is Some implies thru_first(s, t, f, keep) == Some(thru_first_val(s, t, keep)) by {
        let f0 = choose|f: nat| (#[trigger] thru_first(s, t, f, keep)) is Some;
        if f <= f0 { lemma_thru_mono(s, t, f, f0, keep); } else { lemma_thru_mono(s, t, f0, f, keep); }
    }
}

// what remains to be visited when the walk stands at (head, slist)
pub open spec fn rest_def(s: SS, head: Unifiable, slist: Unifiable, keep: bool) -> bool {
    head == Unifiable::Nil || thru_def(s, slist, keep)
}
pub open spec fn rest_val(s: SS, head: Unifiable, slist: Unifiable, keep: bool) -> Seq<Unifiable> {
    if head == Unifiable::Nil { Seq::empty() } else { seq![head] + thru_val(s, slist, keep) }
}

// entering a list: the walk over l equals the rest from (term(l), next(l))
pub proof fn lemma_enter(s: SS, l: Unifiable, keep: bool)
    requires l is SLinkedList, thru_first_def(s, l, keep),
    ensures
        rest_def(s, *l->SLinkedList_term, *l->SLinkedList_next, keep),
        rest_val(s, *l->SLinkedList_term, *l->SLinkedList_next, keep) == thru_first_val(s, l, keep),
{
    lemma_thru_val(s, l, keep);
    let f = choose|f: nat| (#[trigger] thru_first(s, l, f, keep)) is Some;
    let term = *l->SLinkedList_term;
    let next = *l->SLinkedList_next;
    if term != Unifiable::Nil {
        assert(thru(s, next, f, keep) is Some);
        lemma_thru_val(s, next, keep);
    }
}

// one step of the walk: from slist = node(term, next, tv)
pub proof fn lemma_step(s: SS, slist: Unifiable, keep: bool)
    requires slist is SLinkedList, thru_def(s, slist, keep),
    ensures
        ({
            let term = *slist->SLinkedList_term;
            let next = *slist->SLinkedList_next;
            let tv = slist->SLinkedList_tail_var;
            if tv && !(term is Anonymous) && term != Unifiable::Nil {
                match tail_list(s, term) {
                    Some(l) => thru_first_def(s, l, keep) && thru_val(s, slist, keep) == thru_first_val(s, l, keep),
                    None => if keep { rest_def(s, term, next, keep) && thru_val(s, slist, keep) == rest_val(s, term, next, keep) }
                            else { thru_val(s, slist, keep) == Seq::<Unifiable>::empty() },
                }
            } else {
                rest_def(s, term, next, keep) && thru_val(s, slist, keep) == rest_val(s, term, next, keep)
            }
        }),
{
    lemma_thru_val(s, slist, keep);
    let f = choose|f: nat| (#[trigger] thru(s, slist, f, keep)) is Some;
    let term = *slist->SLinkedList_term;
    let next = *slist->SLinkedList_next;
    let tv = slist->SLinkedList_tail_var;
    if term == Unifiable::Nil {
    } else if tv && !(term is Anonymous) {
        match tail_list(s, term) {
            Some(l) => {
                assert(f > 0);
                assert(thru_first(s, l, (f - 1) as nat, keep) is Some);
                lemma_thru_val(s, l, keep);
            },
            None => {
                if keep {
                    assert(thru(s, next, f, keep) is Some);
                    lemma_thru_val(s, next, keep);
                }
            },
        }
    } else {
        assert(thru(s, next, f, keep) is Some);
        lemma_thru_val(s, next, keep);
    }
}

// a non-node ends the walk
pub proof fn lemma_thru_nonlist(s: SS, t: Unifiable, keep: bool)
    requires !(t is SLinkedList),
    ensures thru_def(s, t, keep), thru_val(s, t, keep) == Seq::<Unifiable>::empty(),
{
    assert(thru(s, t, 0, keep) == Some(Seq::<Unifiable>::empty()));
    lemma_thru_val(s, t, keep);
}

// the terms of q that do (include) / do not (exclude) unify with the filter term, in order
pub open spec fn keep_seq(q: Seq<Unifiable>, flt: Unifiable, s: SS, include: bool) -> Seq<Unifiable>
    decreases q.len(),
{
    if q.len() == 0 { Seq::empty() }
    else {
        let r = keep_seq(q.drop_first(), flt, s, include);
        if unify_ok(flt, q[0], s) == include { seq![q[0]] + r } else { r }
    }
}

pub proof fn lemma_keep_cons(h: Unifiable, r: Seq<Unifiable>, flt: Unifiable, s: SS, include: bool)
    ensures keep_seq(seq![h] + r, flt, s, include)
        == (if unify_ok(flt, h, s) == include { seq![h] + keep_seq(r, flt, s, include) } else { keep_seq(r, flt, s, include) }),
{
    let q = seq![h] + r;
    assert(q[0] == h);
    assert(q.drop_first() =~= r);
}

pub proof fn lemma_keep_no_nil(q: Seq<Unifiable>, flt: Unifiable, s: SS, include: bool)
    requires no_nil(q),
    ensures no_nil(keep_seq(q, flt, s, include)),
    decreases q.len(),
{
    if q.len() > 0 {
        lemma_keep_no_nil(q.drop_first(), flt, s, include);
    }
}

// what include / exclude select from the list `uni` resolves to (None when it is not a list)
pub open spec fn filtered_seq(s: SS, flt: Unifiable, uni: Unifiable, include: bool) -> Option<Seq<Unifiable>> {
    match ground_of(s, uni) {
        Some(g) => if g is SLinkedList { Some(keep_seq(thru_first_val(s, g, true), flt, s, include)) } else { None },
        None => None,
    }
}

// what count counts
pub open spec fn count_val(s: SS, uni: Unifiable) -> int {
    match ground_of(s, uni) {
        Some(g) => if g is SLinkedList { thru_first_val(s, g, false).len() as int } else { 1 },
        None => 1,
    }
}

pub open spec fn walk_pre(s: SS, uni: Unifiable, keep: bool) -> bool {
    ground_of(s, uni) matches Some(g) ==> (g is SLinkedList ==> thru_first_def(s, g, keep))
}

pub proof fn lemma_list_of_ok(q: Seq<Unifiable>, k: int)
    requires no_nil(q), 0 <= k <= q.len(), q.len() <= usize::MAX,
             forall|j: int| 0 <= j < q.len() ==> ok_term(#[trigger] q[j]),
    ensures ok_term(list_of(q, k)),
    decreases q.len() - k,
{
    lemma_list_of(q, k);
    let l = list_of(q, k);
    if k < q.len() {
        lemma_list_of_ok(q, k + 1);
        assert(ok_term(q[k]));
        let nx = list_of(q, k + 1);
        assert(l == Unifiable::SLinkedList{term: Box::new(q[k]), next: Box::new(nx), count: (q.len() - k) as usize, tail_var: false});
        assert(nz(nx) && wf(nx));
        assert(nz(q[k]) && wf(q[k]));
        assert(nz(l));
        assert(wf_list(l));
        assert(wf(l));
    } else {
        assert(l == empty_node());
        reveal_with_fuel(nz, 2);
        reveal_with_fuel(wf, 2);
        assert(nz(l));
        assert(wf(l));
    }
}

// --- append (C16) --------------------------------------------------------------
// what one input argument contributes: the elements of the list it resolves to
// (continuing through bound tail variables), or the resolved value itself
pub open spec fn arg_seq(s: SS, t: Unifiable) -> Seq<Unifiable> {
    match ground_of(s, t) {
        Some(g) => if g is SLinkedList { thru_first_val(s, g, true) } else { seq![g] },
        None => Seq::empty(),   // unbound input: outside the statement (excluded by the precondition)
    }
}

pub open spec fn flat_args(s: SS, ts: Seq<Unifiable>, n: int) -> Seq<Unifiable>
    decreases n,
{
    if n <= 0 { Seq::empty() } else { flat_args(s, ts, n - 1) + arg_seq(s, ts[n - 1]) }
}

pub open spec fn append_pre(s: SS, ts: Seq<Unifiable>) -> bool {
    &&& forall|i: int| 0 <= i < ts.len() ==> ok_term(#[trigger] ts[i])
    // inputs are ground or bound (statement: "after resolving bound variables"), and are terms, not the Nil marker
    &&& forall|i: int| 0 <= i < ts.len() - 1 ==> (#[trigger] ground_of(s, ts[i])) is Some && ground_of(s, ts[i]) != Some(Unifiable::Nil)
    &&& forall|i: int| 0 <= i < ts.len() - 1 ==> walk_pre(s, #[trigger] ts[i], true)
}

// all heads visited are non-Nil and satisfy the term invariant
pub proof fn lemma_thru_ok(s: SS, t: Unifiable, f: nat, keep: bool)
    requires ss_ok(s), acyclic(s), ok_term(t),
    ensures
        thru(s, t, f, keep) matches Some(q) ==> no_nil(q) && forall|j: int| 0 <= j < q.len() ==> ok_term(#[trigger] q[j]),
        thru_first(s, t, f, keep) matches Some(q) ==> no_nil(q) && forall|j: int| 0 <= j < q.len() ==> ok_term(#[trigger] q[j]),
    decreases f, t,
{
    match t {
        Unifiable::SLinkedList{term, next, count, tail_var} => {
            if *term == Unifiable::Nil { }
            else {
                lemma_thru_ok(s, *next, f, keep);
                if tail_var && !(*term is Anonymous) {
                    match tail_list(s, *term) {
                        Some(l) => {
                            if f > 0 {
                                lemma_tail_list_ok(s, *term);
                                lemma_thru_ok(s, l, (f - 1) as nat, keep);
                            }
                        },
                        None => { },
                    }
                }
            }
        },
        _ => {},
    }
}

pub proof fn lemma_tail_list_ok(s: SS, term: Unifiable)
    requires ss_ok(s), acyclic(s), ok_term(term), tail_list(s, term) is Some,
    ensures ok_term(tail_list(s, term).unwrap()),
{
    if term is LogicVar { lemma_ground_ok(s, term); }
}

// the end of a chain is a term stored in the substitution set
pub proof fn lemma_ground_ok(s: SS, t: Unifiable)
    requires ss_ok(s), acyclic(s), ok_term(t),
    ensures ground_of(s, t) matches Some(g) ==> ok_term(g),
{
    match t {
        Unifiable::LogicVar{id, name} => {
            let e = chain_end(s, id as int);
            if 0 <= e < s.len() { assert(s[e] matches Some(r) ==> ok_term(*r)); }
        },
        _ => {},
    }
}

// --- functor (C17) ----------------------------------------------------------------
// a term as the built-ins see it: the end of its variable chain, or the (unbound) variable itself
pub open spec fn rv(s: SS, t: Unifiable) -> Unifiable {
    match ground_of(s, t) { Some(g) => g, None => t }
}

// the functor matches the pattern: equal, or prefix match when the pattern ends in `*`
pub open spec fn amatch(f: Unifiable, m: Seq<char>) -> bool {
    f is Atom && m.len() > 0 && (
        if m[m.len() - 1] == '*' { str_has_prefix(f->Atom_0@, m.subrange(0, m.len() - 1)) }
        else { f->Atom_0@ == m })
}

pub open spec fn functor_pre(s: SS, ts: Seq<Unifiable>) -> bool {
    &&& forall|i: int| 0 <= i < ts.len() ==> ok_term(#[trigger] ts[i])
    // an atom pattern is not the empty atom (it cannot be written in source text)
    &&& (ts.len() >= 2 ==> (rv(s, ts[1]) is Atom ==> rv(s, ts[1])->Atom_0@.len() > 0))
}

pub open spec fn functor_post(bip: BuiltInPredicate, ss: RSS, res: Option<RSS>) -> bool {
    match bip.terms {
        None => res is None,
        Some(tv) => {
            let ts = tv@;
            if ts.len() < 2 || ts.len() > 3 { res is None }
            else {
                let c = rv(ss@, ts[0]);
                if !(c is SComplex) { res is None }
                else {
                    let functor = c->SComplex_0@[0];
                    let arity = c->SComplex_0@.len() - 1;
                    let pat = rv(ss@, ts[1]);
                    if pat is Atom {
                        if !amatch(functor, pat->Atom_0@) { res is None }
                        else if ts.len() == 2 { res == Some(ss) }
                        else { upost(rv(ss@, ts[2]), Unifiable::SInteger(arity as i64), ss, res) }
                    } else if pat is LogicVar {
                        if ts.len() == 2 { upost(pat, functor, ss, res) }
                        else { post_keeps(ss, res) && post_kind(ss, res) && post_acyclic(ss, res) }
                    } else { res is None }
                }
            }
        },
    }
}

// --- join (C17) ----------------------------------------------------------------------
#[verifier::external_body]
pub fn str_append_spaced(out: &mut String, s: &String)
    ensures final(out)@ == old(out)@ + (seq![' '] + s@),
{ unimplemented!() /* *out += &format!(" {}", s); */ }

#[verifier::external_body]
pub fn atom_of_string(s: &String) -> (r: Unifiable)
    ensures r is Atom, r->Atom_0@ == s@,
{ Unifiable::Atom(s.to_string()) }

pub open spec fn is_punct(s: Seq<char>) -> bool {
    s == ","@ || s == "."@ || s == "?"@ || s == "!"@
}

// the words joined by single spaces, punctuation attached to the previous word
pub open spec fn join_text(q: Seq<Unifiable>, i: int, first: bool) -> Seq<char>
    decreases q.len() - i,
{
    if i >= q.len() || i < 0 { Seq::empty() }
    else {
        let s = disp(q[i]);
        if is_punct(s) || first { s + join_text(q, i + 1, false) }
        else { (seq![' '] + s) + join_text(q, i + 1, false) }
    }
}

// all the terms join sees: the values of its arguments and the elements of its list arguments
pub open spec fn join_terms(s: SS, ts: Seq<Unifiable>, n: int) -> Seq<Unifiable>
    decreases n,
{
    if n <= 0 { Seq::empty() } else { join_terms(s, ts, n - 1) + join_arg(s, ts[n - 1]) }
}
// (the statement: "the resolved values of its arguments and list elements")
pub open spec fn join_arg(s: SS, t: Unifiable) -> Seq<Unifiable> {
    match ground_of(s, t) {
        Some(g) => if g is SLinkedList { resolved_seq(s, thru_first_val(s, g, true)) } else { seq![g] },
        None => seq![t],
    }
}
pub open spec fn resolved_seq(s: SS, q: Seq<Unifiable>) -> Seq<Unifiable> {
    q.map_values(|e: Unifiable| rv(s, e))
}
pub open spec fn join_pre(s: SS, ts: Seq<Unifiable>) -> bool {
    forall|i: int| 0 <= i < ts.len() ==> walk_pre(s, #[trigger] ts[i], true)
}

// the terms evaluate_join collects before it resolves them
pub open spec fn raw_arg(s: SS, t: Unifiable) -> Seq<Unifiable> {
    match ground_of(s, t) {
        Some(g) => if g is SLinkedList { thru_first_val(s, g, true) } else { seq![g] },
        None => seq![t],
    }
}
pub open spec fn raw_terms(s: SS, ts: Seq<Unifiable>, n: int) -> Seq<Unifiable>
    decreases n,
{
    if n <= 0 { Seq::empty() } else { raw_terms(s, ts, n - 1) + raw_arg(s, ts[n - 1]) }
}

// resolving the collected terms gives the terms of the statement
pub proof fn lemma_join_terms(s: SS, ts: Seq<Unifiable>, n: int)
    requires acyclic(s), 0 <= n <= ts.len(),
    ensures join_terms(s, ts, n) == resolved_seq(s, raw_terms(s, ts, n)),
    decreases n,
{
    if n > 0 {
        lemma_join_terms(s, ts, n - 1);
        let t = ts[n - 1];
        let a = raw_terms(s, ts, n - 1);
        let b = raw_arg(s, t);
        assert(resolved_seq(s, a + b) =~= resolved_seq(s, a) + resolved_seq(s, b));
        match ground_of(s, t) {
            Some(g) => {
                if g is SLinkedList { }
                else {
                    // a resolved, non-list value resolves to itself
                    if t is LogicVar { lemma_ground_of_step(s, t); }
                    assert(ground_of(s, g) == Some(g));
                    assert(resolved_seq(s, seq![g]) =~= seq![g]);
                }
            },
            None => {
                assert(rv(s, t) == t);
                assert(resolved_seq(s, seq![t]) =~= seq![t]);
            },
        }
    } else {
        assert(resolved_seq(s, Seq::<Unifiable>::empty()) =~= Seq::<Unifiable>::empty());
    }
}
