"""Which units, functions, oracles and Kani harnesses decide which property."""

# property -> configuration
#   units:      Verus units to extract + verify
#   functions:  functions whose *untagged* obligations (panic unreachable, index in
#               range, overflow, termination, call-site preconditions, untagged
#               invariants) count for this property.  Tagged clauses
#               (`// #label [C15,C10]`) count for the properties they name.
#   oracles:    replay oracles used to attach a witness to a failed obligation
#               {function-key-or-'*': oracle name}
#   kani:       {tier: [harness,...]}
PROPS = {
    'C15': {
        'units': ['lists'],
        'functions': ['s_linked_list.rs::make_linked_list', 's_linked_list.rs::link_front'],
        'oracles': {'s_linked_list.rs::make_linked_list': 'c15_make_linked_list'},
        'not_covered': [
            'parse_linked_list (string-driven loop) is covered only through link_front; see C18',
        ],
    },
}

LEVEL = {p: 'proof' for p in PROPS}

# trusted base items, by tag found in generated files (scan_assumptions)
TRUSTED_TEXT = {
    'T1': "rustc's derived PartialEq/Clone on the extracted types behave as spec `ueq` / identity (assume_specification + PartialEqSpecImpl)",
    'T2': 'vstd specifications of Vec, Rc, Box, Option, String, slices; axioms added where vstd has none are listed individually',
    'T3': 'assumed specifications for std string/char primitives (listed individually)',
    'T4': 'extractor rewrite rules R1-R8 (syntactic; counts per rule reported in coverage.rewrites)',
    'T5': 'Verus 0.2026.09.13 + its Z3; rustc front end',
}
