// ---------------------------------------------------------------------------
// spec/rename.rs -- renaming apart (C10): same shape, consistent ids
// ---------------------------------------------------------------------------

pub type VM = Map<String, usize>;

// TRUSTED(T2): String keys hash and compare consistently with spec equality (vstd lacks this axiom for String)
pub axiom fn axiom_string_key_model()
    ensures vstd::std_specs::hash::obeys_key_model::<String>();

// equal up to variable ids
pub open spec fn same_shape(a: Unifiable, b: Unifiable) -> bool
    decreases a,
{
    match (a, b) {
        (Unifiable::Nil, Unifiable::Nil) => true,
        (Unifiable::Anonymous, Unifiable::Anonymous) => true,
        (Unifiable::Atom(s1), Unifiable::Atom(s2)) => s1@ == s2@,
        (Unifiable::SFloat(f1), Unifiable::SFloat(f2)) => f1 == f2,
        (Unifiable::SInteger(i1), Unifiable::SInteger(i2)) => i1 == i2,
        (Unifiable::LogicVar{id: id1, name: n1}, Unifiable::LogicVar{id: id2, name: n2}) => n1@ == n2@,
        (Unifiable::SComplex(t1), Unifiable::SComplex(t2)) => same_shape_seq(t1@, t2@),
        (Unifiable::SLinkedList{term: t1, next: n1, count: c1, tail_var: tv1},
         Unifiable::SLinkedList{term: t2, next: n2, count: c2, tail_var: tv2}) =>
            same_shape(*t1, *t2) && same_shape(*n1, *n2) && c1 == c2 && tv1 == tv2,
        (Unifiable::SFunction{name: f1, terms: t1}, Unifiable::SFunction{name: f2, terms: t2}) =>
            f1@ == f2@ && same_shape_seq(t1@, t2@),
        _ => false,
    }
}

pub open spec fn same_shape_seq(a: Seq<Unifiable>, b: Seq<Unifiable>) -> bool
    decreases a,
{
    a.len() == b.len() && (a.len() == 0 || (same_shape(a[0], b[0]) && same_shape_seq(a.drop_first(), b.drop_first())))
}

// every variable of t carries the id the map records for its name
pub open spec fn vars_in(t: Unifiable, m: VM) -> bool
    decreases t,
{
    match t {
        Unifiable::LogicVar{id, name} => m.contains_key(name) && m[name] == id,
        Unifiable::SComplex(ts) => vars_in_seq(ts@, m),
        Unifiable::SLinkedList{term, next, count, tail_var} => vars_in(*term, m) && vars_in(*next, m),
        Unifiable::SFunction{name, terms} => vars_in_seq(terms@, m),
        _ => true,
    }
}

pub open spec fn vars_in_seq(s: Seq<Unifiable>, m: VM) -> bool
    decreases s,
{
    s.len() == 0 || (vars_in(s[0], m) && vars_in_seq(s.drop_first(), m))
}

// the map only grows: no name is re-numbered
pub open spec fn map_grows(m0: VM, m1: VM) -> bool {
    forall|k: String| #[trigger] m0.contains_key(k) ==> m1.contains_key(k) && m1[k] == m0[k]
}

// ids in the map are usable variable ids
pub open spec fn map_ok(m: VM) -> bool {
    forall|k: String| #[trigger] m.contains_key(k) ==> 0 < m[k] < usize::MAX
}

pub proof fn lemma_vars_in_mono(t: Unifiable, m0: VM, m1: VM)
    requires vars_in(t, m0), map_grows(m0, m1),
    ensures vars_in(t, m1),
    decreases t,
{
    match t {
        Unifiable::SComplex(ts) => { lemma_vars_in_seq_mono(ts@, m0, m1); },
        Unifiable::SLinkedList{term, next, count, tail_var} => {
            lemma_vars_in_mono(*term, m0, m1);
            lemma_vars_in_mono(*next, m0, m1);
        },
        Unifiable::SFunction{name, terms} => { lemma_vars_in_seq_mono(terms@, m0, m1); },
        _ => {},
    }
}

pub proof fn lemma_vars_in_seq_mono(s: Seq<Unifiable>, m0: VM, m1: VM)
    requires vars_in_seq(s, m0), map_grows(m0, m1),
    ensures vars_in_seq(s, m1),
    decreases s,
{
    if s.len() > 0 {
        lemma_vars_in_mono(s[0], m0, m1);
        lemma_vars_in_seq_mono(s.drop_first(), m0, m1);
    }
}

// pointwise view of the *_seq predicates
pub proof fn lemma_same_shape_seq_index(a: Seq<Unifiable>, b: Seq<Unifiable>, i: int)
    requires same_shape_seq(a, b), 0 <= i < a.len(),
    ensures same_shape(a[i], b[i]), a.len() == b.len(),
    decreases a.len(),
{
    if i > 0 { lemma_same_shape_seq_index(a.drop_first(), b.drop_first(), i - 1); }
}

pub proof fn lemma_same_shape_seq_from_pointwise(a: Seq<Unifiable>, b: Seq<Unifiable>)
    requires a.len() == b.len(), forall|i: int| 0 <= i < a.len() ==> same_shape(#[trigger] a[i], b[i]),
    ensures same_shape_seq(a, b),
    decreases a.len(),
{
    if a.len() > 0 {
        assert forall|i: int| 0 <= i < a.drop_first().len() implies same_shape(#[trigger] a.drop_first()[i], b.drop_first()[i]) by {
            assert(a.drop_first()[i] == a[i + 1]);
            assert(b.drop_first()[i] == b[i + 1]);
        }
        lemma_same_shape_seq_from_pointwise(a.drop_first(), b.drop_first());
    }
}

pub proof fn lemma_seq_from_pointwise(s: Seq<Unifiable>, m: VM)
    requires forall|i: int| 0 <= i < s.len() ==> vars_in(#[trigger] s[i], m) && nz(s[i]) && wf(s[i]),
    ensures vars_in_seq(s, m), nz_seq(s), wf_seq(s),
    decreases s.len(),
{
    if s.len() > 0 {
        assert forall|i: int| 0 <= i < s.drop_first().len() implies
            vars_in(#[trigger] s.drop_first()[i], m) && nz(s.drop_first()[i]) && wf(s.drop_first()[i]) by {
            assert(s.drop_first()[i] == s[i + 1]);
        }
        lemma_seq_from_pointwise(s.drop_first(), m);
    }
}

// --- lists (the list branch of recreate_variables) ---------------------------

// the terms of all nodes of a list, in order, including the Nil of the final empty node
pub open spec fn node_terms(l: Unifiable) -> Seq<Unifiable>
    decreases l,
{
    match l {
        Unifiable::SLinkedList{term, next, count, tail_var} => seq![*term] + node_terms(*next),
        _ => Seq::empty(),
    }
}

pub open spec fn tail_seq(l: Unifiable) -> Seq<Unifiable> {
    match tail_of(l) { Some(t) => seq![t], None => Seq::empty() }
}

// for a well-formed list: the elements, then the tail variable if any, then Nil
pub proof fn lemma_node_terms(l: Unifiable)
    requires wf_list(l),
    ensures node_terms(l) == elems(l) + tail_seq(l) + seq![Unifiable::Nil],
            no_nil(elems(l)), tail_of(l) matches Some(t) ==> is_tail_term(t),
    decreases l,
{
    match l {
        Unifiable::SLinkedList{term, next, count, tail_var} => {
            if *term == Unifiable::Nil {
                assert(node_terms(*next) == Seq::<Unifiable>::empty());
                assert(node_terms(l) =~= seq![Unifiable::Nil]);
                assert(elems(l) + tail_seq(l) + seq![Unifiable::Nil] =~= seq![Unifiable::Nil]);
            } else if tail_var {
                lemma_node_terms(*next);
                assert(is_empty_node(*next));
                assert(node_terms(l) =~= seq![*term] + seq![Unifiable::Nil]);
                assert(elems(l) + tail_seq(l) + seq![Unifiable::Nil] =~= seq![*term] + seq![Unifiable::Nil]);
            } else {
                lemma_node_terms(*next);
                assert(elems(l) + tail_seq(l) + seq![Unifiable::Nil]
                       =~= seq![*term] + (elems(*next) + tail_seq(*next) + seq![Unifiable::Nil]));
            }
        },
        _ => {},
    }
}

pub open spec fn good(t: Unifiable, m: VM) -> bool { vars_in(t, m) && nz(t) && wf(t) }

// two well-formed lists with pairwise same-shaped elements and tails have the same shape
pub proof fn lemma_same_shape_lists(a: Unifiable, b: Unifiable)
    requires
        wf_list(a), wf_list(b),
        elems(a).len() == elems(b).len(),
        forall|j: int| 0 <= j < elems(a).len() ==> same_shape(#[trigger] elems(a)[j], elems(b)[j]),
        tail_of(a) is Some <==> tail_of(b) is Some,
        tail_of(a) is Some ==> same_shape(tail_of(a).unwrap(), tail_of(b).unwrap()),
    ensures same_shape(a, b),
    decreases a,
{
    lemma_node_count_elems(a);
    lemma_node_count_elems(b);
    reveal_with_fuel(same_shape, 2);
    match (a, b) {
        (Unifiable::SLinkedList{term: t1, next: n1, count: c1, tail_var: tv1},
         Unifiable::SLinkedList{term: t2, next: n2, count: c2, tail_var: tv2}) => {
            if *t1 == Unifiable::Nil {
                // a is the empty list: no elements, no tail; so is b
                assert(elems(b).len() == 0 && tail_of(b) is None);
                assert(*t2 == Unifiable::Nil) by {
                    if *t2 != Unifiable::Nil { if tv2 { } else { assert(elems(b).len() >= 1); } }
                }
                assert(*n1 == Unifiable::Nil && *n2 == Unifiable::Nil);
            } else if tv1 {
                assert(elems(a).len() == 0);
                assert(*t2 != Unifiable::Nil) by { if *t2 == Unifiable::Nil { assert(tail_of(b) is None); } }
                assert(tv2) by { if !tv2 { assert(elems(b).len() >= 1); } }
                assert(is_empty_node(*n1) && is_empty_node(*n2));
                assert(same_shape(*t1, *t2));
                assert(same_shape(*n1, *n2));
                assert(c1 == 1 && c2 == 1);
            } else {
                assert(elems(a).len() >= 1);
                assert(*t2 != Unifiable::Nil) by { if *t2 == Unifiable::Nil { assert(elems(b).len() == 0); } }
                assert(!tv2) by { if tv2 { assert(elems(b).len() == 0); } }
                assert(elems(a)[0] == *t1 && elems(b)[0] == *t2);
                assert(elems(*n1) =~= elems(a).drop_first());
                assert(elems(*n2) =~= elems(b).drop_first());
                assert forall|j: int| 0 <= j < elems(*n1).len() implies same_shape(#[trigger] elems(*n1)[j], elems(*n2)[j]) by {
                    assert(elems(*n1)[j] == elems(a)[j + 1]);
                    assert(elems(*n2)[j] == elems(b)[j + 1]);
                }
                lemma_same_shape_lists(*n1, *n2);
                lemma_node_count_elems(*n1);
                lemma_node_count_elems(*n2);
                assert(c1 == 1 + node_count(*n1));
                assert(c2 == 1 + node_count(*n2));
                assert(same_shape(*t1, *t2));
                assert(same_shape(*n1, *n2));
            }
        },
        _ => {},
    }
}

// a well-formed list whose elements and tail are good is good
pub proof fn lemma_good_list(l: Unifiable, m: VM)
    requires
        wf_list(l),
        forall|j: int| 0 <= j < elems(l).len() ==> good(#[trigger] elems(l)[j], m),
        tail_of(l) matches Some(t) ==> good(t, m),
    ensures good(l, m),
    decreases l,
{
    match l {
        Unifiable::SLinkedList{term, next, count, tail_var} => {
            if *term == Unifiable::Nil {
                reveal_with_fuel(nz, 2);
                reveal_with_fuel(wf, 2);
                reveal_with_fuel(vars_in, 2);
            } else if tail_var {
                assert(is_empty_node(*next));
                lemma_good_list(*next, m);
            } else {
                assert(elems(l)[0] == *term);
                assert(elems(*next) =~= elems(l).drop_first());
                assert forall|j: int| 0 <= j < elems(*next).len() implies good(#[trigger] elems(*next)[j], m) by {
                    assert(elems(*next)[j] == elems(l)[j + 1]);
                }
                lemma_good_list(*next, m);
            }
        },
        _ => {},
    }
}

// The renamed node terms `nt` of the well-formed list `orig` are a legal input for
// make_linked_list, and whatever list it returns has the shape of `orig`.
pub proof fn lemma_rename_list(orig: Unifiable, nt: Seq<Unifiable>, vbar: bool, m: VM)
    requires
        wf_list(orig),
        nt.len() == node_terms(orig).len(),
        forall|j: int| 0 <= j < nt.len() ==> same_shape(node_terms(orig)[j], #[trigger] nt[j]) && good(nt[j], m),
        vbar == (tail_of(orig) is Some),
    ensures
        mll_pre(vbar, nt),
        forall|res: Unifiable| #[trigger] mll_post(vbar, nt, res) ==> same_shape(orig, res) && good(res, m),
{
    lemma_node_terms(orig);
    let ot = node_terms(orig);
    let e0 = elems(orig);
    let k = e0.len() as int;
    let n = nt.len() as int;
    // the last renamed term is the Nil marker
    assert(ot[n - 1] == Unifiable::Nil);
    assert(same_shape(ot[n - 1], nt[n - 1]));
    assert(nt[n - 1] == Unifiable::Nil);
    let e = eff(nt);
    assert(e =~= nt.subrange(0, n - 1));
    assert forall|j: int| 0 <= j < e.len() implies e[j] != Unifiable::Nil by {
        assert(same_shape(ot[j], nt[j]));
        if j < k { assert(ot[j] == e0[j]); } else { assert(ot[j] == tail_of(orig).unwrap()); }
    }
    assert(!splices(nt));
    if vbar {
        assert(e.len() == k + 1);
        assert(same_shape(ot[k], nt[k]));
        assert(ot[k] == tail_of(orig).unwrap());
    } else {
        assert(e.len() == k);
    }
    assert forall|res: Unifiable| #[trigger] mll_post(vbar, nt, res) implies same_shape(orig, res) && good(res, m) by {
        let er = elems(res);
        assert(er.len() == k);
        assert forall|j: int| 0 <= j < k implies same_shape(#[trigger] e0[j], er[j]) && good(er[j], m) by {
            assert(er[j] == nt[j]);
            assert(ot[j] == e0[j]);
            assert(same_shape(ot[j], nt[j]));
        }
        if vbar {
            assert(tail_of(res) == Some(nt[k]));
        } else {
            assert(tail_of(res) is None);
        }
        lemma_same_shape_lists(orig, res);
        lemma_good_list(res, m);
    }
}

// --- goals, operators, built-in predicates, rules -------------------------------

pub open spec fn same_shape_opt(a: Option<Vec<Unifiable>>, b: Option<Vec<Unifiable>>) -> bool {
    match (a, b) {
        (Some(x), Some(y)) => same_shape_seq(x@, y@),
        (None, None) => true,
        _ => false,
    }
}

pub open spec fn good_seq(s: Seq<Unifiable>, m: VM) -> bool { vars_in_seq(s, m) && nz_seq(s) && wf_seq(s) }

pub open spec fn same_shape_bip(a: BuiltInPredicate, b: BuiltInPredicate) -> bool {
    a.functor@ == b.functor@ && same_shape_opt(a.terms, b.terms)
}

pub open spec fn good_bip(a: BuiltInPredicate, m: VM) -> bool {
    a.terms matches Some(t) ==> good_seq(t@, m)
}

pub open spec fn wf_bip(a: BuiltInPredicate) -> bool {
    a.terms matches Some(t) ==> wf_seq(t@)
}

pub open spec fn same_shape_goal(a: Goal, b: Goal) -> bool
    decreases a,
{
    match (a, b) {
        (Goal::OperatorGoal(x), Goal::OperatorGoal(y)) => same_shape_op(x, y),
        (Goal::BuiltInGoal(x), Goal::BuiltInGoal(y)) => same_shape_bip(x, y),
        (Goal::ComplexGoal(x), Goal::ComplexGoal(y)) => same_shape(x, y),
        (Goal::Nil, Goal::Nil) => true,
        _ => false,
    }
}

pub open spec fn same_shape_op(a: Operator, b: Operator) -> bool
    decreases a,
{
    match (a, b) {
        (Operator::And(x), Operator::And(y)) => same_shape_goals(x@, y@),
        (Operator::Or(x), Operator::Or(y)) => same_shape_goals(x@, y@),
        (Operator::Time(x), Operator::Time(y)) => same_shape_goals(x@, y@),
        (Operator::Not(x), Operator::Not(y)) => same_shape_goals(x@, y@),
        _ => false,
    }
}

pub open spec fn same_shape_goals(a: Seq<Goal>, b: Seq<Goal>) -> bool
    decreases a,
{
    a.len() == b.len() && (a.len() == 0 || (same_shape_goal(a[0], b[0]) && same_shape_goals(a.drop_first(), b.drop_first())))
}

pub open spec fn op_goals(a: Operator) -> Seq<Goal> {
    match a { Operator::And(x) => x@, Operator::Or(x) => x@, Operator::Time(x) => x@, Operator::Not(x) => x@ }
}

// a goal that renaming accepts: complex goals hold complex terms; no Goal::Nil inside operators
pub open spec fn wf_goal(a: Goal) -> bool
    decreases a,
{
    match a {
        Goal::OperatorGoal(x) => wf_goals(op_goals(x)),
        Goal::BuiltInGoal(x) => wf_bip(x),
        Goal::ComplexGoal(x) => x is SComplex && wf(x),
        Goal::Nil => false,
    }
}

pub open spec fn wf_goals(s: Seq<Goal>) -> bool
    decreases s,
{
    s.len() == 0 || (wf_goal(s[0]) && wf_goals(s.drop_first()))
}

pub open spec fn good_goal(a: Goal, m: VM) -> bool
    decreases a,
{
    match a {
        Goal::OperatorGoal(x) => good_goals(op_goals(x), m),
        Goal::BuiltInGoal(x) => good_bip(x, m),
        Goal::ComplexGoal(x) => good(x, m),
        Goal::Nil => true,
    }
}

pub open spec fn good_goals(s: Seq<Goal>, m: VM) -> bool
    decreases s,
{
    s.len() == 0 || (good_goal(s[0], m) && good_goals(s.drop_first(), m))
}

pub proof fn lemma_good_mono(t: Unifiable, m0: VM, m1: VM)
    requires good(t, m0), map_grows(m0, m1),
    ensures good(t, m1),
{
    lemma_vars_in_mono(t, m0, m1);
}

pub proof fn lemma_good_seq_mono(s: Seq<Unifiable>, m0: VM, m1: VM)
    requires good_seq(s, m0), map_grows(m0, m1),
    ensures good_seq(s, m1),
{
    lemma_vars_in_seq_mono(s, m0, m1);
}

pub proof fn lemma_good_goal_mono(a: Goal, m0: VM, m1: VM)
    requires good_goal(a, m0), map_grows(m0, m1),
    ensures good_goal(a, m1),
    decreases a,
{
    match a {
        Goal::OperatorGoal(x) => { lemma_good_goals_mono(op_goals(x), m0, m1); },
        Goal::BuiltInGoal(x) => { if x.terms is Some { lemma_good_seq_mono(x.terms.unwrap()@, m0, m1); } },
        Goal::ComplexGoal(x) => { lemma_good_mono(x, m0, m1); },
        Goal::Nil => {},
    }
}

pub proof fn lemma_good_goals_mono(s: Seq<Goal>, m0: VM, m1: VM)
    requires good_goals(s, m0), map_grows(m0, m1),
    ensures good_goals(s, m1),
    decreases s,
{
    if s.len() > 0 {
        lemma_good_goal_mono(s[0], m0, m1);
        lemma_good_goals_mono(s.drop_first(), m0, m1);
    }
}

pub proof fn lemma_wf_goals_index(s: Seq<Goal>, i: int)
    requires wf_goals(s), 0 <= i < s.len(),
    ensures wf_goal(s[i]),
    decreases s.len(),
{
    if i > 0 { lemma_wf_goals_index(s.drop_first(), i - 1); }
}

pub proof fn lemma_goals_from_pointwise(a: Seq<Goal>, b: Seq<Goal>, m: VM)
    requires a.len() == b.len(),
             forall|i: int| 0 <= i < a.len() ==> same_shape_goal(a[i], #[trigger] b[i]) && good_goal(b[i], m),
    ensures same_shape_goals(a, b), good_goals(b, m),
    decreases a.len(),
{
    if a.len() > 0 {
        assert forall|i: int| 0 <= i < a.drop_first().len() implies
            same_shape_goal(a.drop_first()[i], #[trigger] b.drop_first()[i]) && good_goal(b.drop_first()[i], m) by {
            assert(a.drop_first()[i] == a[i + 1]);
            assert(b.drop_first()[i] == b[i + 1]);
        }
        lemma_goals_from_pointwise(a.drop_first(), b.drop_first(), m);
    }
}

// rules
// TRUSTED(T1): rustc's derived Clone on Rule returns an equal value.
pub assume_specification[ <Rule as Clone>::clone ](r: &Rule) -> (res: Rule)
    ensures res == *r;

pub open spec fn wf_rule(r: Rule) -> bool {
    r.head is SComplex && wf(r.head) && (r.body is Nil || wf_goal(r.body))
}
pub open spec fn same_shape_rule(a: Rule, b: Rule) -> bool {
    same_shape(a.head, b.head) && same_shape_goal(a.body, b.body)
}
pub open spec fn good_rule(a: Rule, m: VM) -> bool {
    good(a.head, m) && good_goal(a.body, m)
}
