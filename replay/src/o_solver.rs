//! C05 / C03: bounded program-level oracles for the search itself (supplementary to the proof over the node heap,
//! and the source of witnesses for it).
//!   c05_reask  a query is asked until it reports "no more"; every further request must report "no more" and write nothing
//!   c03_not    not(G) has exactly one answer when G (under the same bindings) has none, and none otherwise; it binds nothing
use suiron::*;
use std::rc::Rc;
use std::io::Write;

extern "C" { fn dup(fd: i32) -> i32; fn dup2(a: i32, b: i32) -> i32; fn close(fd: i32) -> i32; }

/// everything the engine writes to standard output between start() and end()
pub struct Capture { saved: i32, path: std::path::PathBuf, done: bool }
impl Capture {
    pub fn start(tag: &str) -> Capture {
        use std::os::unix::io::AsRawFd;
        let _ = std::io::stdout().flush();
        let path = std::env::temp_dir().join(format!("verif_out_{}_{}.txt", tag, std::process::id()));
        let f = std::fs::File::create(&path).expect("temp file");
        let saved = unsafe { dup(1) };
        unsafe { dup2(f.as_raw_fd(), 1); }
        Capture { saved, path, done: false }
    }
    fn restore(&mut self) {
        if self.done { return; }
        let _ = std::io::stdout().flush();
        unsafe { dup2(self.saved, 1); close(self.saved); }
        self.done = true;
    }
    pub fn end(mut self) -> String {
        self.restore();
        let s = std::fs::read_to_string(&self.path).unwrap_or_default();
        let _ = std::fs::remove_file(&self.path);
        s
    }
}
// a panic of the engine inside a captured stretch must not leave standard output redirected
impl Drop for Capture {
    fn drop(&mut self) { if !self.done { self.restore(); let _ = std::fs::remove_file(&self.path); } }
}

const KBS: &[&[&str]] = &[
    &["p(a).", "p(b).", "e(1).", "e(2).", "e(3).",
      "q :- not(p(a)).", "q2 :- not(p(c)).", "q3($X) :- p($X), not(e($X)).",
      "r($X) :- p($X), print(seen %s, $X), nl.",
      "s($X) :- p($X), !.", "s(z).",
      "t($X) :- p($X) ; e($X).",
      "u($X) :- time(p($X)).",
      "v($X) :- p($X), not(p(c)), $X = b.",
      "w :- fail.", "w2 :- p(a), fail.",
      "x($X) :- $X = 1 ; $X = 2.",
      "y($X, $Y) :- e($X), e($Y), $X < $Y.",
      "z :- not(not(p(a))).", "z2 :- not(q).", "z3 :- not(w), not(q).",
      "c1($X) :- e($X), $X > 1, !, print(cut at %s, $X), nl.",
      "c2($X) :- c1($X) ; e($X).",
      "n1($X) :- e($X), not($X = 2).",
      "o1 :- not(p(a)) ; not(p(b)) ; p(b).",
      "l1($N) :- count([a, b, c], $N), not($N = 2).",
      "deep($X) :- t($X), not(q3($X)), x($Y), $Y > 1.",
      // goals that write and then fail: a request after exhaustion must not run them again
      "o2 :- fail ; print(again), nl, fail.",
      "a2 :- print(once), nl, fail.",
      "k3 :- print(k3), nl.", "k2 :- k3, fail.",
      "u2($X) :- time(p($X)), e($Y), $Y > 2.",
      "u3 :- time(w) ; time(w2).",
      "n2 :- not(k3), e($X).", "n3($X) :- e($X), not(k3).",
      "pl :- print_list([a, b]), nl, fail ; w.",
      // failure-driven loops over alternatives, and goals called with partly instantiated structures ("templates")
      "n4(1).", "n4(2).", "m4(3).", "m4(4).",
      "show :- (n4($X) ; m4($X)), print($X), fail.",
      "all4($X) :- n4($X).", "all4($X) :- (n4($Y) ; m4($Y)), print($Y), fail.",
      "entry([1, apple]).", "entry([2, banana]).", "entry([3, cherry]).",
      "lookup($K, $V) :- $L = [$K, $V], entry($L), $K > 1.",
      "paint(flag(red, green)).", "paint(flag(green, green)).", "paint(flag(blue, green)).",
      "design($A, $B) :- $F = flag($A, $B), paint($F), $A == $B.",
      "tmpl($K) :- $L = [$K, $V], entry($L), $V == cherry."],
];
const QUERIES: &[&str] = &["q", "q2", "q3($X)", "r($X)", "s($X)", "t($X)", "u($X)", "v($X)", "w", "w2", "x($X)", "y($X, $Y)", "z", "z2", "z3",
    "c1($X)", "c2($X)", "n1($X)", "o1", "l1($N)", "deep($X)", "o2", "a2", "k2", "u2($X)", "u3", "n2", "n3($X)", "pl", "show", "all4($X)", "lookup($K, $V)", "design($A, $B)", "tmpl($K)", "p($X)", "p(a)", "p(c)", "nothing($X)", "e(2)"];

fn load(k: usize, extra: &[String]) -> Result<KnowledgeBase, String> {
    let mut kb = KnowledgeBase::new();
    for r in KBS[k].iter() { let rule = parse_rule(r).map_err(|e| format!("setup: {}: {}", r, e))?; add_rules(&mut kb, vec![rule]); }
    for r in extra { let rule = parse_rule(r).map_err(|e| format!("setup: {}: {}", r, e))?; add_rules(&mut kb, vec![rule]); }
    Ok(kb)
}

pub fn enum_reask(_seed: u64) -> Vec<String> {
    let mut out = vec![];
    for k in 0..KBS.len() { for q in QUERIES { out.push(format!("kb={}\u{1}next\u{1}{}", k, q)); out.push(format!("kb={}\u{1}solve\u{1}{}", k, q)); } }
    out
}

pub fn check_reask(case: &str) -> Result<(), String> {
    let parts: Vec<&str> = case.split('\u{1}').collect();
    if parts.len() != 3 { return Err("bad case".into()); }
    let k: usize = parts[0].trim_start_matches("kb=").parse().map_err(|_| "bad case")?;
    let kb = load(k, &[])?;
    let query = parse_query(parts[2]).map_err(|e| format!("setup: {}", e))?;
    let sn = make_base_node(Rc::new(query), &kb);
    let by_solve = parts[1] == "solve";
    // one request: Some(answer text) or None for "no more"
    let ask = |sn: &Rc<std::cell::RefCell<SolutionNode>>| -> Option<String> {
        if by_solve {
            let s = solve(Rc::clone(sn));
            if s == "No more." { None } else { Some(s) }
        } else {
            match next_solution(Rc::clone(sn)) {
                Some(ss) => { let g = sn.borrow().goal.clone(); Some(format!("{}", g.replace_variables(&ss))) },
                None => None,
            }
        }
    };
    let cap = Capture::start("c05a");
    let mut answers = 0;
    let mut exhausted = false;
    for _ in 0..60 { match ask(&sn) { Some(_) => answers += 1, None => { exhausted = true; break; } } }
    let _ = cap.end();
    if !exhausted { crate::skip(); return Ok(()); }
    let cap = Capture::start("c05b");
    let mut late: Option<(usize, String)> = None;
    for k in 0..4 { if let Some(a) = ask(&sn) { if late.is_none() { late = Some((k + 1, a)); } } }
    let written = cap.end();
    if let Some((k, a)) = late {
        return Err(format!("`{}` reported no more answers after {} answer(s); request {} after that answered `{}`", parts[2], answers, k, a));
    }
    if !written.is_empty() {
        return Err(format!("`{}` reported no more answers after {} answer(s); the requests after that wrote {:?}", parts[2], answers, written));
    }
    Ok(())
}

// ---- C03 ----------------------------------------------------------------------------------------------------------
const PRES: &[&str] = &["1 = 1", "$X = a", "$X = c", "$X = 2", "$Y = $X"];
const GOALS: &[&str] = &["p(a)", "p(c)", "p($X)", "e($X)", "q", "q2", "w", "x($X)", "$X = a", "$X == 2", "t($X)", "s($X)", "nothing($X)", "not(p($X))", "y($X, $Y)", "n1($X)",
    // comparisons that cannot be carried out (an operand unbound, an atom against a number) have no answer: not() of them succeeds
    "$X < 2", "$X >= 2", "$X > $Y", "$X <= $Z", "$X < b", "3 > $X", "$X == $Z"];

pub fn enum_not(_seed: u64) -> Vec<String> {
    let mut out = vec![];
    for k in 0..KBS.len() { for pre in PRES { for g in GOALS { out.push(format!("kb={}\u{1}{}\u{1}{}", k, pre, g)); } } }
    out
}

fn answers(kb: &KnowledgeBase, q: &str, limit: usize) -> Result<Option<Vec<String>>, String> {
    answers_then(kb, q, limit, 0)
}
/// the answers of q; after "no more" the query is asked `again` more times and what it then answers is appended
fn answers_then(kb: &KnowledgeBase, q: &str, limit: usize, again: usize) -> Result<Option<Vec<String>>, String> {
    let query = parse_query(q).map_err(|e| format!("setup: {}", e))?;
    let sn = make_base_node(Rc::new(query), kb);
    let mut out = vec![];
    for _ in 0..limit {
        match next_solution(Rc::clone(&sn)) {
            Some(ss) => { let g = sn.borrow().goal.clone(); out.push(format!("{}", g.replace_variables(&ss))); },
            None => {
                for _ in 0..again {
                    if let Some(ss) = next_solution(Rc::clone(&sn)) { let g = sn.borrow().goal.clone(); out.push(format!("{} (when asked again)", g.replace_variables(&ss))); }
                }
                return Ok(Some(out));
            },
        }
    }
    Ok(None)
}

pub fn check_not(case: &str) -> Result<(), String> {
    let parts: Vec<&str> = case.split('\u{1}').collect();
    if parts.len() != 3 { return Err("bad case".into()); }
    let k: usize = parts[0].trim_start_matches("kb=").parse().map_err(|_| "bad case")?;
    let (pre, g) = (parts[1], parts[2]);
    let extra = vec![
        format!("c03_pos($X, $Y) :- {}, {}.", pre, g),
        format!("c03_pre($X, $Y) :- {}.", pre),
        format!("c03_neg($X, $Y) :- {}, not({}).", pre, g),
        format!("c03_then($X, $Y, $V) :- {}, not({}), $V = after.", pre, g),
    ];
    let kb = load(k, &extra)?;
    let cap = Capture::start("c03");
    let r = (|| -> Result<(), String> {
        let pos = match answers(&kb, "c03_pos($X, $Y)", 40)? { Some(a) => a, None => { crate::skip(); return Ok(()); } };
        let prea = match answers(&kb, "c03_pre($X, $Y)", 40)? { Some(a) => a, None => { crate::skip(); return Ok(()); } };
        let neg = match answers_then(&kb, "c03_neg($X, $Y)", 40, 3)? { Some(a) => a, None => { crate::skip(); return Ok(()); } };
        let then = match answers(&kb, "c03_then($X, $Y, $V)", 40)? { Some(a) => a, None => { crate::skip(); return Ok(()); } };
        if prea.len() != 1 { return Err(format!("setup: the goal before not() has {} answers", prea.len())); }
        let expected = if pos.is_empty() { 1 } else { 0 };
        if neg.len() != expected {
            return Err(format!("`{}, {}` has {} answer(s), so `{}, not({})` must have {} - it has {}: {:?}", pre, g, pos.len(), pre, g, expected, neg.len(), neg));
        }
        if then.len() != expected { return Err(format!("`{}, not({}), $V = after` has {} answer(s), expected {}", pre, g, then.len(), expected)); }
        if expected == 1 {
            // not() binds nothing: the answer shows exactly the bindings of the goal before it
            let want = prea[0].replacen("c03_pre(", "c03_neg(", 1);
            if neg[0] != want { return Err(format!("`{}, not({})` answered {} but the bindings before not() were {}", pre, g, neg[0], prea[0])); }
            if !then[0].ends_with(", after)") { return Err(format!("the goal after not() did not run as usual: {}", then[0])); }
        }
        Ok(())
    })();
    let _ = cap.end();
    r
}

// ---- C02 ----------------------------------------------------------------------------------------------------------
// (an alternative that is a conjunction is written in parentheses of its own: see the note in rand_literal)
const CUT_KB: &[&str] = &[
    "t(1).", "t(2).", "t(3).",
    "a($X) :- t($X), !, $X == 2.", "a(9).",
    "b($X) :- t($X), !.", "b(9).",
    "c($X) :- t($X), $X > 1, !.", "c(9).",
    "d($X, $Y) :- t($X), b($Y).",
    "e($X) :- b($X), t($Y), $Y > 2.",
    "g(2).", "g(3).", "f($X) :- t($X), g($X), !.",
    "h($X) :- (t($X), !) ; $X = 7.",
    "j($X) :- $X > 1, !.", "j(1).", "i($X) :- t($X), j($X).",
    "k($X) :- t($X), !, fail.", "k(5).",
    "n($A, $B) :- $B = 20, !.", "n($A, 30).", "m($X) :- t($X), n($X, $Y), $Y > 10.",
    "o :- not(k(1)).",
    "q($X) :- $X < 3, !, $X > 1.", "q(3).", "p($X) :- t($X), q($X).",
    "r($X) :- t($X), !, t($Y), $Y > $X.",
    "s($X, $Y) :- t($X), t($Y), !.",
    "cnt(0) :- !.", "cnt($N) :- $N > 0, $M = $N - 1, cnt($M).",
    "u($X) :- (t($X), $X > 1) ; (t($X), !, $X > 5).", "u(8).",
    "v($X) :- t($X), w($X, $Y), $Y == 2.", "w($A, $B) :- t($B), $B >= $A, !.",
    "x($X) :- d($X, $Y), !, $X > 5.", "x(4).",
    "y($X) :- (b($X), c($Y), !, $Y > 5) ; $X = 6.", "y(0).",
    "z($X) :- t($X), not(a($X)), $X > 1.",
    "first([$H | $T], $H) :- !.", "first($L, none).",
    "mem($X, [$X | $T]).", "mem($X, [$H | $T]) :- mem($X, $T).", "once_mem($X, $L) :- mem($X, $L), !.",
];
const CUT_QUERIES: &[&str] = &["a($X)", "a(9)", "b($X)", "b(2)", "b(9)", "c($X)", "d($X, $Y)", "e($X)", "f($X)", "h($X)", "i($X)", "k($X)", "k(5)", "m($X)", "o",
    "p($X)", "r($X)", "s($X, $Y)", "cnt(3)", "u($X)", "v($X)", "x($X)", "y($X)", "z($X)", "first([a, b], $F)", "first([], $F)", "once_mem($X, [a, b, c])", "mem($X, [a, b])", "t($X)"];

pub fn enum_cut(_seed: u64) -> Vec<String> { CUT_QUERIES.iter().map(|q| q.to_string()).collect() }

pub fn check_cut(case: &str) -> Result<(), String> {
    let mut kb = KnowledgeBase::new();
    for r in CUT_KB { let rule = parse_rule(r).map_err(|e| format!("setup: {}: {}", r, e))?; add_rules(&mut kb, vec![rule]); }
    let cap = Capture::start("c02");
    let r = (|| -> Result<(), String> {
        let query = parse_query(case).map_err(|e| format!("setup: {}", e))?;
        let expected = match crate::o_ref::reference_answers(&kb, &query, 30) { Some(a) => a, None => { crate::skip(); return Ok(()); } };
        let got = match answers(&kb, case, 31)? { Some(a) => a, None => { crate::skip(); return Ok(()); } };
        let e: Vec<String> = expected.iter().map(|s| crate::o_ref::normalise(s)).collect();
        let g: Vec<String> = got.iter().map(|s| crate::o_ref::normalise(s)).collect();
        if e != g { return Err(format!("`{}`: the engine answers {:?}, depth-first resolution with cut answers {:?}", case, got, expected)); }
        Ok(())
    })();
    let _ = cap.end();
    r
}

// ---- random programs: the engine against the reference interpreter, and asked again after exhaustion -------------------
// Stratified (a rule of level k calls predicates of lower levels only), so every query terminates.
use crate::terms::Rng;

const CONSTS: &[&str] = &["a", "b", "c", "1", "2", "3"];

fn rand_arg(r: &mut Rng, vars: &[&str]) -> String {
    match r.below(12) {
        0 | 1 | 2 | 3 | 4 => vars[r.below(vars.len())].to_string(),
        5 | 6 | 7 => CONSTS[r.below(CONSTS.len())].to_string(),
        8 => format!("[{}, {}]", vars[r.below(vars.len())], vars[r.below(vars.len())]),
        9 => format!("s({})", vars[r.below(vars.len())]),
        // the anonymous variable and function terms as arguments of a call (a clause index must not take them for constants;
        // bound into a variable a function term reaches the answer: replace_variables resolves it since 8.31)
        10 => "$_".to_string(),
        _ => ["add(1, 1)", "subtract(3, 2)", "add(1, 2)", "multiply(1, 2)"][r.below(4)].to_string(),
    }
}
// a function term as an argument - only for the ground fact predicates: bound into a variable it would reach an answer, and
// replace_variables panics on a function term ("Unknown unifiable": its contract, C08, is stated for plain terms)
fn rand_fact_arg(r: &mut Rng, vars: &[&str]) -> String {
    if r.below(6) == 0 { ["add(1, 1)", "subtract(3, 2)", "add(1, 2)", "multiply(1, 2)"][r.below(4)].to_string() } else { rand_arg(r, vars) }
}
fn rand_call(r: &mut Rng, level: usize, vars: &[&str]) -> String {
    // predicates below `level`: facts f0/1 g0/2 h0/1, rules r{k}a/1 r{k}b/2 for 1 <= k < level
    let k = r.below(level);
    if k == 0 {
        match r.below(5) {
            0 => format!("f0({})", rand_fact_arg(r, vars)),
            1 => format!("g0({}, {})", rand_fact_arg(r, vars), rand_fact_arg(r, vars)),
            2 => format!("h0({})", rand_fact_arg(r, vars)),
            3 => format!("k0({}, {})", rand_arg(r, vars), rand_arg(r, vars)),
            _ => format!("w0({})", rand_arg(r, vars)),
        }
    } else if r.below(2) == 0 { format!("r{}a({})", k, rand_arg(r, vars)) }
    else { format!("r{}b({}, {})", k, rand_arg(r, vars), rand_arg(r, vars)) }
}
fn rand_literal(r: &mut Rng, level: usize, vars: &[&str], cuts: bool, depth: usize) -> String {
    match r.below(20) {
        0..=8 => rand_call(r, level, vars),
        9 | 10 => format!("{} = {}", vars[r.below(vars.len())], rand_arg(r, vars)),
        11 => format!("{} {} {}", vars[r.below(vars.len())], ["==", "<", ">=", ">", "<="][r.below(5)], if r.below(3) == 0 { vars[r.below(vars.len())].to_string() } else { CONSTS[r.below(CONSTS.len())].to_string() }),
        12 => format!("not({})", rand_call(r, level, vars)),
        13 => if r.below(3) == 0 { format!("not({} {} {})", vars[r.below(vars.len())], ["==", "<", ">=", ">", "<="][r.below(5)], CONSTS[r.below(CONSTS.len())]) } else { format!("not({})", rand_call(r, level, vars)) },
        // (no cut inside a parenthesised group: there the engine also stops backtracking into the goals to the RIGHT of the cut once
        //  control has left the group - the documented "disabled on the cut and all its ancestors" - which the textbook search does not;
        //  DESIGN.md 8.26.  Cuts inside top-level alternatives are in the fixed programs of c02_cut.)
        14 => if cuts && depth == 0 { "!".to_string() } else { rand_call(r, level, vars) },
        15 => "fail".to_string(),
        16 | 17 => if r.below(5) == 0 { format!("print_list({}, {})", rand_arg(r, vars), vars[r.below(vars.len())]) } else { format!("print(<%s>, {})", vars[r.below(vars.len())]) },
        18 => if r.below(3) == 0 { "nl".to_string() } else if r.below(2) == 0 {
                  // functor with the arity given or asked for (seed C06-5)
                  { let (t, n) = [("s(a)", "1"), ("g0(a, 1)", "2"), ("[a]", "1"), ("s($Z)", "1")][r.below(4)];
                    format!("functor({}, {}, {})", t, ["$X", "$Y"][r.below(2)], if r.below(3) == 0 { "$W" } else { n }) }
              } else if r.below(2) == 0 { format!("count([{}, {}], {})", rand_arg(r, vars), rand_arg(r, vars), vars[r.below(vars.len())]) }
              else { format!("append({}, [{}], {})", rand_arg(r, vars), rand_arg(r, vars), vars[r.below(vars.len())]) },
        _ => if depth == 0 {
                 // one level of parentheses only: a group inside a group trips the tokenizer (`((a, b); c)` is rejected with
                 // "Unbalanced parentheses", `((a), b), c` duplicates a goal: DESIGN.md 8.22 / 8.25 - parenthesised groups are
                 // outside every claim); inside the group `a, b ; c` needs no parentheses since the repair of 8.25
                 let alt = |r: &mut Rng| {
                     if r.below(2) == 0 { rand_literal(r, level, vars, cuts, 1) }
                     else { format!("{}, {}", rand_literal(r, level, vars, cuts, 1), rand_literal(r, level, vars, cuts, 1)) }
                 };
                 let (x, y) = (alt(r), alt(r));
                 format!("({} ; {})", x, y)
             } else { rand_call(r, level, vars) },
    }
}
fn rand_conj(r: &mut Rng, level: usize, vars: &[&str], cuts: bool, depth: usize, max: usize) -> String {
    let n = 1 + r.below(max);
    let mut parts = vec![];
    for _ in 0..n { parts.push(rand_literal(r, level, vars, cuts, depth)); }
    // failure-driven loops (`.., print(..), fail`) and bodies that start from a template (`$W = [$X, $Z], p($W), ..`) are
    // the shapes in which a stale node is most easily seen: make them common
    if depth == 0 && r.below(6) == 0 { parts.push(format!("print(<%s>, {})", vars[r.below(vars.len())])); parts.push("fail".to_string()); }
    if depth == 0 && r.below(6) == 0 { parts.insert(0, format!("$W = {}", ["[$X, $Z]", "s($Z)", "[$Z, $Y]"][r.below(3)])); }
    parts.join(", ")
}
pub fn rand_program(r: &mut Rng, cuts: bool) -> (Vec<String>, String) {
    let mut rules: Vec<String> = vec![];
    for c in ["a", "b", "1", "2"] { if r.below(4) > 0 { rules.push(format!("f0({}).", c)); } }
    rules.push("f0(c).".into());
    for (x, y) in [("a", "1"), ("b", "2"), ("a", "2"), ("c", "3"), ("1", "a")] { if r.below(3) > 0 { rules.push(format!("g0({}, {}).", x, y)); } }
    rules.push("g0(b, b).".into());
    for t in ["[a, 1]", "[b, 2]", "s(a)", "s(2)", "[c, c]"] { if r.below(3) > 0 { rules.push(format!("h0({}).", t)); } }
    rules.push("h0([1, a]).".into());
    // facts with variables of their own: at top level, and inside a structure or a list (a fact that matches without
    // growing the substitution set still leaves its renamed variables reachable: seed C01-1)
    for t in ["k0($A, $A).", "k0(s($C), $D).", "k0([$P, $Q], c).", "w0(s($C)).", "w0([$P, $Q])."] { if r.below(3) > 0 { rules.push(t.to_string()); } }
    rules.push("w0($A).".into());
    let vars = ["$X", "$Y", "$Z", "$W"];
    for level in 1..=3 {
        let na = 1 + r.below(3);
        for _ in 0..na {
            if r.below(6) == 0 { rules.push(format!("r{}a({}).", level, CONSTS[r.below(CONSTS.len())])); }
            else { rules.push(format!("r{}a($X) :- {}.", level, rand_conj(r, level, &vars, cuts, 0, 4))); }
        }
        let nb = 1 + r.below(2);
        for _ in 0..nb { rules.push(format!("r{}b($X, $Y) :- {}.", level, rand_conj(r, level, &vars, cuts, 0, 4))); }
    }
    let q = match r.below(4) { 0 => "r3a($Q)".to_string(), 1 => "r3b($Q, $R)".to_string(), 2 => format!("r3b({}, $R)", CONSTS[r.below(CONSTS.len())]), _ => "r2a($Q)".to_string() };
    (rules, q)
}

fn prog_cases(seed: u64, mode: &str, cuts: bool, n: usize, need: &str) -> Vec<String> {
    let mut r = Rng(seed.wrapping_mul(0x9E3779B97F4A7C15) ^ 0x5DEECE66D | 1);
    let mut out = vec![];
    let mut tries = 0;
    while out.len() < n && tries < n * 20 {
        tries += 1;
        let (rules, q) = rand_program(&mut r, cuts);
        if !need.is_empty() && !rules.iter().any(|x| x.contains(need)) { continue; }
        out.push(format!("mode={}\u{1}{}\u{1}{}", mode, rules.join("\u{2}"), q));
    }
    out
}
pub fn enum_prog_answers(seed: u64) -> Vec<String> { prog_cases(seed + 4000, "answers", false, 3000, "") }
pub fn enum_prog_solve_all(seed: u64) -> Vec<String> { prog_cases(seed + 5000, "solveall", false, 1500, "") }
pub fn enum_prog_reask(seed: u64) -> Vec<String> { prog_cases(seed, "reask", true, 3000, "") }
pub fn enum_prog_cut(seed: u64) -> Vec<String> { prog_cases(seed + 1000, "answers", true, 2000, "!") }
pub fn enum_prog_not(seed: u64) -> Vec<String> { prog_cases(seed + 2000, "answers", false, 2000, "not(") }

/// runs the query on the engine: (answers, exhausted?, output, what requests after exhaustion gave, what they wrote)
fn engine_run(kb: &KnowledgeBase, q: &str, max: usize, again: usize) -> Result<(Vec<String>, bool, String, Vec<String>, String), String> {
    let query = parse_query(q).map_err(|e| format!("setup: {}", e))?;
    let sn = make_base_node(Rc::new(query), kb);
    let cap = Capture::start("eng");
    let mut out = vec![];
    let mut exhausted = false;
    for _ in 0..max {
        match next_solution(Rc::clone(&sn)) {
            Some(ss) => { let g = sn.borrow().goal.clone(); out.push(format!("{}", g.replace_variables(&ss))); },
            None => { exhausted = true; break; },
        }
    }
    let written = cap.end();
    let mut late = vec![];
    let mut late_out = String::new();
    if exhausted {
        let cap = Capture::start("eng2");
        for _ in 0..again { if let Some(ss) = next_solution(Rc::clone(&sn)) { let g = sn.borrow().goal.clone(); late.push(format!("{}", g.replace_variables(&ss))); } }
        late_out = cap.end();
    }
    Ok((out, exhausted, written, late, late_out))
}

pub fn check_program(case: &str) -> Result<(), String> {
    let parts: Vec<&str> = case.split('\u{1}').collect();
    if parts.len() != 3 { return Err("bad case".into()); }
    let mode = parts[0].trim_start_matches("mode=");
    let mut kb = KnowledgeBase::new();
    // a generated rule the parser rejects is a limitation of the generator (or a matter of C18 / C19), not of the search
    for r in parts[1].split('\u{2}') { match parse_rule(r) { Ok(rule) => add_rules(&mut kb, vec![rule]), Err(_) => { crate::skip(); return Ok(()); } } }
    let q = parts[2];
    // the reference interpreter first: it also tells whether the program terminates within the step limit and stays
    // free of cyclic bindings (programs that need the occurs check are outside every claim and make printing recurse forever)
    let query = parse_query(q).map_err(|e| format!("setup: {}", e))?;
    let cap = Capture::start("ref");
    let expected = crate::o_ref::reference_answers(&kb, &query, 61);
    let ref_out = cap.end();
    let expected = match expected { Some(a) => a, None => { crate::skip(); return Ok(()); } };
    if expected.len() > 60 { crate::skip(); return Ok(()); }
    let (got, exhausted, written, late, late_out) = engine_run(&kb, q, 70, 3)?;
    let show = || parts[1].replace('\u{2}', " ");
    if mode == "reask" {
        if !exhausted { crate::skip(); return Ok(()); }
        if !late.is_empty() { return Err(format!("`{}` reported no more answers after {} answer(s), then answered {:?}; program: {}", q, got.len(), late, show())); }
        if !late_out.is_empty() { return Err(format!("`{}` reported no more answers after {} answer(s); the requests after that wrote {:?}; program: {}", q, got.len(), late_out, show())); }
        return Ok(());
    }
    if mode == "solveall" {
        // solve_all(): the same answers, each as `$Var = value, ..` for the variables among the query's arguments, in argument order
        let qv = match &query { Goal::ComplexGoal(Unifiable::SComplex(ts)) => ts.clone(), _ => return Err("setup".into()) };
        let mut want: Vec<String> = vec![];
        for a in &expected {
            // a is the query with its variables replaced: take it apart again
            let at = match parse_complex(a) { Ok(Unifiable::SComplex(ts)) => ts, _ => { crate::skip(); return Ok(()); } };
            let mut parts2 = vec![];
            for i in 1..qv.len() { if let Unifiable::LogicVar { name, .. } = &qv[i] { parts2.push(format!("{} = {}", name, at[i])); } }
            want.push(parts2.join(", "));
        }
        let query2 = parse_query(q).map_err(|e| format!("setup: {}", e))?;
        let sn = make_base_node(Rc::new(query2), &kb);
        let cap = Capture::start("sa");
        let got_all = solve_all(sn);
        let _ = cap.end();
        if got_all.iter().any(|x| x.starts_with("Query timed out")) { crate::skip(); return Ok(()); }
        let g2: Vec<String> = got_all.iter().map(|x| crate::o_ref::normalise(x)).collect();
        let w2: Vec<String> = want.iter().map(|x| crate::o_ref::normalise(x)).collect();
        if g2 != w2 { return Err(format!("`{}`: solve_all reports {:?}, depth-first resolution gives {:?}; program: {}", q, got_all, want, show())); }
        return Ok(());
    }
    // mode answers: against the reference interpreter (answers and output)
    let e: Vec<String> = expected.iter().map(|s| crate::o_ref::normalise(s)).collect();
    let g: Vec<String> = got.iter().map(|s| crate::o_ref::normalise(s)).collect();
    if e != g { return Err(format!("`{}`: the engine answers {:?}, depth-first resolution answers {:?}; program: {}", q, got, expected, show())); }
    if mode == "output" && crate::o_ref::normalise(&written) != crate::o_ref::normalise(&ref_out) {
        return Err(format!("`{}`: the engine wrote {:?}, depth-first resolution writes {:?}; program: {}", q, written, ref_out, show()));
    }
    Ok(())
}

// ---- C02: the unsafe walk of set_no_backtracking() on real nodes (bounded check of the specification `walked`) -------------
// case: "len=<chain length 0..5>;heads=<bitmask: which chain nodes have a head node>;hh=<bitmask: which of those heads have a head>"
pub fn enum_walk(_seed: u64) -> Vec<String> {
    let mut out = vec![];
    for len in 0..=5usize { for heads in 0..(1u32 << (len + 1)) { for hh in [0u32, heads, heads & 0b10101] {
        out.push(format!("len={};heads={};hh={}", len, heads, hh));
    } } }
    out
}
pub fn check_walk(case: &str) -> Result<(), String> {
    use std::cell::RefCell;
    let mut len = 0usize; let mut heads = 0u32; let mut hh = 0u32;
    for kv in case.split(';') {
        let (k, v) = kv.split_once('=').ok_or("bad case")?;
        match k { "len" => len = v.parse().map_err(|_| "bad case")?, "heads" => heads = v.parse().map_err(|_| "bad case")?, "hh" => hh = v.parse().map_err(|_| "bad case")?, _ => return Err("bad case".into()) }
    }
    let kb = KnowledgeBase::new();
    let g = Rc::new(Goal::Nil);
    let mk = || Rc::new(RefCell::new(SolutionNode::new(Rc::clone(&g), &kb)));
    // chain[0] is the node of the cut, chain[i + 1] the parent of chain[i]; the last one has no parent
    let chain: Vec<_> = (0..=len).map(|_| mk()).collect();
    for i in 0..len { chain[i].borrow_mut().parent_node = Some(Rc::clone(&chain[i + 1])); }
    let mut head_nodes = vec![];
    let mut head_heads = vec![];
    for i in 0..=len {
        if heads & (1 << i) != 0 {
            let h = mk();
            h.borrow_mut().parent_node = Some(Rc::clone(&chain[i]));
            if hh & (1 << i) != 0 { let x = mk(); x.borrow_mut().parent_node = Some(Rc::clone(&h)); h.borrow_mut().head_sn = Some(Rc::clone(&x)); head_heads.push(x); }
            chain[i].borrow_mut().head_sn = Some(Rc::clone(&h));
            head_nodes.push((i, h));
        }
    }
    // nodes that point into the chain without being on it: a child and a tail of every chain node, and a node above nothing
    let mut strangers = vec![];
    for i in 0..=len {
        let c = mk(); c.borrow_mut().parent_node = Some(Rc::clone(&chain[i])); c.borrow_mut().head_sn = Some(Rc::clone(&chain[0]));
        chain[i].borrow_mut().tail_sn = Some(Rc::clone(&c));
        strangers.push(c);
    }
    let snapshot = |n: &Rc<RefCell<SolutionNode>>| { let b = n.borrow(); (b.more_solutions, b.rule_index, b.number_facts_rules, b.child.is_some(), b.tail_sn.is_some(), b.head_sn.is_some(), b.parent_node.is_some(), b.operator_tail.is_some(), b.ss.len()) };
    let before: Vec<_> = chain.iter().chain(head_nodes.iter().map(|p| &p.1)).chain(head_heads.iter()).chain(strangers.iter()).map(|n| snapshot(n)).collect();

    chain[0].borrow_mut().set_no_backtracking();

    for (i, n) in chain.iter().enumerate() { if !n.borrow().no_backtracking { return Err(format!("chain node {} (0 = the cut) is not flagged", i)); } }
    for (i, h) in &head_nodes {
        // the head of the cut's own node is not part of the walk (the walk starts at the parent); the heads of its ancestors are
        let expect = *i >= 1;
        if h.borrow().no_backtracking != expect { return Err(format!("head node of chain node {}: flagged = {}, expected {}", i, h.borrow().no_backtracking, expect)); }
    }
    for x in &head_heads { if x.borrow().no_backtracking { return Err("the head of a head node was flagged".into()); } }
    for s in &strangers { if s.borrow().no_backtracking { return Err("a node that points into the chain (a tail node) was flagged".into()); } }
    let after: Vec<_> = chain.iter().chain(head_nodes.iter().map(|p| &p.1)).chain(head_heads.iter()).chain(strangers.iter()).map(|n| snapshot(n)).collect();
    if before != after { return Err("the walk changed a field other than no_backtracking".into()); }
    // break the Rc cycles made above (tail_sn <-> parent_node) so that the nodes are freed
    for n in &chain { n.borrow_mut().tail_sn = None; n.borrow_mut().head_sn = None; }
    Ok(())
}

// ---- C04 ----------------------------------------------------------------------------------------------------------
// c04_format: format_for_print_pred against a formatter written from the statement (markers of the first string replaced,
// left to right, by the later strings; left-over strings follow one another; left-over markers vanish).
pub fn enum_format(seed: u64) -> Vec<String> {
    let firsts = ["", "%s", "a", "a %s b", "%s%s", "x %s y %s z", "%s tail", "head %s", "100% sure %s", "%", "s%s%", "é %s ü", "%s %s %s %s"];
    let args: [&[&str]; 7] = [&[], &["1"], &["1", "2"], &["", "2"], &["%s"], &["1", "2", "3", "4", "5"], &["é", "%"]];
    let mut out = vec![];
    for f in firsts { for a in args { let mut v = vec![f.to_string()]; v.extend(a.iter().map(|x| x.to_string())); out.push(v.join("\u{1}")); } }
    let mut r = Rng(seed.wrapping_mul(0x9E3779B97F4A7C15) | 1);
    let bits = ["%s", "%", "s", "a", " ", "%%s", "b%", "é"];
    for _ in 0..200 {
        let n = 1 + r.below(4);
        let mut v = vec![];
        for _ in 0..n { let m = r.below(5); let mut s = String::new(); for _ in 0..m { s.push_str(bits[r.below(bits.len())]); } v.push(s); }
        out.push(v.join("\u{1}"));
    }
    out
}
pub fn check_format(case: &str) -> Result<(), String> {
    let strs: Vec<String> = case.split('\u{1}').map(|s| s.to_string()).collect();
    // from the statement
    let pieces: Vec<&str> = strs[0].split("%s").collect();
    let mut want = String::new();
    let n = pieces.len().max(strs.len());
    for k in 0..n {
        if k < pieces.len() { want.push_str(pieces[k]); }
        if k + 1 < strs.len() { want.push_str(&strs[k + 1]); }
    }
    let got = format_for_print_pred(&strs);
    if got != want { return Err(format!("format_for_print_pred({:?}) = {:?}, the statement gives {:?}", strs, got, want)); }
    Ok(())
}
// c04_prog: the text written during a whole search against the reference interpreter (random programs with print / nl)
// (without cuts: a cut inside a parenthesised group also stops backtracking into the goals to its right within the group once
// control has left the group - the documented "disabled on the cut and all its ancestors" - where the textbook search would
// still retry them; answers are the same, the output of retried goals is not.  Recorded in DESIGN.md 8.26, not claimed.)
pub fn enum_prog_output(seed: u64) -> Vec<String> { prog_cases(seed + 3000, "output", false, 2000, "print(") }

// ---- C11: answers do not depend on how program variables are named (bounded, metamorphic) -----------------------------------
// A random program and the same program with the variables of every rule renamed consistently (a fresh bijection per rule, drawn
// from a pool that contains the query's own variable names, so that rules reuse them and each other's names): same answers, same
// order, same output.  case = program, renamed program, query.
fn rename_rule(r: &mut Rng, rule: &str) -> String {
    let pool = ["$Q", "$R", "$X", "$X2", "$A", "$Same", "$V_1", "$V_2", "$X_3", "$W"];
    let olds = ["$X", "$Y", "$Z", "$W"];
    // a random injective map olds -> pool
    let mut picks: Vec<&str> = pool.to_vec();
    let mut map = vec![];
    for o in olds { let k = r.below(picks.len()); map.push((o, picks.remove(k))); }
    // replace whole variable tokens only
    let cs: Vec<char> = rule.chars().collect();
    let mut out = String::new();
    let mut i = 0;
    while i < cs.len() {
        if cs[i] == '$' {
            let mut j = i + 1;
            while j < cs.len() && (cs[j].is_alphanumeric() || cs[j] == '_') { j += 1; }
            let tok: String = cs[i..j].iter().collect();
            match map.iter().find(|(o, _)| *o == tok) { Some((_, n)) => out.push_str(n), None => out.push_str(&tok) }
            i = j;
        } else { out.push(cs[i]); i += 1; }
    }
    out
}
pub fn enum_rename_prog(seed: u64) -> Vec<String> {
    let mut r = Rng((seed + 6000).wrapping_mul(0x9E3779B97F4A7C15) ^ 0x5DEECE66D | 1);
    let mut out = vec![];
    for _ in 0..1500 {
        let (rules, q) = rand_program(&mut r, true);
        let renamed: Vec<String> = rules.iter().map(|x| rename_rule(&mut r, x)).collect();
        out.push(format!("{}\u{1}{}\u{1}{}", rules.join("\u{2}"), renamed.join("\u{2}"), q));
    }
    out
}
pub fn check_rename_prog(case: &str) -> Result<(), String> {
    let parts: Vec<&str> = case.split('\u{1}').collect();
    if parts.len() != 3 { return Err("bad case".into()); }
    let load = |text: &str| -> Option<KnowledgeBase> {
        let mut kb = KnowledgeBase::new();
        for r in text.split('\u{2}') { match parse_rule(r) { Ok(rule) => add_rules(&mut kb, vec![rule]), Err(_) => return None } }
        Some(kb)
    };
    let (kb1, kb2) = match (load(parts[0]), load(parts[1])) { (Some(a), Some(b)) => (a, b), _ => { crate::skip(); return Ok(()); } };
    // the reference interpreter first: skips programs with cyclic bindings or too many steps
    let query = parse_query(parts[2]).map_err(|e| format!("setup: {}", e))?;
    let cap = Capture::start("ref11");
    let ok = crate::o_ref::reference_answers(&kb1, &query, 61);
    let _ = cap.end();
    if ok.is_none() { crate::skip(); return Ok(()); }
    let (a1, e1, o1, _, _) = engine_run(&kb1, parts[2], 70, 0)?;
    let (a2, e2, o2, _, _) = engine_run(&kb2, parts[2], 70, 0)?;
    if !e1 || !e2 { crate::skip(); return Ok(()); }
    let n = |v: &Vec<String>| -> Vec<String> { v.iter().map(|s| crate::o_ref::normalise(s)).collect() };
    if n(&a1) != n(&a2) { return Err(format!("`{}`: answers {:?} with the rules as written, {:?} with their variables renamed; program: {} / renamed: {}", parts[2], a1, a2, parts[0].replace('\u{2}', " "), parts[1].replace('\u{2}', " "))); }
    if crate::o_ref::normalise(&o1) != crate::o_ref::normalise(&o2) { return Err(format!("`{}`: output {:?} with the rules as written, {:?} with their variables renamed; program: {}", parts[2], o1, o2, parts[0].replace('\u{2}', " "))); }
    Ok(())
}

// ---- C08: resolving / printing an answer whose query contains a function term -------------------------------------------
// (program, query, expected solve_all output)
const FN_ANSWERS: &[(&str, &str, &[&str])] = &[
    ("num(2, two).\u{2}num(3, three).", "num(add(1, 1), $W)", &["$W = two"]),
    ("num(2, two).\u{2}num(3, three).", "num(add(1, 2), $W)", &["$W = three"]),
    ("num(2, two).\u{2}num(3, three).", "num(subtract(9, 1), $W)", &[]),
    ("w($A).", "w(add(1, 2))", &[""]),
    ("pair($A, $A).", "pair($X, multiply(2, 3))", &["$X = 6"]),
    ("lst([$H | $T], $H).", "lst([add(1, 1), b], $X)", &["$X = 2"]),
];
pub fn enum_fn_answers(_seed: u64) -> Vec<String> { (0..FN_ANSWERS.len()).map(|k| format!("case={}", k)).collect() }
pub fn check_fn_answers(case: &str) -> Result<(), String> {
    let k: usize = case.trim_start_matches("case=").parse().map_err(|_| "bad case")?;
    let (prog, q, want) = FN_ANSWERS[k];
    let mut kb = KnowledgeBase::new();
    for r in prog.split('\u{2}') { add_rules(&mut kb, vec![parse_rule(r).map_err(|e| format!("setup: {}", e))?]); }
    let query = parse_query(q).map_err(|e| format!("setup: {}", e))?;
    let sn = make_base_node(Rc::new(query), &kb);
    let cap = Capture::start("c08fn");
    let got = solve_all(sn);
    let _ = cap.end();
    let w: Vec<String> = want.iter().map(|s| s.to_string()).collect();
    if got != w { return Err(format!("`{}` over `{}`: solve_all gives {:?}, expected {:?}", q, prog.replace('\u{2}', " "), got, w)); }
    Ok(())
}

// ---- C04, print_list: one line per argument, in argument order (supplementary to the proof; witnesses) --------------------
// case: `<bindings>\u{1}<arguments>`; bindings `$V=term;...` are made by unification in that order, the arguments are
// parsed with the bindings' variable names.  Expected text from the statement of the built-in (README: "prints out each
// argument on its own line, a list as its comma-separated elements"), written here independently of the engine's code.
pub fn enum_print_list(_seed: u64) -> Vec<String> {
    let binds = ["", "$X=a", "$X=[a, b, c]", "$X=[a | $T];$T=[b, c]", "$X=$Y;$Y=[1, 2]", "$X=f(a, $Y);$Y=2", "$X=[]", "$X=[a, $Y];$Y=[b]"];
    let args = ["", "a", "$X", "a, b", "$X, a", "a, $X", "[a, b], [c]", "$X, $X", "$Z", "[a | $X]", "f($X), 3.5, $X", "[$X, b], $X, c", "[], a"];
    let mut out = vec![];
    for b in binds { for a in args { out.push(format!("{}\u{1}{}", b, a)); } }
    out
}
pub fn check_print_list(case: &str) -> Result<(), String> {
    let (binds, args) = case.split_once('\u{1}').ok_or("bad case")?;
    // one variable table for the bindings and the arguments
    let mut names: Vec<String> = vec![];
    let mut with_ids = |t: &Unifiable| -> Unifiable {
        fn go(t: &Unifiable, names: &mut Vec<String>) -> Unifiable {
            match t {
                Unifiable::LogicVar { name, .. } => {
                    let k = match names.iter().position(|n| n == name) { Some(k) => k, None => { names.push(name.clone()); names.len() - 1 } };
                    Unifiable::LogicVar { id: k + 1, name: name.clone() }
                },
                Unifiable::SComplex(ts) => Unifiable::SComplex(ts.iter().map(|x| go(x, names)).collect()),
                Unifiable::SFunction { name, terms } => Unifiable::SFunction { name: name.clone(), terms: terms.iter().map(|x| go(x, names)).collect() },
                Unifiable::SLinkedList { term, next, count, tail_var } =>
                    Unifiable::SLinkedList { term: Box::new(go(term, names)), next: Box::new(go(next, names)), count: *count, tail_var: *tail_var },
                o => o.clone(),
            }
        }
        go(t, &mut names)
    };
    let mut ss = empty_ss!();
    for b in binds.split(';').filter(|b| !b.is_empty()) {
        let (v, t) = b.split_once('=').ok_or("bad binding")?;
        let (v, t) = (with_ids(&parse_term(v)?), with_ids(&parse_term(t)?));
        ss = v.unify(&t, &ss).ok_or("the bindings do not unify")?;
    }
    let terms: Vec<Unifiable> = if args.is_empty() { vec![] } else {
        match parse_complex(&format!("f({})", args))? { Unifiable::SComplex(ts) => ts[1..].iter().map(|t| with_ids(t)).collect(), _ => return Err("bad arguments".into()) } };
    // expected, from the statement: the end of a variable's chain
    fn resolve<'b>(t: &'b Unifiable, ss: &'b SubstitutionSet) -> &'b Unifiable {
        let mut cur = t; let mut fuel = 1000;
        while let Unifiable::LogicVar { id, .. } = cur { if fuel == 0 { break; } fuel -= 1; if *id < ss.len() { if let Some(n) = &ss[*id] { cur = n; continue; } } break; }
        cur
    }
    // the elements of a list, tail variables followed through the bindings
    fn elements(l: &Unifiable, ss: &SubstitutionSet, out: &mut Vec<String>) {
        let mut cur = l;
        loop {
            match cur {
                Unifiable::SLinkedList { term, next, tail_var, .. } => {
                    if **term == Unifiable::Nil { return; }
                    if *tail_var {
                        let t = resolve(term, ss);
                        if let Unifiable::SLinkedList { .. } = t { cur = t; continue; }
                        if **term != Unifiable::Anonymous || true { out.push(format!("{}", t)); }
                        return;
                    }
                    out.push(format!("{}", resolve(term, ss)));
                    cur = next;
                },
                _ => return,
            }
        }
    }
    // (a list with an UNBOUND variable among its elements or as its tail is outside the comparison: format_slist writes
    //  nothing for such an element - `[$X, b]` gives ", b", `[a | $T]` gives "a" - and no property states the text of a list;
    //  recorded as an observation, DESIGN.md 8.35)
    fn has_unbound(t: &Unifiable, ss: &SubstitutionSet, depth: usize) -> bool {
        if depth > 50 { return true; }
        match t {
            Unifiable::LogicVar { .. } => { let r = resolve(t, ss); if let Unifiable::LogicVar { .. } = r { true } else { has_unbound(r, ss, depth + 1) } },
            Unifiable::SLinkedList { term, next, .. } => has_unbound(term, ss, depth + 1) || has_unbound(next, ss, depth + 1),
            _ => false,
        }
    }
    let mut want = String::new();
    for (k, t) in terms.iter().enumerate() {
        let v = if let Unifiable::LogicVar { .. } = t { resolve(t, &ss) } else { t };
        if let Unifiable::SLinkedList { .. } = v { if has_unbound(v, &ss, 0) { crate::skip(); return Ok(()); } }
        if let Unifiable::SLinkedList { .. } = v {
            if k > 0 { want.push_str(",\n"); }
            let mut es = vec![]; elements(v, &ss, &mut es);
            want.push_str(&es.join(", ")); want.push('\n');
        } else { want.push_str(&format!("{}\n", v)); }
    }
    let bip = BuiltInPredicate::new("print_list".to_string(), if terms.is_empty() { None } else { Some(terms.clone()) });
    let cap = Capture::start("pl");
    next_solution_print_list(bip, &ss);
    let got = cap.end();
    if got != want { return Err(format!("print_list({}) with {} wrote {:?}, the statement gives {:?}", args, if binds.is_empty() { "no bindings" } else { binds }, got, want)); }
    Ok(())
}
