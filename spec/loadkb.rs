// ---------------------------------------------------------------------------
// spec/loadkb.rs -- C21 at the top: load_kb_from_file = the rules of the file, parsed one by one with the rule parser and added in order
// ---------------------------------------------------------------------------
// T10: functions of their arguments (the file system is the fixed `file_lines` of spec/io.rs)
pub uninterp spec fn read_fn(file_name: Seq<char>) -> Result<Vec<String>, String>;      // read_facts_and_rules
pub uninterp spec fn parse_rule_fn(text: Seq<char>) -> Result<Rule, String>;            // parse_rule
pub uninterp spec fn kb_add(kb: KnowledgeBase, rules: Seq<Rule>) -> KnowledgeBase;      // add_rules
// the knowledge base after the first n rule texts have been parsed and added, one by one
pub open spec fn adds(kb: KnowledgeBase, texts: Seq<String>, n: int) -> KnowledgeBase
    decreases n,
{
    if n <= 0 { kb } else { kb_add(adds(kb, texts, n - 1), seq![parse_rule_fn(texts[n - 1]@)->Ok_0]) }
}
pub open spec fn all_parse(texts: Seq<String>, n: int) -> bool {
    forall|i: int| 0 <= i < n ==> parse_rule_fn(#[trigger] texts[i]@) is Ok
}

// R10 target for `add_rules!(kb, rule);` = add_rules(kb, vec![rule]) (macros.rs): one rule added
#[verifier::external_body]
pub fn add_one_rule(kb: &mut KnowledgeBase, rule: Rule)
    ensures *final(kb) == kb_add(*old(kb), seq![rule]),
{ unimplemented!() }
