//! replay: executable oracles for the Verus-decided properties, run against the
//! REAL crate.  Used only to attach a concrete failing input to an obligation the
//! verifier has already failed (DESIGN.md 3.2), and to re-run a recorded case.
//!
//!   replay <oracle> --search [--seed N]     enumerate cases; print first failure
//!   replay <oracle> --case '<case>'         re-run one case
mod terms;
mod o_lists;
mod o_unify;
mod o_solver;
mod o_ref;
mod o_compare;
mod o_listops;
mod o_globals;
mod o_rename;
mod o_reader;
mod o_parsers;
mod o_arith;
mod o_mgu;
mod o_contexts;
mod o_trusted;

use std::panic;

pub type Check = fn(&str) -> Result<(), String>;

/// cases an oracle skipped because they are outside the property's claim (e.g. integer overflow)
pub static SKIPPED: std::sync::atomic::AtomicUsize = std::sync::atomic::AtomicUsize::new(0);
pub fn skip() { SKIPPED.fetch_add(1, std::sync::atomic::Ordering::Relaxed); }
pub type Enumerate = fn(u64) -> Vec<String>;

fn oracles() -> Vec<(&'static str, Enumerate, Check)> {
    vec![
        ("c15_make_linked_list", o_lists::enum_mll, o_lists::check_mll),
        ("c15_parsed", o_lists::enum_parsed, o_lists::check_parsed),
        ("c09_anon", o_unify::enum_anon, o_unify::check_anon),
        ("c08_cycle", o_unify::enum_cycle, o_unify::check_cycle),
        ("c13_function", o_unify::enum_function, o_unify::check_function),
        ("c14_compare", o_compare::enum_cmp, o_compare::check_cmp),
        ("c17_count", o_listops::enum_count, o_listops::check_count),
        ("c17_filter", o_listops::enum_filter, o_listops::check_filter),
        ("c17_terms", o_listops::enum_terms, o_listops::check_terms),
        ("c17_functor", o_listops::enum_functor, o_listops::check_functor),
        ("c17_join", o_listops::enum_join, o_listops::check_join),
        ("c16_append", o_listops::enum_append, o_listops::check_append),
        ("c22_make_query", o_globals::enum_make_query, o_globals::check_make_query),
        ("c10_counter", o_globals::enum_counter, o_globals::check_counter),
        ("c10_rename", o_rename::enum_rename, o_rename::check_rename),
        ("c10_clause", o_rename::enum_clause, o_rename::check_clause),
        ("c21_load", o_reader::enum_load, o_reader::check_load),
        ("trusted_std", o_trusted::enum_audits, o_trusted::check_audit),
        ("c18_parsers", o_parsers::enum_strings, o_parsers::check_string),
        ("c19_roundtrip", o_parsers::enum_roundtrip, o_parsers::check_roundtrip),
        ("c19_random", o_parsers::enum_random_rules, o_parsers::check_roundtrip),
        ("c12_arith", o_arith::enum_arith, o_arith::check_arith),
        ("c06_mgu", o_mgu::enum_mgu, o_mgu::check_mgu),
        ("c09_mgu", o_mgu::enum_mgu_anon, o_mgu::check_mgu),
        ("c06_keeps", o_unify::enum_keeps, o_unify::check_keeps),
        ("c07_sym", o_mgu::enum_sym, o_mgu::check_sym),
        ("c08_resolve", o_mgu::enum_resolve, o_mgu::check_resolve),
        ("c08_fn_answers", o_solver::enum_fn_answers, o_solver::check_fn_answers),
        ("c09_program", o_unify::enum_anon_program, o_unify::check_anon_program),
        ("c05_reask", o_solver::enum_reask, o_solver::check_reask),
        ("c03_not", o_solver::enum_not, o_solver::check_not),
        ("c02_cut", o_solver::enum_cut, o_solver::check_cut),
        ("c02_walk", o_solver::enum_walk, o_solver::check_walk),
        ("c04_format", o_solver::enum_format, o_solver::check_format),
        ("c04_prog", o_solver::enum_prog_output, o_solver::check_program),
        ("c04_print_list", o_solver::enum_print_list, o_solver::check_print_list),
        ("c05_prog", o_solver::enum_prog_reask, o_solver::check_program),
        ("c01_prog", o_solver::enum_prog_answers, o_solver::check_program),
        ("c11_rename", o_solver::enum_rename_prog, o_solver::check_rename_prog),
        ("c01_solve_all", o_solver::enum_prog_solve_all, o_solver::check_program),
        ("c02_prog", o_solver::enum_prog_cut, o_solver::check_program),
        ("c03_prog", o_solver::enum_prog_not, o_solver::check_program),
        ("c14_infix", o_contexts::enum_infix, o_contexts::check_infix_meaning),
        ("c20_contexts", o_contexts::enum_contexts, o_contexts::check_contexts),
        ("c20_strict", o_contexts::enum_contexts, o_contexts::check_strict),
        ("c20_known_flags", o_contexts::enum_known_flags, o_contexts::check_strict),
        ("c20_known_paren", o_contexts::enum_known_paren, o_contexts::check_strict),
        ("c20_known_infix", o_contexts::enum_known_infix, o_contexts::check_strict),
        ("c20_known_escape", o_contexts::enum_known_escape, o_contexts::check_strict),
        ("c20_known_quotes", o_contexts::enum_known_quotes, o_contexts::check_strict),
    ]
}

fn run_case(chk: Check, case: &str) -> Result<(), String> {
    let c = case.to_string();
    match panic::catch_unwind(move || chk(&c)) {
        Ok(r) => r,
        Err(e) => {
            let msg = if let Some(s) = e.downcast_ref::<String>() { s.clone() }
                      else if let Some(s) = e.downcast_ref::<&str>() { s.to_string() } else { "panic".into() };
            Err(format!("panicked: {}", msg))
        }
    }
}

fn jstr(s: &str) -> String {
    let mut o = String::from("\"");
    for ch in s.chars() {
        match ch { '"' => o.push_str("\\\""), '\\' => o.push_str("\\\\"), '\n' => o.push_str("\\n"), '\t' => o.push_str("\\t"),
                   c if (c as u32) < 0x20 => o.push_str(&format!("\\u{:04x}", c as u32)), c => o.push(c) }
    }
    o.push('"'); o
}

fn main() {
    let args: Vec<String> = std::env::args().collect();
    if args.len() < 3 { eprintln!("usage: replay <oracle> --search [--seed N] [--all] | --case <case>"); std::process::exit(2); }
    // an oracle name may carry a filter: "c18_parsers:parse_rule" keeps only the cases that contain it
    let full = args[1].clone();
    let (base, filter) = match full.split_once(':') { Some((b, f)) => (b.to_string(), Some(f.to_string())), None => (full.clone(), None) };
    let name = &base;
    let (_, en, chk) = match oracles().into_iter().find(|o| o.0 == name) {
        Some(o) => o, None => { eprintln!("unknown oracle {}", name); std::process::exit(2); } };
    panic::set_hook(Box::new(|_| {}));
    if args[2] == "--case" {
        match run_case(chk, &args[3]) {
            Ok(()) => { println!("{{\"oracle\":{},\"case\":{},\"ok\":true}}", jstr(name), jstr(&args[3])); }
            Err(d) => { println!("{{\"oracle\":{},\"case\":{},\"ok\":false,\"detail\":{}}}", jstr(name), jstr(&args[3]), jstr(&d)); std::process::exit(1); }
        }
        return;
    }
    let mut seed = 1u64;
    let mut all = false;
    let mut k = 3;
    while k < args.len() {
        if args[k] == "--seed" { seed = args[k + 1].parse().unwrap_or(1); k += 1; }
        if args[k] == "--all" { all = true; }
        k += 1;
    }
    let mut cases = en(seed);
    if let Some(f) = &filter { cases.retain(|c| c.starts_with(f.as_str())); }
    let generated = cases.len();
    // (the known-finding enumerations keep their order: the first case is the one known_findings.txt names)
    if !name.starts_with("c20_known") { cases.sort(); cases.dedup(); }
    if args.iter().any(|a| a == "--list") {
        // one case per line (JSON string): used to find the case on which the process itself died (stack overflow, abort)
        for c in &cases { println!("{}", jstr(c)); }
        return;
    }
    let mut fails = 0;
    let mut shown = 0;
    for c in &cases {
        if let Err(d) = run_case(chk, c) {
            fails += 1;
            if shown < (if all { 50 } else { 1 }) {
                println!("{{\"oracle\":{},\"case\":{},\"ok\":false,\"detail\":{}}}", jstr(name), jstr(c), jstr(&d));
                shown += 1;
            }
            if !all { break; }
        }
    }
    let skipped = SKIPPED.load(std::sync::atomic::Ordering::Relaxed);
    println!("{{\"oracle\":{},\"generated\":{},\"cases\":{},\"skipped_outside_claim\":{},\"failures\":{},\"sample\":{}}}",
             jstr(name), generated, cases.len(), skipped, fails, jstr(cases.get(cases.len() / 2).map(|s| s.as_str()).unwrap_or("")));
    std::process::exit(if fails > 0 { 1 } else { 0 });
}
