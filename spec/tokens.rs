// ---------------------------------------------------------------------------
// spec/tokens.rs -- token trees (C18, tokenizer)
// ---------------------------------------------------------------------------

// TRUSTED(T1): derived PartialEq on the field-less enum TokenType is equality of variants; derived Clone copies
impl vstd::std_specs::cmp::PartialEqSpecImpl for TokenType {
    open spec fn obeys_eq_spec() -> bool { true }
    open spec fn eq_spec(&self, other: &TokenType) -> bool { *self == *other }
}
pub assume_specification[ <Token as Clone>::clone ](t: &Token) -> (r: Token)
    ensures r == *t;
pub assume_specification[ <TokenType as Clone>::clone ](t: &TokenType) -> (r: TokenType)
    ensures r == *t;

pub open spec fn ttype(t: Token) -> TokenType {
    match t { Token::Leaf{token_type, token_str} => token_type, Token::Branch{token_type, children} => token_type }
}
pub open spec fn kids(t: Token) -> Seq<Token> {
    match t { Token::Leaf{token_type, token_str} => Seq::empty(), Token::Branch{token_type, children} => children@ }
}
pub open spec fn is_leaf_type(t: TokenType) -> bool {
    t is Subgoal || t is Comma || t is Semicolon || t is LParen || t is RParen
}
pub open spec fn is_branch_type(t: TokenType) -> bool { t is Group || t is And || t is Or }

// R10 target: Display of a token type (error message only)
#[verifier::external_body]
pub fn token_type_to_string(t: TokenType) -> (r: String) { unimplemented!() /* t.to_string() */ }

// leaf texts are pieces of the input text, which is shorter than 2^31 characters (positions are kept in i32 downstream)
pub open spec fn short_leaf(t: Token) -> bool { t is Leaf && t->token_str@.len() < i32::MAX }
pub open spec fn is_sub_leaf(t: Token) -> bool { t is Leaf && ttype(t) is Subgoal && short_leaf(t) }
pub open spec fn is_branch(t: Token) -> bool { t is Branch }

// --- what token_tree_to_goal needs (it panics on anything else) ------------------------------
pub open spec fn ttg_ok(t: Token) -> bool
    decreases t,
{
    match t {
        Token::Leaf{token_type, token_str} => token_type is Subgoal && token_str@.len() < i32::MAX,
        Token::Branch{token_type, children} =>
            if token_type is And || token_type is Or { ttg_kids_ok(children@) }
            else if token_type is Group { children@.len() == 1 && ttg_all(children@) }
            else { true },
    }
}
// children of an And / Or branch: a Subgoal-typed child is a leaf, a Group-typed child is convertible
pub open spec fn ttg_kids_ok(s: Seq<Token>) -> bool
    decreases s,
{
    s.len() == 0 || ((ttype(s[0]) is Subgoal ==> short_leaf(s[0])) && (ttype(s[0]) is Group ==> ttg_ok(s[0])) && ttg_kids_ok(s.drop_first()))
}
pub open spec fn ttg_all(s: Seq<Token>) -> bool
    decreases s,
{
    s.len() == 0 || (ttg_ok(s[0]) && ttg_all(s.drop_first()))
}
pub open spec fn ttg_kid_ok(c: Token) -> bool {
    (ttype(c) is Subgoal ==> short_leaf(c)) && (ttype(c) is Group ==> ttg_ok(c))
}

pub proof fn lemma_ttg_kids_index(s: Seq<Token>, i: int)
    requires ttg_kids_ok(s), 0 <= i < s.len(),
    ensures ttg_kid_ok(s[i]),
    decreases s.len(),
{
    if i > 0 { lemma_ttg_kids_index(s.drop_first(), i - 1); }
}
pub proof fn lemma_ttg_kids_push(s: Seq<Token>, c: Token)
    requires ttg_kids_ok(s), ttg_kid_ok(c),
    ensures ttg_kids_ok(s.push(c)),
    decreases s.len(),
{
    if s.len() > 0 {
        lemma_ttg_kids_push(s.drop_first(), c);
        assert(s.push(c).drop_first() =~= s.drop_first().push(c));
        assert(s.push(c)[0] == s[0]);
        assert(ttg_kids_ok(s.push(c).drop_first()));
        assert(s.push(c).len() > 0);
    } else {
        assert(s.push(c).drop_first() =~= Seq::<Token>::empty());
        assert(s.push(c)[0] == c);
        assert(ttg_kids_ok(s.push(c).drop_first()));
        assert(s.push(c).len() > 0);
    }
}

// --- stage 1: what group_tokens builds from the token list --------------------------------------
// the list tokenize() returns: leaves only; an opening parenthesis is followed by a subgoal or another
// opening parenthesis; the first token is a subgoal or an opening parenthesis
pub open spec fn leaves_ok(s: Seq<Token>) -> bool {
    &&& forall|i: int| 0 <= i < s.len() ==> short_leaf(#[trigger] s[i]) && is_leaf_type(ttype(s[i]))
    &&& forall|i: int| 0 <= i < s.len() && ttype(#[trigger] s[i]) is LParen ==>
            i + 1 < s.len() && (ttype(s[i + 1]) is Subgoal || ttype(s[i + 1]) is LParen)
}
pub open spec fn starts_operand(s: Seq<Token>, i: int) -> bool {
    0 <= i < s.len() && (ttype(s[i]) is Subgoal || ttype(s[i]) is LParen)
}

// a Group branch whose children are Subgoal / Comma / Semicolon leaves or such groups, with at least one operand
pub open spec fn g1ok(t: Token) -> bool
    decreases t,
{
    match t {
        Token::Leaf{token_type, token_str} => false,
        Token::Branch{token_type, children} => token_type is Group && g1kids(children@) && has_operand(children@),
    }
}
pub open spec fn g1kids(s: Seq<Token>) -> bool
    decreases s,
{
    s.len() == 0 || ((match s[0] {
        Token::Leaf{token_type, token_str} => (token_type is Subgoal || token_type is Comma || token_type is Semicolon) && token_str@.len() < i32::MAX,
        Token::Branch{token_type, children} => g1ok(s[0]),
    }) && g1kids(s.drop_first()))
}
pub open spec fn g1kid(c: Token) -> bool {
    match c {
        Token::Leaf{token_type, token_str} => (token_type is Subgoal || token_type is Comma || token_type is Semicolon) && token_str@.len() < i32::MAX,
        Token::Branch{token_type, children} => g1ok(c),
    }
}
// some child is a subgoal or a group (something a goal can be made of)
pub open spec fn has_operand(s: Seq<Token>) -> bool {
    exists|i: int| 0 <= i < s.len() && is_operand(#[trigger] s[i])
}
pub open spec fn is_operand(c: Token) -> bool { is_sub_leaf(c) || c is Branch }

pub proof fn lemma_g1kids_index(s: Seq<Token>, i: int)
    requires g1kids(s), 0 <= i < s.len(),
    ensures g1kid(s[i]),
    decreases s.len(),
{
    if i > 0 { lemma_g1kids_index(s.drop_first(), i - 1); }
}
pub proof fn lemma_g1kids_push(s: Seq<Token>, c: Token)
    requires g1kids(s), g1kid(c),
    ensures g1kids(s.push(c)),
    decreases s.len(),
{
    if s.len() > 0 {
        lemma_g1kids_push(s.drop_first(), c);
        assert(s.push(c).drop_first() =~= s.drop_first().push(c));
        assert(s.push(c)[0] == s[0]);
        assert(g1kids(s.push(c).drop_first()));
        assert(s.push(c).len() > 0);
    } else {
        assert(s.push(c).drop_first() =~= Seq::<Token>::empty());
        assert(s.push(c)[0] == c);
        assert(g1kids(s.push(c).drop_first()));
        assert(s.push(c).len() > 0);
    }
}

// --- stage 2: after group_and_tokens --------------------------------------------------------------
// children: Subgoal leaves, Semicolon leaves, And branches of convertible operands, converted groups
pub open spec fn g2kid(c: Token) -> bool {
    ||| is_sub_leaf(c)
    ||| (c is Leaf && ttype(c) is Semicolon)
    ||| (c is Branch && ttype(c) is And && ttg_ok(c))
    ||| (c is Branch && ttype(c) is Group && ttg_ok(c))
}
pub open spec fn g2kids(s: Seq<Token>) -> bool { forall|i: int| 0 <= i < s.len() ==> g2kid(#[trigger] s[i]) }
pub open spec fn has_operand2(s: Seq<Token>) -> bool {
    exists|i: int| 0 <= i < s.len() && !is_semi(#[trigger] s[i])
}
pub open spec fn g2ok(t: Token) -> bool {
    t is Branch && ttype(t) is Group && g2kids(kids(t)) && has_operand2(kids(t))
}
pub open spec fn is_semi(c: Token) -> bool { c is Leaf && ttype(c) is Semicolon }
// an operand collected for an And / Or branch
pub open spec fn operand_ok(c: Token) -> bool {
    is_sub_leaf(c) || (c is Branch && (ttype(c) is And || ttype(c) is Group) && ttg_ok(c))
}
pub open spec fn operands_ok(s: Seq<Token>) -> bool { forall|i: int| 0 <= i < s.len() ==> operand_ok(#[trigger] s[i]) }

pub proof fn lemma_operands_ttg(s: Seq<Token>)
    requires operands_ok(s),
    ensures ttg_kids_ok(s),
    decreases s.len(),
{
    if s.len() > 0 {
        assert(operand_ok(s[0]));
        assert forall|i: int| 0 <= i < s.drop_first().len() implies operand_ok(#[trigger] s.drop_first()[i]) by {
            assert(s.drop_first()[i] == s[i + 1]);
        }
        lemma_operands_ttg(s.drop_first());
    }
}

pub proof fn lemma_has_operand_push(s: Seq<Token>, c: Token)
    ensures
        is_operand(c) ==> has_operand(s.push(c)),
        has_operand(s) ==> has_operand(s.push(c)),
{
    if is_operand(c) { assert(is_operand(s.push(c)[s.len() as int])); }
    if has_operand(s) {
        let i = choose|i: int| 0 <= i < s.len() && is_operand(#[trigger] s[i]);
        assert(is_operand(s.push(c)[i]));
    }
}

pub proof fn lemma_has_operand2_push(s: Seq<Token>, c: Token)
    ensures
        !is_semi(c) ==> has_operand2(s.push(c)),
        has_operand2(s) ==> has_operand2(s.push(c)),
{
    if !is_semi(c) { assert(!is_semi(s.push(c)[s.len() as int])); }
    if has_operand2(s) {
        let i = choose|i: int| 0 <= i < s.len() && !is_semi(#[trigger] s[i]);
        assert(!is_semi(s.push(c)[i]));
    }
}
pub open spec fn seen_operand(s: Seq<Token>, k: int) -> bool {
    exists|j: int| 0 <= j < k && j < s.len() && is_operand(#[trigger] s[j])
}
pub proof fn lemma_seen_step(s: Seq<Token>, k: int)
    requires 0 <= k < s.len(),
    ensures seen_operand(s, k + 1) == (seen_operand(s, k) || is_operand(s[k])),
{
    if seen_operand(s, k + 1) {
        let j = choose|j: int| 0 <= j < k + 1 && j < s.len() && is_operand(#[trigger] s[j]);
        if j < k { assert(seen_operand(s, k)); }
    }
    if seen_operand(s, k) {
        let j = choose|j: int| 0 <= j < k && j < s.len() && is_operand(#[trigger] s[j]);
        assert(is_operand(s[j]));
    }
    if is_operand(s[k]) { assert(seen_operand(s, k + 1)); }
}
pub proof fn lemma_seen_all(s: Seq<Token>)
    requires has_operand(s),
    ensures seen_operand(s, s.len() as int),
{
    let i = choose|i: int| 0 <= i < s.len() && is_operand(#[trigger] s[i]);
    assert(is_operand(s[i]));
}
