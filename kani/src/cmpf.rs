//! C14, float and integer/float arms of the five comparison predicates.
//! Straight-line harnesses: two literal operands with concrete variants and full-domain
//! symbolic values; the predicate must succeed exactly when the operands compare that way
//! numerically (an integer is converted to f64), and must return the substitution unchanged.
use std::mem::ManuallyDrop;
use std::rc::Rc;
use suiron::*;

fn stub_format(_args: std::fmt::Arguments<'_>) -> String { String::new() }

macro_rules! cmp_harness {
    ($name:ident, $pred:ident, $functor:expr, $lt:ty, $lc:expr, $rt:ty, $rc:expr, $op:tt) => {
        #[kani::proof]
        #[kani::stub(alloc::fmt::format, stub_format)]
        #[kani::unwind(3)]
        fn $name() {
            let l: $lt = kani::any();
            let r: $rt = kani::any();
            let ss: ManuallyDrop<Rc<SubstitutionSet>> = ManuallyDrop::new(Rc::new(Vec::new()));
            let bip = BuiltInPredicate::new(String::new(), Some(vec![$lc(l), $rc(r)]));
            let got = ManuallyDrop::new($pred(bip, &ss));
            let expected = (l as f64) $op (r as f64);
            assert!(got.is_some() == expected, "outcome differs from the numeric comparison");
            if let Some(s) = &*got { assert!(s.len() == 0, "a comparison must not bind anything"); }
        }
    };
}

cmp_harness!(c14_eq_ff, bip_equal, "equal", f64, Unifiable::SFloat, f64, Unifiable::SFloat, ==);
cmp_harness!(c14_eq_fi, bip_equal, "equal", f64, Unifiable::SFloat, i64, Unifiable::SInteger, ==);
cmp_harness!(c14_eq_if, bip_equal, "equal", i64, Unifiable::SInteger, f64, Unifiable::SFloat, ==);
cmp_harness!(c14_lt_ff, bip_less_than, "less_than", f64, Unifiable::SFloat, f64, Unifiable::SFloat, <);
cmp_harness!(c14_lt_fi, bip_less_than, "less_than", f64, Unifiable::SFloat, i64, Unifiable::SInteger, <);
cmp_harness!(c14_lt_if, bip_less_than, "less_than", i64, Unifiable::SInteger, f64, Unifiable::SFloat, <);
cmp_harness!(c14_le_ff, bip_less_than_or_equal, "less_than_or_equal", f64, Unifiable::SFloat, f64, Unifiable::SFloat, <=);
cmp_harness!(c14_le_fi, bip_less_than_or_equal, "less_than_or_equal", f64, Unifiable::SFloat, i64, Unifiable::SInteger, <=);
cmp_harness!(c14_le_if, bip_less_than_or_equal, "less_than_or_equal", i64, Unifiable::SInteger, f64, Unifiable::SFloat, <=);
cmp_harness!(c14_gt_ff, bip_greater_than, "greater_than", f64, Unifiable::SFloat, f64, Unifiable::SFloat, >);
cmp_harness!(c14_gt_fi, bip_greater_than, "greater_than", f64, Unifiable::SFloat, i64, Unifiable::SInteger, >);
cmp_harness!(c14_gt_if, bip_greater_than, "greater_than", i64, Unifiable::SInteger, f64, Unifiable::SFloat, >);
cmp_harness!(c14_ge_ff, bip_greater_than_or_equal, "greater_than_or_equal", f64, Unifiable::SFloat, f64, Unifiable::SFloat, >=);
cmp_harness!(c14_ge_fi, bip_greater_than_or_equal, "greater_than_or_equal", f64, Unifiable::SFloat, i64, Unifiable::SInteger, >=);
cmp_harness!(c14_ge_if, bip_greater_than_or_equal, "greater_than_or_equal", i64, Unifiable::SInteger, f64, Unifiable::SFloat, >=);

// --- experiment: shallow clone stub for constants ------------------------------------------
fn stub_clone_const(u: &Unifiable) -> Unifiable {
    match u {
        Unifiable::SFloat(f) => Unifiable::SFloat(*f),
        Unifiable::SInteger(i) => Unifiable::SInteger(*i),
        _ => { kani::assume(false); Unifiable::Nil }
    }
}

// leak instead of dropping: the element drop glue of the recursive enum is what CBMC cannot digest
fn stub_vec_drop(_v: &mut Vec<Unifiable>) {}

#[kani::proof]
#[kani::stub(alloc::fmt::format, stub_format)]
#[kani::stub(<suiron::Unifiable as core::clone::Clone>::clone, stub_clone_const)]
#[kani::stub(<std::vec::Vec<suiron::Unifiable> as core::ops::Drop>::drop, stub_vec_drop)]
#[kani::unwind(3)]
fn x14_lt_ff_stubclone() {
    let l: f64 = kani::any();
    let r: f64 = kani::any();
    let ss: ManuallyDrop<Rc<SubstitutionSet>> = ManuallyDrop::new(Rc::new(Vec::new()));
    let bip = BuiltInPredicate::new(String::new(), Some(vec![Unifiable::SFloat(l), Unifiable::SFloat(r)]));
    let got = ManuallyDrop::new(bip_less_than(bip, &ss));
    assert!(got.is_some() == (l < r), "outcome differs from the numeric comparison");
}
