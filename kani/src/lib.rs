//! Kani harnesses on the REAL crate (path dependency on /repo).
//! Only `pub` items of suiron are used, so no source hooks are needed.
#![allow(unused_imports, dead_code)]

#[cfg(kani)]
mod globals;
// the arithmetic / float-comparison harnesses are many; they are compiled only when asked for,
// so that the quick harnesses of C10 / C22 do not pay for their code generation
#[cfg(all(kani, feature = "arith"))]
mod arith;
#[cfg(all(kani, feature = "cmpf"))]
mod cmpf;
#[cfg(all(kani, feature = "cutwalk"))]
mod cutwalk;
