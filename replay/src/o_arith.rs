//! C12: add / subtract / multiply / divide compute the left-to-right fold of their arguments.
use crate::terms::*;
use std::rc::Rc;
use suiron::*;
use suiron::Unifiable::*;

#[derive(Clone, Copy, Debug)]
enum N { I(i64), F(f64) }

fn parse_n(s: &str) -> N { if let Some(x) = s.strip_prefix('i') { N::I(x.parse().unwrap()) } else { N::F(f64::from_bits(u64::from_str_radix(&s[1..], 16).unwrap())) } }
fn ser_n(n: N) -> String { match n { N::I(i) => format!("i{}", i), N::F(f) => format!("f{:x}", f.to_bits()) } }

fn field<'a>(case: &'a str, key: &str) -> &'a str {
    for p in case.split(';') { if let Some(v) = p.strip_prefix(&format!("{}=", key)) { return v; } }
    ""
}

pub fn enum_arith(seed: u64) -> Vec<String> {
    let ints = [0i64, 1, -1, 2, 7, -3, 10, i64::MAX, i64::MIN, 1 << 53, (1 << 53) + 1, 16777217, 123456789];
    let floats = [0.0f64, -0.0, 0.5, -2.5, 1e308, -1e-308, 3.0, f64::INFINITY, 9007199254740993.0, 0.1, 1.0000000000000002];
    let mut pool: Vec<N> = ints.iter().map(|i| N::I(*i)).collect();
    pool.extend(floats.iter().map(|f| N::F(*f)));
    let mut out = vec![];
    let mut rng = Rng(seed.wrapping_mul(0x9E3779B97F4A7C15) | 1);
    for op in ["add", "subtract", "multiply", "divide"] {
        for a in &pool { out.push(format!("op={};via=lit;args={}", op, ser_n(*a))); }
        for a in &pool { for b in &pool {
            out.push(format!("op={};via=lit;args={},{}", op, ser_n(*a), ser_n(*b)));
        } }
        for _ in 0..600 {
            let n = 3 + rng.below(2);
            let args: Vec<String> = (0..n).map(|_| ser_n(pool[rng.below(pool.len())])).collect();
            let via = ["lit", "var", "chain"][rng.below(3)];
            out.push(format!("op={};via={};args={}", op, via, args.join(",")));
        }
        for a in pool.iter().step_by(2) { for b in pool.iter().step_by(3) {
            out.push(format!("op={};via=infix;args={},{}", op, ser_n(*a), ser_n(*b)));
        } }
    }
    out
}

/// the documented value; None when outside the claim (integer overflow, integer division by zero)
fn expected(op: &str, ns: &[N]) -> Option<N> {
    if ns.iter().any(|n| matches!(n, N::F(_))) {
        let f = |n: &N| match n { N::I(i) => *i as f64, N::F(x) => *x };
        let (mut acc, start) = match op { "add" => (0.0, 0), "multiply" => (1.0, 0), _ => (f(&ns[0]), 1) };
        for n in &ns[start..] { let x = f(n); acc = match op { "add" => acc + x, "subtract" => acc - x, "multiply" => acc * x, _ => acc / x }; }
        Some(N::F(acc))
    } else {
        let g = |n: &N| match n { N::I(i) => *i, N::F(_) => 0 };
        let (mut acc, start) = match op { "add" => (0i64, 0), "multiply" => (1i64, 0), _ => (g(&ns[0]), 1) };
        for n in &ns[start..] {
            let x = g(n);
            acc = match op { "add" => acc.checked_add(x)?, "subtract" => acc.checked_sub(x)?, "multiply" => acc.checked_mul(x)?, _ => acc.checked_div(x)? };
        }
        Some(N::I(acc))
    }
}

pub fn check_arith(case: &str) -> Result<(), String> {
    let op = field(case, "op");
    let ns: Vec<N> = field(case, "args").split(',').map(parse_n).collect();
    let exp = match expected(op, &ns) { Some(e) => e, None => { crate::skip(); return Ok(()); } };
    let via = field(case, "via");
    let lit = |n: &N| match n { N::I(i) => SInteger(*i), N::F(f) => SFloat(*f) };
    let mut ss: Vec<Option<Rc<Unifiable>>> = vec![None];
    let mut args: Vec<Unifiable> = vec![];
    for (k, n) in ns.iter().enumerate() {
        match via {
            "var" => { let id = ss.len(); ss.push(Some(Rc::new(lit(n)))); args.push(var(id, &format!("$V{}", k))); }
            "chain" => { let id = ss.len(); ss.push(Some(Rc::new(var(id + 1, "$W")))); ss.push(Some(Rc::new(lit(n)))); args.push(var(id, &format!("$V{}", k))); }
            _ => args.push(lit(n)),
        }
    }
    let ss = Rc::new(ss);
    let got = if via == "infix" {
        // only finite, non-negative literals can be written in source text
        let txt = |n: &N| match n { N::I(i) => format!("{}", i), N::F(f) => format!("{:?}", f) };
        if ns.iter().any(|n| match n { N::I(i) => *i < 0, N::F(f) => !f.is_finite() || f.is_sign_negative() || format!("{:?}", f).contains('e') }) { crate::skip(); return Ok(()); }
        let sym = match op { "add" => "+", "subtract" => "-", "multiply" => "*", _ => "/" };
        let t = match parse_term(&format!("{} {} {}", txt(&ns[0]), sym, txt(&ns[1]))) { Ok(t) => t, Err(e) => return Err(format!("infix form does not parse: {}", e)) };
        let x = var(40, "$R");
        match t.unify(&x, &ss) { Some(r) => (*r[40].clone().unwrap()).clone(), None => return Err("infix function did not unify with a variable".into()) }
    } else {
        match op { "add" => evaluate_add(&args, &ss), "subtract" => evaluate_subtract(&args, &ss), "multiply" => evaluate_multiply(&args, &ss), _ => evaluate_divide(&args, &ss) }
    };
    let ok = match (&got, exp) {
        (SInteger(a), N::I(b)) => *a == b,
        (SFloat(a), N::F(b)) => a.to_bits() == b.to_bits() || (a.is_nan() && b.is_nan()),
        _ => false,
    };
    if ok { Ok(()) } else { Err(format!("{} gave {} but the left-to-right fold is {:?}", op, ser(&got), exp)) }
}
