//! C10: renaming apart changes only variables, consistently.
use crate::terms::*;
use std::collections::HashMap;
use suiron::*;
use suiron::Unifiable::*;

fn strip_ids(t: &Unifiable) -> Unifiable {
    match t {
        LogicVar { name, .. } => LogicVar { id: 0, name: name.clone() },
        SComplex(ts) => SComplex(ts.iter().map(strip_ids).collect()),
        SLinkedList { term, next, count, tail_var } => node(strip_ids(term), strip_ids(next), *count, *tail_var),
        SFunction { name, terms } => SFunction { name: name.clone(), terms: terms.iter().map(strip_ids).collect() },
        x => x.clone(),
    }
}
fn collect_vars(t: &Unifiable, out: &mut Vec<(String, usize)>) {
    match t {
        LogicVar { id, name } => out.push((name.clone(), *id)),
        SComplex(ts) => for x in ts { collect_vars(x, out) },
        SLinkedList { term, next, .. } => { collect_vars(term, out); collect_vars(next, out); }
        SFunction { terms, .. } => for x in terms { collect_vars(x, out) },
        _ => {}
    }
}

pub fn enum_rename(_s: u64) -> Vec<String> {
    let v0 = |n: &str| var(0, n);
    let terms = vec![
        empty(),
        mk_list(&[atom("a"), empty()], None),
        mk_list(&[empty()], None),
        mk_list(&[v0("$X"), atom("a"), v0("$X")], None),
        mk_list(&[atom("a"), mk_list(&[v0("$Y")], None)], None),
        mk_list(&[atom("a")], Some(v0("$T"))),
        mk_list(&[mk_list(&[atom("b")], Some(v0("$T")))], Some(v0("$T"))),
        SComplex(vec![atom("f"), v0("$X"), v0("$Y"), v0("$X"), SFloat(1.5), SInteger(-3), Anonymous]),
        SComplex(vec![atom("f"), empty(), mk_list(&[v0("$X")], Some(v0("$Y")))]),
        SFunction { name: "add".into(), terms: vec![v0("$X"), SInteger(1), v0("$X")] },
        atom("a"), v0("$X"), Anonymous,
    ];
    terms.iter().map(|t| format!("{}", ser(t))).collect()
}

pub fn check_rename(case: &str) -> Result<(), String> {
    let t = de(case);
    set_var_id(10);
    let entry = get_var_id();
    let mut m: VarMap = HashMap::new();
    let r = t.clone().recreate_variables(&mut m);
    if strip_ids(&r) != strip_ids(&t) { return Err(format!("shape changed: {} -> {}", ser(&t), ser(&r))); }
    let mut vs = vec![];
    collect_vars(&r, &mut vs);
    let mut seen: HashMap<String, usize> = HashMap::new();
    for (n, id) in &vs {
        if *id == 0 || *id <= entry { return Err(format!("variable {} got id {} which is not fresh", n, id)); }
        if let Some(old) = seen.get(n) { if old != id { return Err(format!("name {} got two ids", n)); } }
        seen.insert(n.clone(), *id);
    }
    let mut ids: Vec<usize> = seen.values().cloned().collect();
    ids.sort(); ids.dedup();
    if ids.len() != seen.len() { return Err("two names share an id".into()); }
    // renaming again gives fresh ids again
    let mut m2: VarMap = HashMap::new();
    let r2 = t.clone().recreate_variables(&mut m2);
    let mut vs2 = vec![];
    collect_vars(&r2, &mut vs2);
    for (_, id2) in &vs2 { if ids.contains(id2) { return Err("second renaming reused an id".into()); } }
    if let SLinkedList{..} = r { if !wf_list(&r) { return Err(format!("renamed list is not well formed: {}", ser(&r))); } }
    Ok(())
}
