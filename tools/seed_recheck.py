#!/usr/bin/env python3
"""seed_recheck.py [name-substring ...] -- re-runs the registered quick check(s) against every stored seeded change
(seeded/<name>/patch.diff applied to a scratch copy of /repo outside /repo and /verif) and prints the exit codes.
Every seed must be reported (exit 1).  Not a registered check."""
import sys, os, json, subprocess, shutil, hashlib, glob
from concurrent.futures import ThreadPoolExecutor
VERIF = os.path.dirname(os.path.dirname(os.path.abspath(__file__)))
flt = sys.argv[1:]
names = sorted(n for n in os.listdir(os.path.join(VERIF, 'seeded')) if not flt or any(f in n for f in flt))
def run(name):
    out = os.path.join(VERIF, 'seeded', name)
    meta = json.load(open(os.path.join(out, 'meta.json')))
    props = list((meta.get('verified_by_framework_author') or {}).get('checks', {}).keys()) or [meta['property']]
    mw = '/tmp/seedre_' + name
    shutil.rmtree(mw, ignore_errors=True)
    os.makedirs(mw)
    subprocess.run('cp -r /repo/src /repo/Cargo.toml /repo/Cargo.lock /repo/build.rs %s/ 2>/dev/null; cp -r /repo/tests /repo/benches %s/ 2>/dev/null' % (mw, mw), shell=True)
    ap = subprocess.run(['patch', '-p1', '-d', mw, '-i', os.path.join(out, 'patch.diff')], capture_output=True, text=True)
    res = []
    if ap.returncode != 0:
        res.append('%-8s patch does not apply' % name)
    else:
        for p in props:
            r = subprocess.run([os.path.join(VERIF, 'bin', 'check'), p, 'quick', '--repo', mw, '--no-evidence'], capture_output=True, text=True)
            first = [l for l in r.stdout.split('\n') if l.startswith(('failed obligation', 'OK', 'UNDECIDED'))][:1]
            res.append('%-8s %s exit=%d %s  %s' % (name, p, r.returncode, 'detected' if r.returncode == 1 else 'MISSED', (first[0][:150] if first else '')))
    shutil.rmtree(mw, ignore_errors=True)
    h = hashlib.sha1(os.path.abspath(mw).encode()).hexdigest()[:8]
    for q in glob.glob(os.path.join(VERIF, 'build', '*_' + h)):
        shutil.rmtree(q, ignore_errors=True)
    return res
with ThreadPoolExecutor(max_workers=4) as ex:
    for res in ex.map(run, names):
        for l in res:
            print(l, flush=True)
