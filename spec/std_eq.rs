// ---------------------------------------------------------------------------
// spec/std_eq.rs -- included in EVERY unit right after the header (tools/extract.py): the meaning of `==` on two std
// types, however the comparison is written.  TRUSTED(T3 / T6), audited by the oracle trusted_std.
//   * String: vstd specifies the METHOD `a.eq(b)` but leaves `eq_spec` of String open, so `a == b` on two `&String`
//     (the blanket impl for references, which goes through eq_spec) had an arbitrary result - a harmless rewrite of
//     `s.eq(t)` into `s == t` failed obligations (DESIGN 8.47).  String equality is equality of the character sequences.
//   * String `+=`: appends (AddAssign of String is left open by vstd).
//   * f64: IEEE `==` is symmetric (`a == b` and `b == a` are the same comparison), and the partial comparison of (b, a) is the
//     converse of that of (a, b) (`a <= b` and `b >= a` are the same comparison; unordered stays unordered).  Nothing else is
//     assumed of their values.
// (the axioms sit in a module of their own: a module-level `broadcast use` of an axiom of the same module is a cycle)
// ---------------------------------------------------------------------------
pub mod vax {
    use vstd::prelude::*;
    pub broadcast axiom fn axiom_string_eq_obeys()
        ensures #[trigger] <String as vstd::std_specs::cmp::PartialEqSpec>::obeys_eq_spec();
    pub broadcast axiom fn axiom_string_eq(a: String, b: String)
        ensures #[trigger] <String as vstd::std_specs::cmp::PartialEqSpec>::eq_spec(&a, &b) == (a@ == b@);
    pub broadcast axiom fn axiom_f64_eq_sym(a: f64, b: f64)
        ensures #[trigger] <f64 as vstd::std_specs::cmp::PartialEqSpec>::eq_spec(&a, &b) == <f64 as vstd::std_specs::cmp::PartialEqSpec>::eq_spec(&b, &a);
    // `s += t` on a String (t: &str, or a &String through deref coercion) appends the characters of t - vstd leaves AddAssign
    // of String open, and an unwrapped `+=` then failed a PRECONDITION (harmless H20)
    pub broadcast axiom fn axiom_string_add_assign_obeys()
        ensures #[trigger] <String as vstd::std_specs::ops::AddAssignSpec<&str>>::obeys_add_assign_spec();
    pub broadcast axiom fn axiom_string_add_assign_req(a: String, b: &str)
        ensures #[trigger] <String as vstd::std_specs::ops::AddAssignSpec<&str>>::add_assign_req(&a, b);
    pub broadcast axiom fn axiom_string_add_assign(a: String, b: &str)
        ensures (#[trigger] <String as vstd::std_specs::ops::AddAssignSpec<&str>>::add_assign_spec(&a, b))@ == a@ + b@;
    // `String == &str` and `&str == String` (the method `a.eq(b)` on a String and a str is specified in spec/std_strings.rs; the
    // operator between a String and a REFERENCE to a str is another impl, and was open - `name == "add"` for `name.eq("add")`)
    pub broadcast axiom fn axiom_string_eq_strref_obeys<'a>()
        ensures #[trigger] <String as vstd::std_specs::cmp::PartialEqSpec<&'a str>>::obeys_eq_spec();
    pub broadcast axiom fn axiom_string_eq_strref<'a>(a: String, b: &'a str)
        ensures #[trigger] <String as vstd::std_specs::cmp::PartialEqSpec<&'a str>>::eq_spec(&a, &b) == (a@ == b@);
    pub broadcast axiom fn axiom_strref_eq_string_obeys<'a>()
        ensures #[trigger] <&'a str as vstd::std_specs::cmp::PartialEqSpec<String>>::obeys_eq_spec();
    pub broadcast axiom fn axiom_strref_eq_string<'a>(a: &'a str, b: String)
        ensures #[trigger] <&'a str as vstd::std_specs::cmp::PartialEqSpec<String>>::eq_spec(&a, &b) == (a@ == b@);
    pub open spec fn converse(o: Option<core::cmp::Ordering>) -> Option<core::cmp::Ordering> {
        match o {
            Some(core::cmp::Ordering::Less) => Some(core::cmp::Ordering::Greater),
            Some(core::cmp::Ordering::Greater) => Some(core::cmp::Ordering::Less),
            Some(core::cmp::Ordering::Equal) => Some(core::cmp::Ordering::Equal),
            None => None,
        }
    }
    pub broadcast axiom fn axiom_f64_cmp_converse(a: f64, b: f64)
        ensures #[trigger] <f64 as vstd::std_specs::cmp::PartialOrdSpec>::partial_cmp_spec(&a, &b) == converse(<f64 as vstd::std_specs::cmp::PartialOrdSpec>::partial_cmp_spec(&b, &a));
}
broadcast use {vax::axiom_string_eq_obeys, vax::axiom_string_eq, vax::axiom_f64_eq_sym, vax::axiom_f64_cmp_converse,
               vax::axiom_string_add_assign_obeys, vax::axiom_string_add_assign_req, vax::axiom_string_add_assign,
               vax::axiom_string_eq_strref_obeys, vax::axiom_string_eq_strref, vax::axiom_strref_eq_string_obeys, vax::axiom_strref_eq_string};
// R19 target for `String::from(E)`, E a &str (or a &String, through deref coercion): the string of the same characters
#[verifier::external_body]
pub fn verif_string_from(s: &str) -> (r: String)
    ensures r@ == s@,
{ String::from(s) }

