"""Text that goes into MANIFEST.json (kept apart from the machinery)."""

ENGINES = [
    {'name': 'verus-contracts', 'path': 'tools/check.py + tools/extract.py + contracts/ + spec/ + units/',
     'serves_properties': [],
     'kind_free_text': 'Verus 0.2026.09.13 on functions re-extracted verbatim from /repo/src on every run, with requires/ensures/invariant/decreases injected from contracts/*.vc; rewrite rules R1-R16 are the only textual changes (DESIGN.md 3.1, 8.1, 8.10, 8.13; R15 - the ghost node heap that stands for the Rc<RefCell<SolutionNode>> graph - in 8.23)'},
    {'name': 'kani-harnesses', 'path': 'kani/ + tools/run_kani.py',
     'serves_properties': [],
     'kind_free_text': 'Kani 0.68 / CBMC 6.11 harnesses on the real crate (path dependency) for the static-mut globals and float/integer arithmetic kernels'},
    {'name': 'replay', 'path': 'replay/',
     'serves_properties': [],
     'kind_free_text': 'executable oracles linked against the real crate, written from the property statements: they attach a concrete failing input to an obligation the verifier has failed, re-run recorded cases, and run in both tiers as a supplementary bounded exploration (labelled bounded in the evidence, never counted as discharged; one seed in the quick tier, twelve in the thorough tier); includes a reference interpreter (depth-first resolution with cut) and a generator of random stratified programs for the solver properties; a run whose process dies is re-run one case per process (8.28)'},
]

NOTES = ('Exit codes of bin/check: 0 every obligation discharged (KNOWN-FINDING lines possible); 1 VIOLATION; '
         '2 UNDECIDED (lost anchor, unsupported construct, solver limit, vacuity canary) - never an alarm. '
         'known_findings.txt lists repaired (fixed:) and recorded (finding:) defects.')

CLAIMED = {
    'C06': {
        'text': 'Deductive proof (Verus) on the verbatim body of Unifiable::unify, for all terms and all prior substitutions satisfying the input invariant: '
                'a successful result keeps every earlier binding (extends), is again a well-formed substitution (ss_ok), equal terms unify with the identical substitution, '
                'different constants fail, an unbound variable against a constant succeeds adding exactly that binding, every new binding is of a previously unbound variable; '
                'SOUNDNESS: on success the two terms are identical when resolved under the result, to every depth, with $_ as a wildcard (spec req/sound) - '
                'for atoms, numbers, variables, complex terms and lists (a tail variable stands for the rest of the other list), nested arbitrarily; '
                'COMPLETENESS and MOST-GENERALITY (clause #mgu, spec/mgu.rs): for every assignment of finite value trees to the variables that respects the prior bindings and gives both terms the same value, '
                'unify succeeds and the assignment also respects the resulting substitution - so failure is reported only when no unifier extending the prior bindings exists, and every unifier is an instance of the result '
                '(it binds no more than an MGU does). The completeness clause is stated for terms and substitutions without `$_` (C09), function terms (C13) and NaN; occurs-check pairs have no finite solution and fall outside it, as in the statement. '
                'A bounded comparison with a reference unifier (labelled bounded, never counted) runs in addition.',
        'note': 'Trusted: derived PartialEq/Clone (T1), vstd + Rc<T>: PartialEq axiom (T2), rewrite rules R2/R3/R6/R7 (T4), f64 comparison is a function of its operands (T6). Termination of unify is not proved. '
                'Soundness and completeness are proved in two formalisms (resolved terms to every depth; finite value trees) that are not connected by a proved theorem.',
        'technique': 'contract-based deductive verification (Verus) of extracted real code',
        'design_ref': 'DESIGN.md 5/C06 and 8.11',
    },
    'C07': {
        'text': 'Deductive proof (Verus): symmetry of unification as a lemma (lemma_unify_symmetric, spec/mgu.rs) over single-call contracts that the verbatim body of Unifiable::unify is proved against - '
                '#mgu (every finite-tree unifier respecting the prior bindings makes unify succeed and respects the result), #th_sound (every solution of the result gives both terms the same value) and #keeps. '
                'For all clean terms (no `$_`, function term or NaN) and clean prior substitutions: if a unifier extending the prior bindings exists, A = B and B = A both succeed; if either order succeeds with a result that has any solution, '
                'so does the other; and when both succeed the two results have exactly the same solutions, i.e. every variable has the same value under every instance of either result (equal up to renaming of unbound variables). '
                'A bounded comparison of both orders on the real code (labelled bounded, never counted) runs in addition and includes `$_`.',
        'note': 'Trusted: T1, T2, T4, T5, T6 (IEEE == is an equivalence on non-NaN floats: axiom_f64_eq_is_an_equivalence). Not covered: pairs where one order succeeds with bindings that have no finite solution (occurs-check situations); `$_`; '
                'head/goal unification through the solver (the clause covers every unify call); the textbook step from "same solutions" to a syntactic renaming.',
        'technique': 'contract-based deductive verification (Verus) of extracted real code: relational property derived as a lemma over the callee contract',
        'design_ref': 'DESIGN.md 8.12',
    },
    'C08': {
        'text': 'Deductive proof (Verus): acyclicity of variable-to-variable chains is a pre/postcondition of the verbatim unify (every exit, including both loops and the recursive calls), '
                'via lemma_bind_keeps_acyclic (binding an unbound x to a non-variable, or to a variable whose chain does not end at x, keeps all chains finite). Unbounded in sequence length: '
                'the invariant composes over any sequence of successful unifications - and that composition is machine-checked for the sequences the SEARCH makes (unit solver_wf: overlay contracts on the verbatim bodies of next_solution, '
                'next_solution_and / _or / _bip and the node constructors over the ghost node heap; solve / solve_all): every goal in the search state holds terms unify accepts, every set of bindings in a node or returned as an answer is well formed and acyclic, '
                'so the preconditions of unify, of the ten built-in predicates and of print / print_list are proved at the solver\'s call sites, and the built-ins are proved to return such bindings. Chain-walking functions get decreases clauses in unit subst. '
                'Resolving an answer: replace_variables (verbatim body, unit replace) terminates - decreases (size of the value under a solution, rank along chains) - for every term and every binding set whose chains end and which has a finite solution '
                '(the statement\'s "needs no occurs check"); the result has the same value under every solution and contains no bound variable.',
        'note': 'Trusted: T1, T2, T4, T5, heap model T8 for the search invariant. RELATIVE TO: the stored rules and the query are well formed (what the parsers return, C18). Not covered: Display / format_solution; that unify preserves solvability (it does not: $X = f($X) succeeds - the occurs-check exclusion of the statement); termination of unify itself.',
        'technique': 'contract-based deductive verification (Verus) of extracted real code',
        'design_ref': 'DESIGN.md 5/C08, 8.15 and 8.37',
    },
    'C09': {
        'text': 'Deductive proof (Verus): postcondition of the verbatim unify - if either operand is $_ the result is Some of the identical substitution set (same Rc). '
                'Because every nested position is reached through a recursive unify call checked against the same contract, the clause holds wherever $_ occurs.',
        'note': 'Trusted: T1, T2, T4, T5. Programs using $_ reach unify through the solver, which calls it within its preconditions (unit solver_wf, C08); a bounded oracle looks at whole programs with $_.',
        'technique': 'contract-based deductive verification (Verus) of extracted real code',
        'design_ref': 'DESIGN.md 5/C09',
    },
    'C10': {
        'text': 'Deductive proof (Verus) on the verbatim bodies of Unifiable::recreate_variables (all arms, including the list arm that rebuilds through make_linked_list), recreate_vars_terms, recreate_vars_goals, '
                'Goal::, Operator::, BuiltInPredicate:: and Rule::recreate_variables: the result has the same shape as the input (same atoms, numbers, functors, goal kinds, list spine, per-node counts and tail markers; the empty list stays the empty list), '
                'every variable of the result carries the id recorded for its name in the map (one id per name, across head and body), the map only grows (no name is renumbered), and all ids are usable (non-zero). '
                'Freshness: the id counter is ghost state threaded through the renaming family (next_id moves it up by one: complete Kani harness on the real static), so every id of a renamed clause lies above the counter as it was and up to the counter as it is (get_rule #ids_fresh, #ids_interval). '
                'In the search (unit solver_ids: overlay contracts on the verbatim bodies of next_solution, next_solution_and / _or / _bip, make_solution_node, make_base_node, set_head_node, over the node heap with the counter as a ghost field) every variable id referenced from the search state - '
                'goals, remaining operands and bindings of every solution node, and every answer - is at most the counter before and after every request; so the ids of a fresh clause copy are in use nowhere else in the search, and the rewinding of the counter after a failed head unification gives back ids that nothing refers to.',
        'note': "Trusted: obeys_key_model::<String>() for HashMap<String,_> (T2), next_id's contract in Verus (assumed there, proved by Kani), T1, T4, T5. RELATIVE TO (assumed in unit solver_ids): the preconditions of get_rule at the solver's call site (the predicate exists, the stored rules are well formed; unify's preconditions are proved at its call sites in unit solver_wf, C08), the built-in predicates' preconditions on the shape of their arguments (that they introduce no variable of their own is proved for all ten, in their units), the query was built in the current counter epoch. Not covered: termination of the recursion.",
        'technique': 'contract-based deductive verification (Verus) of extracted real code (renaming family; id invariant of the search over a ghost heap model) + Kani harness for the id counter',
        'design_ref': 'DESIGN.md 5/C10, 8.30, 8.36',
    },
    'C12': {
        'text': 'Deductive proof (Verus) on the verbatim bodies of evaluate_add, evaluate_subtract, evaluate_multiply, evaluate_divide and their argument pipeline get_numbers / get_integers / get_floats '
                '(rule R13 writes the two `.iter().fold(init, |mut acc, &x| {acc op= x; acc})` calls of each function as the loop Iterator::fold is defined as): for ground numeric arguments - any number of them, '
                'reached through variable chains of any length - the result is the left-to-right fold of the argument values in argument order, starting from 0 (add), 1 (multiply) or the first argument (subtract, divide); '
                'an SInteger computed on mathematical integers with truncating division, every partial result required to fit in 64 bits (overflow and zero divisors are outside the claim), exactly when no argument is a float; '
                'otherwise an SFloat computed with the f64 operators on the arguments with every integer converted. The f64 operators and the integer-to-float cast are uninterpreted total functions in the proof '
                '(that they are the IEEE-754 operations is not provable in Verus); a BOUNDED enumeration (labelled bounded, never counted) compares with Rust\'s own operators bit for bit, also through the infix parser.',
        'note': 'The infix forms `+ - * /` are proved to mean the functions add / subtract / multiply / divide on the two operands (parse_term #meaning, unit contexts_a, DESIGN 8.33 / 8.42). Trusted: T6 (f64 + - * / and `i as f64` are deterministic total functions of their operands; axiom_f64_arith_is_a_function, i64_to_f64), T4 (rewrite R13 = core\'s definition of Iterator::fold for slice iterators), T1, T2, T5. '
                'Not covered: subtract()/divide() with no argument (Vec::remove(0) panics), the infix parser (string level, bounded only). The unification of the value with the other operand is proved under C13.',
        'technique': 'contract-based deductive verification (Verus) of extracted real code',
        'design_ref': 'DESIGN.md 5/C12 and 8.10',
    },
    'C13': {
        'text': 'Deductive proof (Verus): unify carries the postcondition post_function - when one operand is a built-in function term the result satisfies the whole clause set (upost) of unifying '
                "the function's value with the other operand, on either side and for function/function pairs; unify_sfunction is proved against the same clause set in unit functions.",
        'note': 'Trusted: fn_value is uninterpreted (defined as what evaluate_* returns; those use iterator closures and floats, outside Verus; their values are proved to be the documented folds under C12); T1, T2, T4, T5.',
        'technique': 'contract-based deductive verification (Verus) of extracted real code',
        'design_ref': 'DESIGN.md 5/C13',
    },
    'C14': {
        'text': 'Deductive proof (Verus) on the verbatim bodies of bip_equal, bip_less_than, bip_less_than_or_equal, bip_greater_than, bip_greater_than_or_equal and get_two_constants, '
                'with get_constant / get_ground_term proved in unit subst: a success returns the identical substitution (no binding), happens only when both operands resolve - through variable chains of any length - '
                'to comparable constants, and for integer/integer and atom/atom operands happens exactly when the machine-integer order / String::cmp order says so. '
                'Float/float arms: exactly when vstd\'s f64 comparison spec says so (under the axiom that IEEE comparison is a function of its operands). '
                'Integer/float arms: exactly when the float compares accordingly with i2f(i), the uninterpreted value of the cast `i as f64` (extraction rule R12). '
                'A bounded enumeration (registered stand-in, not counted as proved) compares all arms with Rust\'s own conversion and comparison.',
        'note': "Trusted: String::cmp = uninterpreted total order with Equal<=>same text (T3), derived PartialEq of Ordering (T3), f64 comparison functional, `i as f64` is a function of i (T6), T1, T2, T4, T5. 'At most once' lives in the solver node (not covered). Kani through bip_* does not finish (drop glue), not registered.",
        'technique': 'contract-based deductive verification (Verus) of extracted real code; bounded replay oracle as labelled stand-in',
        'design_ref': 'DESIGN.md 5/C14',
    },
    'C16': {
        'text': 'Deductive proof (Verus) on the verbatim body of next_solution_append: the output term is unified (clause set of unify) with list_of(flat), the exact list value whose elements are, in argument order, '
                'the elements of each list argument continuing through bound tail variables (spec thru, proved for get_terms) and each resolved non-list argument. Unbounded in the number and length of arguments.',
        'note': 'Trusted: T1, T2, T4, T5; Vec::append spec of vstd. Inputs that are unbound or have unbound/anonymous tails are excluded by the precondition (outside the statement). Termination of the tail walk is not proved. At-most-once lives in the solver node.',
        'technique': 'contract-based deductive verification (Verus) of extracted real code',
        'design_ref': 'DESIGN.md 5/C16',
    },
    'C17': {
        'text': 'Deductive proof (Verus) on the verbatim bodies of count_terms, get_terms, filter, pass_filter, get_list_data, bip_count, bip_include, bip_exclude: count = length of the element sequence continuing through bound tails; '
                'include/exclude = list_of(the subsequence, in order, of elements for which unify with the filter term succeeds / fails), unified with the output only (nothing else bound); get_terms (used by join) = resolved value or element sequence. '
                'functor (next_solution_functor, atoms_match): exact outcome by pattern kind, prefix match when the pattern ends in *; arity = number of arguments. join (evaluate_join): the text is the Display of the collected terms joined by single spaces with , . ? ! attached to the previous word (Display itself uninterpreted).',
        'note': "Trusted: purity of unify (uninterpreted unify_ok tied to the result at call sites only), Display as uninterpreted disp and the R10 wrappers of evaluate_join, str::starts_with as uninterpreted prefix test (R11), T1, T2, T3, T4, T5. Termination of the tail walks not proved.",
        'technique': 'contract-based deductive verification (Verus) of extracted real code',
        'design_ref': 'DESIGN.md 5/C17',
    },
    'C18': {
        'text': 'Deductive proof (Verus), incremental: 40 parser / tokenizer functions are under proof with the contract "total" - parse_term, make_term, parse_arguments, check_quotes, parse_complex, parse_functor_terms, validate_complex, parse_query, '
                'parse_function, parse_subgoal, parse_operator_goal, make_goal, make_goal_no_args, get_left_and_right, split_complex_term, indices_of_parentheses, check_infix, check_arithmetic_infix, equal_escape, index_of_neck, parse_rule '
                '(plus the error formatters). For every text below 2^31 characters Verus discharges: every index and slice in range, no arithmetic overflow, every unwrap on Some, every panic! unreachable, every loop with a decreases clause, '
                'and every callee precondition (e.g. an infix position always leaves room for its operand). parse_linked_list and link_front are under proof too (total; the parsed list is well formed). make_logic_var too, and the tokenizer (tokenize, group_tokens, group_and_tokens, group_or_tokens, token_tree_to_goal, generate_goal with the token helpers): the grouping functions are shown to build only trees that token_tree_to_goal accepts, so its three panic! sites and the two in the grouping functions are unreachable; the fact this rests on - every opening-parenthesis token of tokenize is followed by an operand, and the list starts with one - is proved from an invariant over the pending text (it used to be an assumed clause). '
                'TERMINATION is machine-checked: the mutual recursion of the term and goal parsers (decreases (length of the text, rank of the function)), group_tokens (tokens.len() - index), group_and_tokens / token_tree_to_goal (structural), and every loop. Trusted: make_query (its renaming is proved under C10).',
        'note': 'Trusted: R5 (char/String conversion macros as functions), R10 (&s[1..] wrapped with its char-boundary precondition), R11 (starts_with/ends_with/contains as total external functions), assumed specs of trim (a function; contiguous sub-sequence), parse::<i64/f64>, to_vec, String::len, Chars::last (T3); white space is none of the characters the tokenizer gives a meaning to (T3); a &str is determined by its characters (T2); T1, T4, T5.',
        'technique': 'contract-based deductive verification (Verus) of extracted real code',
        'design_ref': 'DESIGN.md 5/C18, 8.8, 8.16, 8.17',
    },
    'C21': {
        'text': 'Deductive proof (Verus) on the verbatim bodies of separate_rules, strip_comments, check_last_char (and the helpers is_decimal_point, trim_error_line): '
                'separate_rules returns exactly the segments of the text that end at a rule-ending period (a period at bracket depth 0, outside quotes, that is not a decimal point), each containing no other such period, '
                'their concatenation being a prefix of the text whose remainder contains none (spec segmented / rule_end), and fails exactly when brackets are unbalanced; '
                'strip_comments returns the trimmed text before the first #, % or // outside brackets; check_last_char accepts exactly the documented continuation characters. '
                'read_facts_and_rules (unit loader; rule R14 writes its `for line in lines` as loop / next()): the file is rejected if it cannot be opened or a kept line ends in anything but - , . = ; - otherwise the text handed to separate_rules '
                'consists of the kept lines (comments stripped, empty ones dropped) in order, separated by white space (a line break separates words), and the result is that text\'s segmentation with each rule trimmed. '
                'PARTIAL: load_kb_from_file (parse_rule on each segment) is outside the proof.',
        'note': 'load_kb_from_file itself is under proof (unit loadkb, DESIGN 8.43): the rules of the file parsed one by one and added in order, or an error. Trusted: str_to_chars!/chars_to_string! as functions (R5), str::trim as a contiguous sub-sequence, char::is_ascii_digit, String::push (T3); io::Lines::next / line_reader yield the lines of the named file in order (assumed specification, T3); `stripped` is defined as what the pure function strip_comments returns. i32 depth counters: files below 2^31 characters.',
        'technique': 'contract-based deductive verification (Verus) of extracted real code',
        'design_ref': 'DESIGN.md 5/C21 and 8.13',
    },
    'C22': {
        'text': "Kani (CBMC) harnesses on the real crate, sequential, complete (loop-free or fully unwound, full-domain scalars): from an ARBITRARY prior value of the two cross-query globals (stop flag, id counter) "
                "start_query() and make_query() re-establish the initial state (flag clear, ids restart), and next_id/set_var_id/clear_id/stop_query satisfy their counter/flag contracts. "
                "This turns the history property into a per-constructor contract, as the statement's proviso allows. make_query is verified modularly with Unifiable::recreate_variables stubbed; "
                "the stub's frame assumption (renaming never writes the stop flag) is re-checked by a source scan on every run. start_query_timer (what solve / solve_all begin with) clears the flag before arming the timer (ThreadTimer stubbed). "
                "parse_query, the string-driven constructor, is proved in Verus on its verbatim body to return only queries obtained from make_query (provenance clause #query_from_constructor). "
                "solve and solve_all are proved in Verus (unit solutions, ghost counter) to start the search only after start_query_timer() and to cancel the timer they armed on every path out, so that no timer of one call can stop a later query.",
        'note': 'Assumed, not checked: the engine reads no other cross-query state and reads these two only through count_rules / next_id; the timer thread itself is stubbed. Trusted: Kani 0.68 / CBMC 6.11, stubs for fmt::format, RandomState::new, ThreadTimer; Verus trusted base of unit parsers (T1-T5).',
        'technique': 'Kani function-level harnesses (complete BMC, callee stubbed) on the real crate + contract-based deductive verification (Verus) of parse_query',
        'engine': 'kani-harnesses',
        'design_ref': 'DESIGN.md 5/C22, 8.18',
    },
    'C05': {
        'text': 'Deductive proof (Verus) on the verbatim bodies of next_solution, next_solution_and and next_solution_or, over a ghost heap that stands for the Rc<RefCell<SolutionNode>> graph (extraction rule R15 turns every access through the RefCell into an accessor call on that heap; '
                'borrow_mut is modelled with a lock whose exclusivity is a proof obligation): every request that returns None marks its node `done`, which requires the node to be spent (`local_done`: the clause index at the end and the last body node done; both operands of an and-node done; '
                'the remaining alternative of an or-node done; more_solutions cleared for not / time / built-ins; or backtracking disabled by a cut); a `done` node answers every later request with None, asks no clause of the knowledge base and produces no output; '
                'the heap invariant (done => spent, for every node) is kept by every request. Holds for every knowledge base, every goal and whatever unification returns. Partial correctness (a search need not terminate). '
                'A bounded program-level oracle (labelled bounded, never counted) asks 26 queries to exhaustion and four times more, through next_solution() and solve().',
        'note': 'Trusted: the heap model of Rc<RefCell<..>> (T8: one heap; Rc::clone keeps identity; field access through a RefMut touches that field only; the unsafe raw-pointer writes of set_no_backtracking set cut flags only), rewrite rules R2, R7, R10, R15 (T4), derived Clone (T1), Verus+Z3 (T5). '
                'ASSUMED (not proved here): the effect of the unsafe walk of set_no_backtracking (`walked`), next_solution_print / next_solution_print_list / print_elapsed (one output event, no node touched), Operator::split_head_tail / first operand of not(..), time(..) never Goal::Nil. next_solution_bip, make_solution_node, make_base_node, set_head_node, SolutionNode::new are proved in the unit. '
                'unify / get_rule / get_head / get_body / key / get_var_id / set_var_id are abstract (arbitrary results). solve()/solve_all() mapping None to "No more." is read, not proved.',
        'technique': 'contract-based deductive verification (Verus) of extracted real code over a ghost heap model of the RefCell node graph',
        'design_ref': 'DESIGN.md 8.23',
    },
    'C01': {
        'text': 'PARTIAL.  Deductive proof (Verus) on the verbatim bodies of next_solution, next_solution_and, next_solution_or (ghost node heap, rule R15) of the structural facts the search order rests on: clauses are fetched in index order, each at most once; '
                'a clause body runs under the unifier of its head with the goal; the rest of a conjunction runs under the first goal\'s answer; the later alternatives of a disjunction are the remaining operands and run under the bindings the disjunction was entered with '
                '(substitution sets are immutable values, so bindings of an abandoned alternative cannot reach a later answer). '
                'SOUNDNESS with respect to resolution is proved (unit solver_sld): every answer a solution node gives is a computed answer of its goal by SLD resolution - the semantics given as inference rules (clause copy + unification, conjunction, disjunction, built-ins as functions; not(G) and the cut count as true, they only remove answers). '
                'Further invariants of the whole search are proved as overlays on the same bodies (units solver_ext, solver_ids, solver_wf, solver_kb; solve / solve_all included): no binding is ever lost - every answer of a node extends the bindings the node was made with, and those never change; '
                'every variable id in the search state and in every answer is within the id counter, so renamed clause copies are fresh for the search (C10); every set of bindings is well formed and acyclic, so unify, the built-ins and print are called within their preconditions (C08). '
                'The other direction of the statement - every answer of depth-first, left-to-right, clause-order resolution is produced, in that order and multiplicity, up to renaming - is a whole-history statement and is checked BOUNDED only: '
                '3000 random stratified programs per seed against a reference interpreter (c01_prog), and solve_all() formatting on 1500 more (c01_solve_all).',
        'note': 'Proved: soundness, the per-node clauses and the search invariants; completeness and order are bounded. Trusted: heap model (T8), R15 (T4). unify / get_rule are seen through their own contracts (C06, C10 are their own properties); assumed: the stored rules are well formed, the built-ins\' preconditions on the shape of their arguments. format_solution is proved (unit print) to write `$Var = value` per query variable in argument order, under the precondition that result and query have the same arity.',
        'technique': 'contract-based deductive verification (Verus) of extracted real code (per-node clauses; three invariants of the search over a ghost heap model) + bounded differential comparison with a reference interpreter on random programs',
        'design_ref': 'DESIGN.md 8.27, 8.36-8.41',
    },
    'C11': {
        'text': 'PARTIAL.  Deductive proof (Verus, unit rename, shared with C10) that every use of a clause is a renamed copy with one fresh variable id per name across head and body, sharing no id with any other use or with the query: the search works on ids, never on names. '
                'That the answers, their order and the output then do not depend on the names is C01 composed with this and is checked BOUNDED: a metamorphic comparison of 1500 random programs per seed with their consistently renamed variants (c11_rename).',
        'note': 'The composition with the search is bounded only (see C01). Trusted: as C10.',
        'technique': 'contract-based deductive verification (Verus) of extracted real code (renaming apart) + bounded metamorphic comparison on random programs',
        'design_ref': 'DESIGN.md 8.27',
    },
    'C23': {
        'text': 'PARTIAL.  Deductive proof (Verus) on the verbatim bodies of solve and solve_all of the reporting discipline around the stop flag, with the flag as an oracle: it is read after every search step and before that step\'s result is looked at, '
                'and a result is used only when the flag was found clear - so an answer or a "no more" computed while the query was being stopped is never reported, and the list of solve_all is a prefix of the answers obtained with the flag clear, '
                'followed by the time-out message only when the flag was found raised. The timer armed by a call is cancelled on every path out (C22). '
                'REAL ANSWERS (8.46): every text solve_all returns, except possibly the last, is what format_solution gives for the query with its variables replaced under a computed answer of the query by resolution '
                '(soundness of the search, C01, carried through replace_variables - arity kept, proved without precondition on the bindings - and format_solution); the last one too unless the flag was found raised after the loop; solve returns "No more." or such a text unless it found the flag raised. '
                'NOT DECIDED: that the flag is raised only when the limit was exceeded, and that a search finishing well within the limit is never reported as timed out - these involve the timer thread and wall-clock time, which neither verifier models.',
        'note': 'Half of the statement (timing, the race between cancel_timer and the timer thread) is outside reach and is not claimed. Trusted: heap model (T8), the stubs of start_query_timer / cancel_timer / query_stopped (the latter returns an arbitrary boolean); replace_variables as a function of its arguments (T10); not(G) and the cut count as true in the reference relation (they only remove answers) - that not(G) is not answered from a search that was being stopped is the reporting discipline above.',
        'technique': 'contract-based deductive verification (Verus) of extracted real code (reporting discipline with the stop flag as an oracle; reported texts are formatted computed answers)',
        'design_ref': 'DESIGN.md 8.32, 8.46',
    },
    'C04': {
        'text': 'PARTIAL.  Deductive proof (Verus) on the verbatim bodies of format_for_print_pred, next_solution_print and next_solution_print_list (unit print) and of next_solution_bip (unit solver): '
                'the text of print is its first argument with the `%s` markers replaced left to right by the later arguments (left-over arguments follow one another - concatenation when there is no marker -, left-over markers vanish), '
                'each argument shown with its bound value; a print goal with arguments is exactly one output event; print_list writes one line per argument, in argument order and each once (a list as the text of its elements, after the first argument preceded by ",\\n"), nothing without arguments; '
                'a print / print_list / nl node writes only on its first request, and a node that has reported "no more" writes nothing (C05). '
                'The trace sentence - the output of a whole search is what the reference depth-first search writes, in execution order - is a whole-history statement and is checked BOUNDED only: '
                '2000 random programs per seed against a reference interpreter (c04_prog).',
        'note': 'Trusted: the cutting specification of str::split (T3, spec/print.rs: at least one piece; uninterpreted otherwise), Display of a term uninterpreted, heap model (T8) for the output events, R10 wrappers for String += and ToString, R16 (print!). '
                'The acyclic bindings next_solution_print / next_solution_print_list require are PROVED at the solver\'s call sites (unit solver_wf, C08 8.37). format_slist is PROVED on its verbatim body (unit slist, 8.49): the text of a list is the text of its elements through bound tail variables, separated by ", "; the text print_list speaks of (fmt_slist) is defined as exactly that and format_slist is proved to return it; only for a list that is its own tail is it an uninterpreted function of the arguments (T10).',
        'technique': 'contract-based deductive verification (Verus) of extracted real code (formatting and once-per-execution clauses) + bounded comparison of output traces with a reference interpreter',
        'design_ref': 'DESIGN.md 8.26, 8.35, 8.49',
    },
    'C19': {
        'text': 'PARTIAL.  Deductive proof (Verus) on the verbatim body of token_tree_to_goal (unit tokentree, together with the grouping functions that build its input): the goal built for a conjunction or a disjunction has the kind of the branch token '
                'and exactly one operand per child, and the children of such a branch are operands only - so no goal of a rule body can be dropped or merged on the way from the token tree to the goal. '
                'The round trip of the statement itself (printing the parsed value gives the canonical text; parsing the printed text gives an equal value) is a string-level inverse of two long functions and is checked BOUNDED only: '
                '43 rules and facts covering every construct the statement lists (c19_roundtrip) and about 2400 generated rules per seed whose source and canonical text are written from the same tree (c19_random), on the real parser and the real Display. '
                'The generated rules found a genuine defect, repaired (fix a60d3f3: not(add($A, 1) = 2) was printed but could not be read back).',
        'note': 'Only the goal-structure fragment is proved; terms, numbers, lists, built-ins and infix operators are covered by the bounded texts only. Parenthesised groups are outside the statement\'s list of documented syntax (Display writes no parentheses). '
                'Trusted: T1-T5 as for C18 (same unit).',
        'technique': 'contract-based deductive verification (Verus) of extracted real code (goal-structure fragment) + bounded round-trip enumeration (fixed and generated rules) on the real parser / Display',
        'design_ref': 'DESIGN.md 8.25',
    },
    'C20': {
        'text': 'PARTIAL, with KNOWN FINDINGS.  Deductive proof (Verus) on verbatim bodies, with additional clauses kept in overlay contracts (contracts/*+c20.vc): parse_term computes the meaning of a text written on its own as specified '
                '(trim; the first arithmetic infix makes a function of the two operands; otherwise the characters are classified - some digit / some period / anything else - and the text goes to make_term, the two-character escape resolved); '
                'every element of a list that parse_linked_list returns is parse_term of its trimmed piece of the text between the brackets and every operand of an infix is parse_term of its side of the text (get_left_and_right): for these two contexts the property is proved '
                'for every text that the context accepts (a list can still be REJECTED for a text that is fine on its own: quotation marks that do not enclose the whole text - a known finding); and for an ARGUMENT made of simple characters (no sign, white space, bracket, quotation mark, comma, backslash), with blanks before and after them as in `f(a, b)`, the scan of parse_arguments is proved to keep the text and to classify it as parse_term does, so such an argument is the meaning of its text on its own. For the argument contexts (complex term, built-in, query) the property does NOT hold: parse_arguments classifies the characters of an argument itself, drops backslashes and never looks for an infix. '
                'The two obligations which say that this comes to the meaning of the piece on its own (#argument_not_infix, #argument_as_alone at both calls of make_term) fail on the unchanged tree and are refuted by inputs replayed on the real parsers; '
                'they are recorded in known_findings.txt (a repair means one classification for all contexts and changes the accepted language in four ways; DESIGN 8.33). '
                'A bounded exploration (c20_contexts: 207 fixed term texts and about 160 generated terms per seed in 22 contexts, thirteen of them with a sibling term before or after the text, against parse_term) passes over a deviation only if it is one of the recorded ones by context, shape of the text and both values, and reports every other one.',
        'note': 'Because the two argument obligations already fail for the recorded reasons, a further disagreement introduced into parse_arguments OUTSIDE the simple-character fragment is caught by the bounded exploration only, not by proof; nor is a list or a complex term that is REJECTED although its element texts are fine on their own (seed C20-2). One genuine defect found by the exploration was repaired (equal_escape, fix a6d7743). '
                'ASSUMED (T10): parse_term, make_term, check_arithmetic_infix, get_left_and_right are functions of their arguments where they are callees. Trusted: T1-T5 as for C18, trim idempotent, clone of a char (T3).',
        'technique': 'contract-based deductive verification (Verus) of extracted real code (meaning of a text on its own; list-element and infix-operand contexts) + failing call-site obligations recorded as known findings with replayed inputs + bounded enumeration of texts x contexts on the real parsers',
        'design_ref': 'DESIGN.md 8.33',
    },
    'C02': {
        'text': 'Deductive proof (Verus) on the verbatim bodies of next_solution, next_solution_and, next_solution_or over the ghost node heap (rule R15, see C05): a node whose cut flag is set answers None and does nothing; '
                'the clause loop of a call fetches no later clause once the call\'s flag is set; an and-node does not obtain another answer from the goals left of a cut (heap invariant: a flagged node\'s head node is flagged); '
                'no request changes the cut flag of any node above the call it works in (the caller and its other goals are unaffected). '
                'What the cut itself does to the flags is PROVED on the verbatim unsafe body of SolutionNode::set_no_backtracking (unit cutwalk, rule R17: a raw pointer is a handle on a node of the ghost heap, `(*raw).F` an access to that node\'s field): it flags the node, every node up the parent links and the head node of each of those ancestors, nothing else, and terminates (specification `walked`); its precondition is proved at the call site. A bounded enumeration on the real function with real nodes checks the same specification (c02_walk: 329 shapes). '
                'A bounded oracle compares the engine with a reference interpreter on 29 queries over a 45-clause program with cuts.',
        'note': 'Trusted: heap model (T8), R15 (T4), Verus+Z3 (T5). Relative to R17 (the raw-pointer accesses of the walk are accesses to the fields of the nodes pointed to; whether they are defined behaviour under a live RefMut is C24, n/a). From `walked` next_solution_bip is PROVED to keep the invariant, to flag the call node and to leave every flag above the call alone (lemma_walk). '
                'The reference interpreter adopts the documented semantics of the statement (no answer beyond the one being derived).',
        'technique': 'contract-based deductive verification (Verus) of extracted real code over a ghost heap model of the RefCell node graph, including the unsafe cut walk + bounded enumeration of that walk on real nodes',
        'design_ref': 'DESIGN.md 8.24',
    },
    'C03': {
        'text': 'Deductive proof (Verus) on the verbatim Not branch of next_solution (ghost node heap, rule R15; see C05): not(G) answers only with the substitution set its node was created with (so no binding of G is visible and every binding is as it was), '
                'it answers exactly when the request to G\'s node returned None (ghost record of that call, clause #not_iff), it is spent after one request whatever the outcome (succeeds at most once; a later request returns None without asking G), '
                'and a request to a node whose backtracking a cut has disabled does nothing. Partial correctness (G need not terminate). A bounded oracle compares `pre, not(G)` with `pre, G` for 16 goals under 5 prior bindings through the real search.',
        'note': 'Trusted: heap model (T8), R15 (T4), Verus+Z3 (T5). PROVED on make_solution_node: G\'s node gets the substitution set of the not-node (clause #head_bindings). "G has no answer" is identified with "the first request to G\'s node returns None".',
        'technique': 'contract-based deductive verification (Verus) of extracted real code over a ghost heap model of the RefCell node graph',
        'design_ref': 'DESIGN.md 8.23',
    },
    'C15': {
        'text': 'Deductive proof (Verus) on the verbatim bodies of make_linked_list and link_front: for every term vector satisfying the call-site precondition the result is a well-formed list '
                '(empty-node terminated, per-node count = nodes to the end, only the last node a tail variable) whose element sequence, tail and length are exactly those of the statement '
                '(given elements; trailing tail variable as tail; trailing list spliced in as the rest). Unbounded in the number and shape of elements. '
                'Engine call sites (renaming, append, include/exclude) are obliged, in their own units, to establish the precondition under which a list-valued last element stays one element.',
        'note': 'Trusted: derived PartialEq/Clone of Unifiable (T1), vstd Vec/Box specs (T2), rewrite rules (T4), Verus+Z3 (T5). parse_linked_list itself is string-driven and is covered only through link_front (C18 covers its panic-freedom).',
        'technique': 'contract-based deductive verification (Verus) of extracted real code',
        'design_ref': 'DESIGN.md 5/C15',
    },
}

NOT_APPLICABLE = {
    'C02': "the cut's effect lives in next_solution's clause loop and a RefCell::as_ptr raw-pointer walk; Verus rejects both constructs, Kani cannot build a SolutionNode within budget",
    'C03': 'Not branch of next_solution (RefCell node graph), same obstacle as C01/C02',

    'C05': 'inductive invariant over the dynamic node graph behind RefCell across repeated calls (history property)',
    'C06': 'not yet built in this session (planned: Verus contract on unify)',
    'C07': 'two-run relational property needing MGU-uniqueness theory over a functional model of unify; a contract on one call cannot state it; bounded Kani stand-in measured out of budget',
    'C08': 'not yet built in this session (planned: acyclicity invariant of unify)',
    'C09': 'not yet built in this session (planned: Verus contract on unify)',
    'C10': 'not yet built in this session',
    'C12': 'not yet built in this session',
    'C13': 'not yet built in this session',
    'C14': 'not yet built in this session',
    'C16': 'not yet built in this session',
    'C17': 'not yet built in this session',
    'C18': 'not yet built in this session',

    'C21': 'not yet built in this session',
    'C22': 'not yet built in this session',
    'C24': 'aliasing-model UB (Stacked/Tree Borrows) and data races are invisible to both verifiers; Miri territory, a different family',
}
