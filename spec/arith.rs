// ---------------------------------------------------------------------------
// spec/arith.rs -- the numeric arguments of add / subtract / multiply / divide (C12)
// ---------------------------------------------------------------------------

// argument i is ground and numeric
pub open spec fn num_arg(s: SS, t: Unifiable) -> bool {
    ground_of(s, t) matches Some(g) && (g is SInteger || g is SFloat)
}

// the number an argument stands for
pub open spec fn num_of(s: SS, t: Unifiable) -> SNumber {
    match ground_of(s, t) {
        Some(Unifiable::SInteger(i)) => SNumber::SInteger(i),
        Some(Unifiable::SFloat(f)) => SNumber::SFloat(f),
        _ => arbitrary(),
    }
}

pub open spec fn some_float(ns: Seq<SNumber>) -> bool {
    exists|j: int| 0 <= j < ns.len() && #[trigger] ns[j] is SFloat
}

// the integers among the numbers, in order
pub open spec fn ints_of(ns: Seq<SNumber>) -> Seq<i64>
    decreases ns.len(),
{
    if ns.len() == 0 { Seq::empty() }
    else {
        match ns.last() {
            SNumber::SInteger(i) => ints_of(ns.drop_last()).push(i),
            _ => ints_of(ns.drop_last()),
        }
    }
}

// every number as a float: floats as they are, integers converted
pub open spec fn as_float(n: SNumber) -> f64 {
    match n { SNumber::SFloat(f) => f, SNumber::SInteger(i) => i2f(i) }
}

pub proof fn lemma_ints_of_all(ns: Seq<SNumber>)
    requires forall|j: int| 0 <= j < ns.len() ==> #[trigger] ns[j] is SInteger,
    ensures ints_of(ns).len() == ns.len(),
        forall|j: int| 0 <= j < ns.len() ==> ns[j] == SNumber::SInteger(#[trigger] ints_of(ns)[j]),
    decreases ns.len(),
{
    if ns.len() > 0 {
        lemma_ints_of_all(ns.drop_last());
        assert(ns.last() is SInteger);
        assert forall|j: int| 0 <= j < ns.len() implies ns[j] == SNumber::SInteger(#[trigger] ints_of(ns)[j]) by {
            if j < ns.len() - 1 { assert(ns.drop_last()[j] == ns[j]); }
        }
    }
}
