#!/usr/bin/env python3
"""harmless_eval.py <name> <worktree> <props,comma> -- stores a behaviour-preserving refactoring under /verif/harmless/<name>/ and runs the
checks against a scratch copy of /repo with the patch applied: the outcome must be exit 0 or exit 2 (UNDECIDED), never exit 1."""
import sys, os, subprocess, shutil, hashlib, glob, json
VERIF = os.path.dirname(os.path.dirname(os.path.abspath(__file__)))
name, wt, props = sys.argv[1], sys.argv[2], sys.argv[3].split(',')
out = os.path.join(VERIF, 'harmless', name)
os.makedirs(out, exist_ok=True)
for f in ('patch.diff', 'meta.json'):
    shutil.copy(os.path.join(wt, 'seed_out', f), os.path.join(out, f))
mw = '/tmp/harmwt_' + name
shutil.rmtree(mw, ignore_errors=True)
os.makedirs(mw)
subprocess.run('cp -r /repo/src /repo/Cargo.toml /repo/Cargo.lock /repo/build.rs %s/ 2>/dev/null; cp -r /repo/tests /repo/benches %s/ 2>/dev/null' % (mw, mw), shell=True)
ap = subprocess.run(['patch', '-p1', '-d', mw, '-i', os.path.join(out, 'patch.diff')], capture_output=True, text=True)
res = {'patch_applies': ap.returncode == 0, 'checks': {}}
for p in props:
    r = subprocess.run([os.path.join(VERIF, 'bin', 'check'), p, 'quick', '--repo', mw, '--no-evidence'], capture_output=True, text=True)
    lines = [l for l in r.stdout.strip().split('\n') if l.startswith(('failed obligation', 'VIOLATION', 'UNDECIDED', 'OK', '  witness'))]
    res['checks'][p] = {'exit': r.returncode, 'lines': [l[:300] for l in lines[:6]]}
    print(name, p, 'exit=%d' % r.returncode, 'FALSE ALARM' if r.returncode == 1 else 'ok', (lines[0][:160] if lines else ''), flush=True)
shutil.rmtree(mw, ignore_errors=True)
h = hashlib.sha1(os.path.abspath(mw).encode()).hexdigest()[:8]
for q in glob.glob(os.path.join(VERIF, 'build', '*_' + h)):
    shutil.rmtree(q, ignore_errors=True)
meta = json.load(open(os.path.join(out, 'meta.json')))
meta['checks_on_patched_copy'] = res
json.dump(meta, open(os.path.join(out, 'meta.json'), 'w'), indent=1)
