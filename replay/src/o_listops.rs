//! C17 (count, include/exclude, get_terms/join) and C16 (append) oracles.
use crate::terms::*;
use crate::o_unify::{ser_ss, de_ss};
use std::rc::Rc;
use suiron::*;
use suiron::Unifiable::*;

type SS = Vec<Option<Rc<Unifiable>>>;

fn field<'a>(case: &'a str, key: &str) -> &'a str {
    for p in case.split(';') { if let Some(v) = p.strip_prefix(&format!("{}=", key)) { return v; } }
    ""
}

fn resolve(t: &Unifiable, ss: &SS) -> Option<Unifiable> {
    let mut t = t.clone();
    for _ in 0..100 {
        match &t {
            LogicVar { id, .. } => match ss.get(*id).and_then(|o| o.as_ref()) { Some(b) => { t = (**b).clone(); } None => return None },
            _ => return Some(t),
        }
    }
    None
}

/// the elements of a list, continuing through tail variables bound to lists (statement of C16/C17).
/// `None` when a tail is unbound or anonymous (outside the statement).
pub fn elems_through(l: &Unifiable, ss: &SS, depth: usize) -> Option<Vec<Unifiable>> {
    if depth > 20 { return None; }
    let mut v = elems(l);
    match tail_of(l) {
        None => Some(v),
        Some(t) => match resolve(&t, ss) {
            Some(g) if matches!(g, SLinkedList{..}) => { v.extend(elems_through(&g, ss, depth + 1)?); Some(v) }
            _ => None,
        },
    }
}

pub fn lists_and_ss() -> Vec<(Unifiable, SS)> {
    let mk = |pairs: &[(usize, Unifiable)]| { let mut ss: SS = vec![]; for (i, t) in pairs { while ss.len() <= *i { ss.push(None); } ss[*i] = Some(Rc::new(t.clone())); } ss };
    let e = vec![];
    let mut v = vec![];
    let base = vec![
        empty(),
        mk_list(&[atom("a")], None),
        mk_list(&[atom("a"), SInteger(1), atom("a")], None),
        mk_list(&[atom("a"), mk_list(&[atom("b")], None)], None),          // last element is a list
        mk_list(&[atom("a"), empty()], None),                                 // last element is the empty list
        mk_list(&[mk_list(&[atom("b"), atom("c")], None)], None),
        mk_list(&[SComplex(vec![atom("f"), atom("a")]), SComplex(vec![atom("f"), SInteger(2)]), atom("f")], None),
        mk_list(&[var(3, "$V"), atom("a")], None),
    ];
    for l in base { v.push((l, e.clone())); }
    // bound tails
    v.push((mk_list(&[atom("a")], Some(var(1, "$T"))), mk(&[(1, mk_list(&[atom("b"), atom("c")], None))])));
    v.push((mk_list(&[atom("a")], Some(var(1, "$T"))), mk(&[(1, empty())])));
    v.push((mk_list(&[atom("a")], Some(var(1, "$T"))), mk(&[(1, var(2, "$U")), (2, mk_list(&[atom("b")], Some(var(4, "$W")))), (4, mk_list(&[mk_list(&[atom("z")], None)], None))])));
    // two levels of bound tails: [a | $T1], $T1 = [b, c | $T2], $T2 = [d, e]
    v.push((mk_list(&[atom("a")], Some(var(1, "$T1"))), mk(&[(1, mk_list(&[atom("b"), atom("c")], Some(var(2, "$T2")))), (2, mk_list(&[atom("d"), atom("e")], None))])));
    // variable bound to a list
    v.push((var(1, "$L"), mk(&[(1, mk_list(&[atom("a"), atom("b")], None))])));
    v.push((var(3, "$V"), mk(&[(3, SInteger(1))])));
    // variable bound to a list whose last element is itself a list / the empty list; variable bound to the empty list
    v.push((var(5, "$M"), mk(&[(5, mk_list(&[atom("a"), mk_list(&[atom("b"), atom("c")], None)], None))])));
    v.push((var(5, "$M"), mk(&[(5, mk_list(&[atom("a"), empty()], None))])));
    v.push((var(6, "$E"), mk(&[(6, empty())])));
    // variable bound THROUGH another variable to a list ($X = $Y after $Y = [a, b]) and to an atom
    v.push((var(7, "$P"), mk(&[(7, var(8, "$Q")), (8, mk_list(&[atom("a"), atom("b")], None))])));
    v.push((var(7, "$P"), mk(&[(7, var(8, "$Q")), (8, atom("z"))])));
    // seeded random lists (tails and elements bound through cycle-free bindings); fixed seed: the pool is part of several enumerators
    let mut rng = Rng(0x5DEECE66D);
    for _ in 0..60 {
        let ss = rand_ss(&mut rng, 6, true);
        let l = if rng.below(4) == 0 { let k = 1 + rng.below(6); var(k, &format!("$V{}", k)) } else { rand_list(&mut rng, 2, 6, false, true) };
        v.push((l, ss));
    }
    v
}

// ---------------- count ------------------------------------------------------
pub fn enum_count(_s: u64) -> Vec<String> {
    lists_and_ss().iter().map(|(l, ss)| format!("ss={};l={}", ser_ss(ss), ser(l))).collect()
}
pub fn check_count(case: &str) -> Result<(), String> {
    let ss = Rc::new(de_ss(field(case, "ss")));
    let l = de(field(case, "l"));
    let got = count_terms(&l, &ss);
    let exp = match resolve(&l, &ss) {
        Some(g) if matches!(g, SLinkedList{..}) => match elems_through(&g, &ss, 0) { Some(v) => v.len() as i64, None => return Ok(()) },
        _ => 1,
    };
    if got == exp { Ok(()) } else { Err(format!("count_terms = {}, expected {}", got, exp)) }
}

// ---------------- include / exclude ------------------------------------------
pub fn enum_filter(_s: u64) -> Vec<String> {
    let filters = vec![atom("a"), var(9, "$F"), Anonymous, SComplex(vec![atom("f"), var(9, "$F")]), SInteger(1), mk_list(&[var(9, "$F")], None)];
    let mut out = vec![];
    for (l, ss) in lists_and_ss() { for f in &filters { for inc in ["t", "f"] {
        out.push(format!("ss={};l={};f={};inc={}", ser_ss(&ss), ser(&l), ser(f), inc));
    } } }
    out
}
pub fn check_filter(case: &str) -> Result<(), String> {
    let ss = Rc::new(de_ss(field(case, "ss")));
    let l = de(field(case, "l"));
    let f = de(field(case, "f"));
    let inc = field(case, "inc") == "t";
    let got = filter(&f, &l, &ss, inc);
    let g = match resolve(&l, &ss) { Some(g) if matches!(g, SLinkedList{..}) => g, _ => { return if got.is_none() { Ok(()) } else { Err("filter of a non-list must fail".into()) } } };
    let all = match elems_through(&g, &ss, 0) { Some(v) => v, None => return Ok(()) };
    let exp: Vec<Unifiable> = all.into_iter().filter(|x| f.unify(x, &ss).is_some() == inc).collect();
    match got {
        None => Err("filter of a list returned None".into()),
        Some(r) => {
            if !wf_list(&r) { return Err(format!("result is not a well-formed list: {}", ser(&r))); }
            if tail_of(&r).is_some() || elems(&r) != exp { return Err(format!("result {} but expected the elements {}", ser_list(&elems(&r)), ser_list(&exp))); }
            Ok(())
        }
    }
}

// ---------------- get_terms ---------------------------------------------------
pub fn enum_terms(_s: u64) -> Vec<String> { enum_count(0) }
pub fn check_terms(case: &str) -> Result<(), String> {
    let ss = Rc::new(de_ss(field(case, "ss")));
    let l = de(field(case, "l"));
    let got = get_terms(&l, &ss);
    let exp = match resolve(&l, &ss) {
        None => vec![l.clone()],
        Some(g) if matches!(g, SLinkedList{..}) => match elems_through(&g, &ss, 0) { Some(v) => v, None => return Ok(()) },
        Some(g) => vec![g],
    };
    if got == exp { Ok(()) } else { Err(format!("get_terms = {}, expected {}", ser_list(&got), ser_list(&exp))) }
}

// ---------------- append (C16) --------------------------------------------------
pub fn enum_append(seed: u64) -> Vec<String> {
    let mut args: Vec<(Unifiable, SS)> = lists_and_ss();
    for t in [atom("x"), SInteger(7), SFloat(2.5), SComplex(vec![atom("f"), atom("a")])] { args.push((t, vec![])); }
    let mut out = vec![];
    // one and two inputs exhaustively (when their substitution sets are compatible), three sampled
    let compat = |a: &SS, b: &SS| -> Option<SS> {
        let n = a.len().max(b.len());
        let mut r: SS = vec![None; n];
        for i in 0..n {
            let x = a.get(i).and_then(|o| o.clone());
            let y = b.get(i).and_then(|o| o.clone());
            r[i] = match (x, y) { (None, y) => y, (x, None) => x, (Some(x), Some(y)) => { if *x == *y { Some(x) } else { return None; } } };
        }
        Some(r)
    };
    for (a, sa) in &args {
        out.push(format!("ss={};in={}", ser_ss(sa), ser(a)));
        for (b, sb) in &args {
            if let Some(s) = compat(sa, sb) { out.push(format!("ss={};in={}|{}", ser_ss(&s), ser(a), ser(b))); }
        }
    }
    let mut rng = Rng(seed.wrapping_mul(7919) | 1);
    for _ in 0..300 {
        let (a, sa) = &args[rng.below(args.len())];
        let (b, sb) = &args[rng.below(args.len())];
        let (c, sc) = &args[rng.below(args.len())];
        if let Some(s) = compat(sa, sb).and_then(|s| compat(&s, sc)) { out.push(format!("ss={};in={}|{}|{}", ser_ss(&s), ser(a), ser(b), ser(c))); }
    }
    out
}
pub fn check_append(case: &str) -> Result<(), String> {
    let ss0 = de_ss(field(case, "ss"));
    let ins = de_list(field(case, "in"));
    // expected elements, from the statement
    let mut exp: Vec<Unifiable> = vec![];
    for a in &ins {
        match resolve(a, &ss0) {
            None => return Ok(()),   // unbound input: outside the statement
            Some(g) if matches!(g, SLinkedList{..}) => match elems_through(&g, &ss0, 0) { Some(v) => exp.extend(v), None => return Ok(()) },
            Some(g) => exp.push(g),
        }
    }
    let out_var = var(50, "$Out");
    let mut terms = ins.clone();
    terms.push(out_var.clone());
    let ss = Rc::new(ss0);
    let bip = BuiltInPredicate::new("append".to_string(), Some(terms));
    match next_solution_append(bip, &ss) {
        None => Err("append failed".into()),
        Some(r) => {
            let o = match r.get(50).and_then(|o| o.as_ref()) { Some(o) => (**o).clone(), None => return Err("Out is unbound".into()) };
            if !wf_list(&o) { return Err(format!("Out is not a well-formed list: {}", ser(&o))); }
            if tail_of(&o).is_some() || elems(&o) != exp { return Err(format!("Out has elements {} but expected {}", ser_list(&elems(&o)), ser_list(&exp))); }
            for i in 0..ss.len() { if ss[i].is_some() && r[i].as_deref() != ss[i].as_deref() { return Err("an input binding changed".into()); } }
            Ok(())
        }
    }
}

// ---------------- join (C17) -------------------------------------------------------------------
fn disp_resolved(t: &Unifiable, ss: &SS) -> String {
    match resolve(t, ss) { Some(g) => format!("{}", g), None => format!("{}", t) }
}
pub fn enum_join(_s: u64) -> Vec<String> {
    let mk = |pairs: &[(usize, Unifiable)]| { let mut ss: SS = vec![]; for (i, t) in pairs { while ss.len() <= *i { ss.push(None); } ss[*i] = Some(Rc::new(t.clone())); } ss };
    let mut v: Vec<(Vec<Unifiable>, SS)> = vec![];
    v.push((vec![atom("coffee"), atom(","), atom("tea"), atom("or"), atom("juice"), atom("?")], vec![]));
    v.push((vec![var(1, "$X"), atom("tea")], mk(&[(1, atom("coffee"))])));
    v.push((vec![mk_list(&[atom("a"), atom("b")], None), atom("!")], vec![]));
    v.push((vec![mk_list(&[var(1, "$X"), atom("tea")], None), atom("?")], mk(&[(1, atom("coffee"))])));   // bound variable as list element
    v.push((vec![var(2, "$L"), atom(".")], mk(&[(1, atom("coffee")), (2, mk_list(&[var(1, "$X"), atom("tea")], None))])));
    v.push((vec![mk_list(&[atom("a")], Some(var(1, "$T")))], mk(&[(1, mk_list(&[atom("b"), atom(",")], None))])));
    v.push((vec![SInteger(3), SFloat(1.5), atom("x")], vec![]));
    // punctuation that is only known after resolution: a list ELEMENT bound to `,` `?` `!`, and a top-level variable bound to `.`
    v.push((vec![mk_list(&[atom("coffee"), var(1, "$C"), atom("tea"), atom("or"), atom("juice")], None)], mk(&[(1, atom(","))])));
    v.push((vec![atom("Would you like"), var(2, "$L")], mk(&[(1, atom("?")), (2, mk_list(&[atom("tea"), var(1, "$Q")], None))])));
    v.push((vec![mk_list(&[atom("Hello")], Some(var(2, "$T")))], mk(&[(1, atom("!")), (2, mk_list(&[atom("there"), var(1, "$E")], None))])));
    v.push((vec![atom("end"), var(1, "$P")], mk(&[(1, atom("."))])));
    let mut rng = Rng(_s.wrapping_mul(2654435761) | 1);
    for _ in 0..80 {
        let ss = rand_ss(&mut rng, 5, true);
        let n = 1 + rng.below(4);
        let mut args = vec![];
        for _ in 0..n { args.push(if rng.below(3) == 0 { rand_list(&mut rng, 1, 5, false, true) } else { rand_leaf(&mut rng, 5, false) }); }
        v.push((args, ss));
    }
    v.iter().map(|(ts, ss)| format!("ss={};in={}", ser_ss(ss), ser_list(ts))).collect()
}
pub fn check_join(case: &str) -> Result<(), String> {
    let ss = Rc::new(de_ss(field(case, "ss")));
    let ins = de_list(field(case, "in"));
    // expected, from the statement: resolved values of the arguments and of list elements
    let mut words: Vec<String> = vec![];
    for a in &ins {
        match resolve(a, &ss) {
            Some(g) if matches!(g, SLinkedList{..}) => match elems_through(&g, &ss, 0) { Some(es) => for e in es { words.push(disp_resolved(&e, &ss)); }, None => return Ok(()) },
            Some(g) => words.push(format!("{}", g)),
            None => words.push(format!("{}", a)),
        }
    }
    let mut exp = String::new();
    let mut first = true;
    for w in &words {
        let punct = w == "," || w == "." || w == "?" || w == "!";
        if punct || first { exp.push_str(w); } else { exp.push(' '); exp.push_str(w); }
        first = false;
    }
    let got = evaluate_join(&ins, &ss);
    match got { Atom(s) if s == exp => Ok(()), other => Err(format!("join gave {} but the documented text is {:?}", ser(&other), exp)) }
}

// ---------------- functor (C17) ----------------------------------------------------------------
pub fn enum_functor(_s: u64) -> Vec<String> {
    let mk = |pairs: &[(usize, Unifiable)]| { let mut ss: SS = vec![]; for (i, t) in pairs { while ss.len() <= *i { ss.push(None); } ss[*i] = Some(Rc::new(t.clone())); } ss };
    let c = SComplex(vec![atom("noun_phrase"), atom("the"), atom("sky")]);
    let mut v: Vec<(Vec<Unifiable>, SS, &str)> = vec![];
    v.push((vec![c.clone(), atom("noun_phrase")], vec![], "yes"));
    v.push((vec![c.clone(), atom("noun*")], vec![], "yes"));
    v.push((vec![c.clone(), atom("verb*")], vec![], "no"));
    v.push((vec![c.clone(), atom("noun*"), var(5, "$A")], vec![], "A=2"));
    v.push((vec![c.clone(), var(1, "$P"), var(5, "$A")], mk(&[(1, atom("noun*"))]), "A=2"));          // pattern through a bound variable
    v.push((vec![c.clone(), var(1, "$P")], mk(&[(1, atom("noun*"))]), "yes"));
    v.push((vec![c.clone(), var(1, "$P")], mk(&[(1, atom("verb"))]), "no"));
    v.push((vec![var(2, "$C"), var(1, "$F"), var(5, "$A")], mk(&[(2, c.clone())]), "A=2;F=noun_phrase"));
    v.push((vec![c.clone(), atom("noun_phrase"), SInteger(2)], vec![], "yes"));
    v.push((vec![c.clone(), atom("noun_phrase"), SInteger(3)], vec![], "no"));
    v.push((vec![atom("x"), atom("x")], vec![], "no"));
    // the functor asked for while the arity is given - as a number, through a bound variable, through a chain (seed C06-5: the
    // binding of the functor was dropped on exactly this path)
    v.push((vec![c.clone(), var(1, "$F"), SInteger(2)], vec![], "F=noun_phrase"));
    v.push((vec![c.clone(), var(1, "$F"), SInteger(3)], vec![], "no"));
    v.push((vec![c.clone(), var(1, "$F"), var(5, "$A")], mk(&[(5, SInteger(2))]), "F=noun_phrase;A=2"));
    v.push((vec![c.clone(), var(1, "$F"), var(5, "$A")], mk(&[(5, var(6, "$B")), (6, SInteger(2))]), "F=noun_phrase;A=2"));
    v.push((vec![var(2, "$C"), var(1, "$F"), SInteger(2)], mk(&[(2, c.clone())]), "F=noun_phrase"));
    v.iter().map(|(ts, ss, e)| format!("ss={};in={};exp={}", ser_ss(ss), ser_list(ts), e)).collect()
}
pub fn check_functor(case: &str) -> Result<(), String> {
    let ss = Rc::new(de_ss(field(case, "ss")));
    let ins = de_list(field(case, "in"));
    let exp = field(case, "exp");
    let bip = BuiltInPredicate::new("functor".to_string(), Some(ins));
    let got = next_solution_functor(bip, &ss);
    match (got, exp) {
        (None, "no") => Ok(()),
        (None, e) => Err(format!("functor failed, expected {}", e)),
        (Some(_), "no") => Err("functor succeeded, expected failure".into()),
        (Some(r), e) => {
            for part in e.split(';') {
                if part == "yes" { continue; }
                let (v, val) = part.split_once('=').unwrap();
                let id = if v == "A" { 5 } else { 1 };
                let b = resolve(&var(id, "$V"), &r).map(|t| format!("{}", t)).unwrap_or("unbound".into());
                if b != val { return Err(format!("${} is {} but should be {}", v, b, val)); }
            }
            Ok(())
        }
    }
}
