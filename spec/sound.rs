// ---------------------------------------------------------------------------
// spec/sound.rs -- soundness of unification (C06): after a successful unification the two
// terms are identical when resolved.  `req` compares resolved terms to depth n (for all n);
// `$_` matches anything.  Lists and function terms are not constrained by this clause
// (lists: covered by the bounded reference-unifier oracle; functions: C13).
// ---------------------------------------------------------------------------

// f64 "same number": symmetric and reflexive closure of what the code can have tested
pub open spec fn fe(f: f64, g: f64) -> bool {
    f == g || feq(f, g) || feq(g, f)
      || vstd::std_specs::cmp::PartialEqSpec::eq_spec(&f, &g) || vstd::std_specs::cmp::PartialEqSpec::eq_spec(&g, &f)
}

// the resolved head of a term: the end of its variable chain
pub open spec fn rs(s: SS, t: Unifiable) -> Unifiable {
    match t {
        Unifiable::LogicVar{id, name} => {
            let e = chain_end(s, id as int);
            match bnd(s, e) { Some(g) => g, None => Unifiable::LogicVar{id: e as usize, name: name} }
        },
        _ => t,
    }
}

pub open spec fn unconstrained(x: Unifiable) -> bool {
    x is SFunction || x is Nil
}

// the resolved heads x, y are the same, and so are their arguments to depth n
pub open spec fn heads_eq(s: SS, x: Unifiable, y: Unifiable, n: nat) -> bool
    decreases n, 0nat,
{
    if x is Anonymous || y is Anonymous { true }
    else if unconstrained(x) || unconstrained(y) { true }
    else {
        match (x, y) {
            (Unifiable::LogicVar{id: i, name: _}, Unifiable::LogicVar{id: j, name: _}) => i == j,
            (Unifiable::Atom(p), Unifiable::Atom(q)) => p@ == q@,
            (Unifiable::SInteger(p), Unifiable::SInteger(q)) => p == q,
            (Unifiable::SFloat(p), Unifiable::SFloat(q)) => fe(p, q),
            (Unifiable::SComplex(p), Unifiable::SComplex(q)) =>
                p@.len() == q@.len() && (n > 0 ==> forall|k: int| 0 <= k < p@.len() ==> req(s, #[trigger] p@[k], q@[k], (n - 1) as nat)),
            // lists denote sequences with an optional tail: a tail variable stands for the rest of the other list
            (Unifiable::SLinkedList{term: t1, next: n1, count: _, tail_var: tv1},
             Unifiable::SLinkedList{term: t2, next: n2, count: _, tail_var: tv2}) =>
                if tv1 && tv2 { n > 0 ==> req(s, *t1, *t2, (n - 1) as nat) }
                else if tv1 { n > 0 ==> req(s, *t1, y, (n - 1) as nat) }
                else if tv2 { n > 0 ==> req(s, x, *t2, (n - 1) as nat) }
                else if *t1 == Unifiable::Nil && *t2 == Unifiable::Nil { true }
                else if *t1 == Unifiable::Nil || *t2 == Unifiable::Nil { false }
                else { n > 0 ==> req(s, *t1, *t2, (n - 1) as nat) && req(s, *n1, *n2, (n - 1) as nat) },
            _ => false,
        }
    }
}

// a and b are identical when resolved under s, to depth n
pub open spec fn req(s: SS, a: Unifiable, b: Unifiable, n: nat) -> bool
    decreases n, 1nat,
{
    heads_eq(s, rs(s, a), rs(s, b), n)
}

pub open spec fn sound(s: SS, a: Unifiable, b: Unifiable) -> bool { forall|n: nat| req(s, a, b, n) }

// chain ends of usize ids are usize ids
pub proof fn lemma_var_end_range(s: SS, i: int, f: nat)
    requires 0 <= i <= usize::MAX, var_end(s, i, f) is Some,
    ensures 0 <= var_end(s, i, f).unwrap() <= usize::MAX,
    decreases f,
{
    match bnd(s, i) {
        None => {},
        Some(t) => match t {
            Unifiable::LogicVar{id, name} => { if f > 0 { lemma_var_end_range(s, id as int, (f - 1) as nat); } },
            _ => {},
        },
    }
}

pub proof fn lemma_chain_end_range(s: SS, i: int)
    requires 0 <= i <= usize::MAX, acyclic(s),
    ensures 0 <= chain_end(s, i) <= usize::MAX,
{
    lemma_chain_end(s, i);
    let f = choose|f: nat| (#[trigger] var_end(s, i, f)) == Some(chain_end(s, i));
    lemma_var_end_range(s, i, f);
}

// --- chains under extension -------------------------------------------------------
pub proof fn lemma_chain_extends(s2: SS, s1: SS, i: int, f: nat)
    requires extends(s2, s1), acyclic(s2), var_end(s1, i, f) is Some,
    ensures chain_end(s2, i) == chain_end(s2, var_end(s1, i, f).unwrap()),
    decreases f,
{
    match bnd(s1, i) {
        None => {},
        Some(t) => {
            assert(0 <= i < s1.len());
            assert(s2[i] == s1[i]);
            assert(bnd(s2, i) == Some(t));
            match t {
                Unifiable::LogicVar{id, name} => {
                    if f > 0 {
                        lemma_chain_extends(s2, s1, id as int, (f - 1) as nat);
                        lemma_chain_end(s2, i);
                    }
                },
                _ => {},
            }
        },
    }
}

// resolving under the extension = resolving the old resolved head under the extension
pub proof fn lemma_rs_extends(s2: SS, s1: SS, a: Unifiable)
    requires extends(s2, s1), acyclic(s1), acyclic(s2),
    ensures rs(s2, a) == rs(s2, rs(s1, a)),
            !(rs(s1, a) is LogicVar) ==> rs(s2, a) == rs(s1, a),
{
    match a {
        Unifiable::LogicVar{id, name} => {
            let i = id as int;
            lemma_chain_end(s1, i);
            lemma_chain_end_range(s1, i);
            lemma_chain_end_range(s2, i);
            let f = choose|f: nat| (#[trigger] var_end(s1, i, f)) == Some(chain_end(s1, i));
            lemma_chain_extends(s2, s1, i, f);
            let e1 = chain_end(s1, i);
            lemma_end_is_end(s1, i, f);
            match bnd(s1, e1) {
                Some(g) => {
                    assert(0 <= e1 < s1.len());
                    assert(s2[e1] == s1[e1]);
                    assert(bnd(s2, e1) == Some(g));
                    lemma_chain_end(s2, e1);
                    assert(chain_end(s2, e1) == e1);
                    assert(rs(s2, a) == g);
                    // g is not a variable, so rs(s2, g) == g
                },
                None => {
                    // rs(s1, a) is the unbound variable e1
                    assert(rs(s1, a) == Unifiable::LogicVar{id: e1 as usize, name: name});
                    lemma_chain_end(s2, e1);
                },
            }
        },
        _ => {},
    }
}

// --- reflexivity, symmetry, monotonicity of req ---------------------------------------
pub proof fn lemma_heads_refl(s: SS, x: Unifiable, n: nat)
    ensures heads_eq(s, x, x, n),
    decreases n, 0nat,
{
    match x {
        Unifiable::SComplex(p) => {
            if n > 0 {
                assert forall|k: int| 0 <= k < p@.len() implies req(s, #[trigger] p@[k], p@[k], (n - 1) as nat) by {
                    lemma_req_refl(s, p@[k], (n - 1) as nat);
                }
            }
        },
        Unifiable::SLinkedList{term, next, count, tail_var} => {
            if n > 0 {
                lemma_req_refl(s, *term, (n - 1) as nat);
                lemma_req_refl(s, *next, (n - 1) as nat);
                lemma_req_refl(s, x, (n - 1) as nat);
            }
        },
        _ => {},
    }
}

pub proof fn lemma_req_refl(s: SS, a: Unifiable, n: nat)
    ensures req(s, a, a, n),
    decreases n, 1nat,
{
    lemma_heads_refl(s, rs(s, a), n);
}

pub proof fn lemma_heads_sym(s: SS, x: Unifiable, y: Unifiable, n: nat)
    requires heads_eq(s, x, y, n),
    ensures heads_eq(s, y, x, n),
    decreases n, 0nat,
{
    if x is Anonymous || y is Anonymous || unconstrained(x) || unconstrained(y) { }
    else {
        match (x, y) {
            (Unifiable::SComplex(p), Unifiable::SComplex(q)) => {
                if n > 0 {
                    assert forall|k: int| 0 <= k < q@.len() implies req(s, #[trigger] q@[k], p@[k], (n - 1) as nat) by {
                        assert(req(s, p@[k], q@[k], (n - 1) as nat));
                        lemma_req_sym(s, p@[k], q@[k], (n - 1) as nat);
                    }
                }
            },
            (Unifiable::SLinkedList{term: t1, next: n1, count: _, tail_var: tv1},
             Unifiable::SLinkedList{term: t2, next: n2, count: _, tail_var: tv2}) => {
                if n > 0 {
                    if tv1 && tv2 { lemma_req_sym(s, *t1, *t2, (n - 1) as nat); }
                    else if tv1 { lemma_req_sym(s, *t1, y, (n - 1) as nat); }
                    else if tv2 { lemma_req_sym(s, x, *t2, (n - 1) as nat); }
                    else if *t1 == Unifiable::Nil || *t2 == Unifiable::Nil { }
                    else { lemma_req_sym(s, *t1, *t2, (n - 1) as nat); lemma_req_sym(s, *n1, *n2, (n - 1) as nat); }
                }
            },
            _ => {},
        }
    }
}

pub proof fn lemma_req_sym(s: SS, a: Unifiable, b: Unifiable, n: nat)
    requires req(s, a, b, n),
    ensures req(s, b, a, n),
    decreases n, 1nat,
{
    lemma_heads_sym(s, rs(s, a), rs(s, b), n);
}

pub proof fn lemma_sound_sym(s: SS, a: Unifiable, b: Unifiable)
    requires sound(s, a, b),
    ensures sound(s, b, a),
{
    assert forall|n: nat| req(s, b, a, n) by { assert(req(s, a, b, n)); lemma_req_sym(s, a, b, n); }
}

// req is kept when the substitution is extended
pub proof fn lemma_heads_mono(s2: SS, s1: SS, x: Unifiable, y: Unifiable, n: nat)
    requires extends(s2, s1), acyclic(s1), acyclic(s2), heads_eq(s1, x, y, n),
             // x and y are resolved heads under s1: a variable among them is unbound in s1
             x is LogicVar ==> rs(s1, x) == x, y is LogicVar ==> rs(s1, y) == y,
    ensures heads_eq(s2, rs(s2, x), rs(s2, y), n),
    decreases n, 0nat,
{
    if x is Anonymous || y is Anonymous { }
    else if unconstrained(x) || unconstrained(y) { }
    else {
        match (x, y) {
            (Unifiable::LogicVar{id: i, name: n1}, Unifiable::LogicVar{id: j, name: n2}) => {
                // same variable: both sides resolve to the same head under s2 (names may differ, ids agree)
                assert(i == j);
                assert(chain_end(s2, i as int) == chain_end(s2, j as int));
                match bnd(s2, chain_end(s2, i as int)) {
                    Some(g) => { lemma_heads_refl(s2, g, n); },
                    None => {},
                }
            },
            (Unifiable::SComplex(p), Unifiable::SComplex(q)) => {
                if n > 0 {
                    assert forall|k: int| 0 <= k < p@.len() implies req(s2, #[trigger] p@[k], q@[k], (n - 1) as nat) by {
                        assert(req(s1, p@[k], q@[k], (n - 1) as nat));
                        lemma_req_mono(s2, s1, p@[k], q@[k], (n - 1) as nat);
                    }
                }
            },
            (Unifiable::SLinkedList{term: t1, next: n1, count: _, tail_var: tv1},
             Unifiable::SLinkedList{term: t2, next: n2, count: _, tail_var: tv2}) => {
                if n > 0 {
                    if tv1 && tv2 { lemma_req_mono(s2, s1, *t1, *t2, (n - 1) as nat); }
                    else if tv1 { lemma_req_mono(s2, s1, *t1, y, (n - 1) as nat); }
                    else if tv2 { lemma_req_mono(s2, s1, x, *t2, (n - 1) as nat); }
                    else if *t1 == Unifiable::Nil || *t2 == Unifiable::Nil { }
                    else { lemma_req_mono(s2, s1, *t1, *t2, (n - 1) as nat); lemma_req_mono(s2, s1, *n1, *n2, (n - 1) as nat); }
                }
            },
            _ => {},
        }
    }
}

pub proof fn lemma_rs_idem(s: SS, a: Unifiable)
    requires acyclic(s),
    ensures rs(s, a) is LogicVar ==> rs(s, rs(s, a)) == rs(s, a),
{
    match a {
        Unifiable::LogicVar{id, name} => {
            let e = chain_end(s, id as int);
            lemma_chain_end(s, id as int);
            lemma_chain_end_range(s, id as int);
            let f = choose|f: nat| (#[trigger] var_end(s, id as int, f)) == Some(e);
            lemma_end_is_end(s, id as int, f);
            lemma_chain_end(s, e);
        },
        _ => {},
    }
}

pub proof fn lemma_req_mono(s2: SS, s1: SS, a: Unifiable, b: Unifiable, n: nat)
    requires extends(s2, s1), acyclic(s1), acyclic(s2), req(s1, a, b, n),
    ensures req(s2, a, b, n),
    decreases n, 1nat,
{
    lemma_rs_extends(s2, s1, a);
    lemma_rs_extends(s2, s1, b);
    lemma_rs_idem(s1, a);
    lemma_rs_idem(s1, b);
    lemma_heads_mono(s2, s1, rs(s1, a), rs(s1, b), n);
}

pub proof fn lemma_sound_mono(s2: SS, s1: SS, a: Unifiable, b: Unifiable)
    requires extends(s2, s1), acyclic(s1), acyclic(s2), sound(s1, a, b),
    ensures sound(s2, a, b),
{
    assert forall|n: nat| req(s2, a, b, n) by { assert(req(s1, a, b, n)); lemma_req_mono(s2, s1, a, b, n); }
}

// --- facts used at the exits of unify ---------------------------------------------------
pub proof fn lemma_ueq_req(s: SS, a: Unifiable, b: Unifiable, n: nat)
    requires ueq(a, b),
    ensures req(s, a, b, n),
    decreases n, a,
{
    match (a, b) {
        (Unifiable::LogicVar{id: i, name: n1}, Unifiable::LogicVar{id: j, name: n2}) => {
            match bnd(s, chain_end(s, i as int)) { Some(g) => { lemma_heads_refl(s, g, n); }, None => {} }
        },
        (Unifiable::SComplex(p), Unifiable::SComplex(q)) => {
            lemma_ueq_seq_len(p@, q@);
            if n > 0 {
                assert forall|k: int| 0 <= k < p@.len() implies req(s, #[trigger] p@[k], q@[k], (n - 1) as nat) by {
                    lemma_ueq_seq_index(p@, q@, k);
                    lemma_ueq_req(s, p@[k], q@[k], (n - 1) as nat);
                }
            }
        },
        (Unifiable::SLinkedList{term: t1, next: n1, count: _, tail_var: tv1},
         Unifiable::SLinkedList{term: t2, next: n2, count: _, tail_var: tv2}) => {
            assert(tv1 == tv2);
            assert(ueq(*t1, *t2) && ueq(*n1, *n2));
            assert((*t1 == Unifiable::Nil) == (*t2 == Unifiable::Nil));
            if n > 0 {
                lemma_ueq_req(s, *t1, *t2, (n - 1) as nat);
                lemma_ueq_req(s, *n1, *n2, (n - 1) as nat);
            }
        },
        _ => {},
    }
}

pub proof fn lemma_ueq_seq_len(a: Seq<Unifiable>, b: Seq<Unifiable>)
    requires ueq_seq(a, b),
    ensures a.len() == b.len(),
{
}

pub proof fn lemma_ueq_seq_index(a: Seq<Unifiable>, b: Seq<Unifiable>, i: int)
    requires ueq_seq(a, b), 0 <= i < a.len(),
    ensures ueq(a[i], b[i]),
    decreases a.len(),
{
    if i > 0 { lemma_ueq_seq_index(a.drop_first(), b.drop_first(), i - 1); }
}

pub proof fn lemma_ueq_sound(s: SS, a: Unifiable, b: Unifiable)
    ensures ueq(a, b) ==> sound(s, a, b),
{
    if ueq(a, b) { assert forall|n: nat| req(s, a, b, n) by { lemma_ueq_req(s, a, b, n); } }
}

// symmetric, for every substitution (used where unify calls other.unify(self))
pub proof fn lemma_sound_sym_all(a: Unifiable, b: Unifiable)
    ensures forall|r: SS| #[trigger] sound(r, b, a) ==> sound(r, a, b),
{
    assert forall|r: SS| #[trigger] sound(r, b, a) implies sound(r, a, b) by { lemma_sound_sym(r, b, a); }
}

// a bound variable stands for its binding, under every extension of the substitution
pub proof fn lemma_deref_req(r: SS, a: Unifiable, u: Unifiable, b: Unifiable, n: nat)
    requires acyclic(r), a is LogicVar, bnd(r, a->LogicVar_id as int) == Some(u), req(r, u, b, n),
    ensures req(r, a, b, n),
{
    let i = a->LogicVar_id as int;
    lemma_chain_end(r, i);
    match u {
        Unifiable::LogicVar{id, name} => {
            // both chains end at the same variable; the heads differ at most in the (ignored) name
            let e = chain_end(r, i);
            match bnd(r, e) { Some(g) => {}, None => {} }
        },
        _ => {},
    }
}

pub proof fn lemma_deref_sound_all(s: SS, a: Unifiable, u: Unifiable, b: Unifiable)
    requires a is LogicVar, bnd(s, a->LogicVar_id as int) == Some(u),
    ensures forall|r: SS| extends(r, s) && acyclic(r) && #[trigger] sound(r, u, b) ==> sound(r, a, b),
{
    assert forall|r: SS| extends(r, s) && acyclic(r) && #[trigger] sound(r, u, b) implies sound(r, a, b) by {
        let i = a->LogicVar_id as int;
        assert(0 <= i < s.len());
        assert(r[i] == s[i]);
        assert(bnd(r, i) == Some(u));
        assert forall|n: nat| req(r, a, b, n) by { assert(req(r, u, b, n)); lemma_deref_req(r, a, u, b, n); }
    }
}

// binding an unbound variable to t makes the variable and t identical when resolved
pub proof fn lemma_bind_sound(r: SS, s: SS, a: Unifiable, t: Unifiable)
    requires a is LogicVar, is_bind(r, s, a->LogicVar_id as int, t), acyclic(r),
    ensures sound(r, a, t),
{
    assert forall|n: nat| req(r, a, t, n) by {
        lemma_req_refl(r, t, n);
        lemma_deref_req(r, a, t, t, n);
    }
}

// two variables whose chains end at the same unbound variable are identical when resolved
pub proof fn lemma_same_end_sound(s: SS, a: Unifiable, b: Unifiable)
    requires acyclic(s), a is LogicVar, b is LogicVar,
             chain_end(s, a->LogicVar_id as int) == chain_end(s, b->LogicVar_id as int),
    ensures sound(s, a, b),
{
    assert forall|n: nat| req(s, a, b, n) by {
        match bnd(s, chain_end(s, a->LogicVar_id as int)) { Some(g) => { lemma_heads_refl(s, g, n); }, None => {} }
    }
}

// some position of t holds the anonymous variable
pub open spec fn has_anon(t: Unifiable) -> bool
    decreases t,
{
    match t {
        Unifiable::Anonymous => true,
        Unifiable::SComplex(ts) => has_anon_seq(ts@),
        Unifiable::SFunction{name, terms} => has_anon_seq(terms@),
        Unifiable::SLinkedList{term, next, count, tail_var} => has_anon(*term) || has_anon(*next),
        _ => false,
    }
}
pub open spec fn has_anon_seq(s: Seq<Unifiable>) -> bool
    decreases s,
{
    s.len() > 0 && (has_anon(s[0]) || has_anon_seq(s.drop_first()))
}

pub open spec fn post_sound(a: Unifiable, b: Unifiable, res: Option<RSS>) -> bool {
    res matches Some(r) ==> sound(r@, a, b)
}

// --- list nodes ---------------------------------------------------------------------------
pub open spec fn lterm(x: Unifiable) -> Unifiable { *x->SLinkedList_term }
pub open spec fn lnext(x: Unifiable) -> Unifiable { *x->SLinkedList_next }
pub open spec fn ltv(x: Unifiable) -> bool { x->SLinkedList_tail_var }

// what the exits of the list loop establish about the two current nodes x, y, for every substitution r
pub proof fn lemma_list_exits_all(x: Unifiable, y: Unifiable)
    requires x is SLinkedList, y is SLinkedList,
    ensures
        // both are tail-variable nodes: the tails were unified (or one is $_)
        ltv(x) && ltv(y) ==> forall|r: SS| #[trigger] sound(r, lterm(x), lterm(y)) ==> sound(r, x, y),
        // x is a tail-variable node: its variable was unified with the rest of y
        ltv(x) && !ltv(y) ==> forall|r: SS| #[trigger] sound(r, lterm(x), y) ==> sound(r, x, y),
        // y is a tail-variable node: its variable was unified with the rest of x
        !ltv(x) && ltv(y) ==> forall|r: SS| #[trigger] sound(r, lterm(y), x) ==> sound(r, x, y),
        // both lists end here
        !ltv(x) && !ltv(y) && lterm(x) == Unifiable::Nil && lterm(y) == Unifiable::Nil ==> forall|r: SS| #[trigger] sound(r, x, y),
{
    if ltv(x) && ltv(y) {
        assert forall|r: SS| #[trigger] sound(r, lterm(x), lterm(y)) implies sound(r, x, y) by {
            assert forall|n: nat| req(r, x, y, n) by { if n > 0 { assert(req(r, lterm(x), lterm(y), (n - 1) as nat)); } }
        }
    }
    if ltv(x) && !ltv(y) {
        assert forall|r: SS| #[trigger] sound(r, lterm(x), y) implies sound(r, x, y) by {
            assert forall|n: nat| req(r, x, y, n) by { if n > 0 { assert(req(r, lterm(x), y, (n - 1) as nat)); } }
        }
    }
    if !ltv(x) && ltv(y) {
        assert forall|r: SS| #[trigger] sound(r, lterm(y), x) implies sound(r, x, y) by {
            lemma_sound_sym(r, lterm(y), x);
            assert forall|n: nat| req(r, x, y, n) by { if n > 0 { assert(req(r, x, lterm(y), (n - 1) as nat)); } }
        }
    }
    if !ltv(x) && !ltv(y) && lterm(x) == Unifiable::Nil && lterm(y) == Unifiable::Nil {
        assert forall|r: SS| #[trigger] sound(r, x, y) by { assert forall|n: nat| req(r, x, y, n) by { } }
    }
}

// one step of the list loop: the elements and the rests are identical when resolved
pub proof fn lemma_list_step(r: SS, x: Unifiable, y: Unifiable)
    requires x is SLinkedList, y is SLinkedList, !ltv(x), !ltv(y),
             sound(r, lterm(x), lterm(y)), sound(r, lnext(x), lnext(y)),
             lterm(x) != Unifiable::Nil, lterm(y) != Unifiable::Nil,
    ensures sound(r, x, y),
{
    assert forall|n: nat| req(r, x, y, n) by {
        if n > 0 {
            assert(req(r, lterm(x), lterm(y), (n - 1) as nat));
            assert(req(r, lnext(x), lnext(y), (n - 1) as nat));
        }
    }
}
