//! C06 (bounded stand-in for the clauses not under proof): unify against a reference unifier.
//! Success exactly when a unifier extending the prior substitution exists (no occurs check);
//! on success both terms are identical when fully resolved (`$_` is a wildcard) and every
//! variable has the same resolved value as under the reference MGU, up to renaming of unbound variables.
use crate::terms::*;
use crate::o_unify::{ser_ss, de_ss};
use std::collections::HashMap;
use std::rc::Rc;
use suiron::*;
use suiron::Unifiable::*;

type SS = Vec<Option<Rc<Unifiable>>>;
type Env = HashMap<usize, Unifiable>;

fn field<'a>(case: &'a str, key: &str) -> &'a str {
    for p in case.split(';') { if let Some(v) = p.strip_prefix(&format!("{}=", key)) { return v; } }
    ""
}

// ---- reference: terms are normalised to a small tree: lists become cons cells -----------------
#[derive(Clone, Debug, PartialEq)]
enum T { A(String), I(i64), F(u64), V(usize), Any, C(Vec<T>), Cons(Box<T>, Box<T>), Nil }

fn norm(t: &Unifiable) -> T {
    match t {
        Atom(s) => T::A(s.clone()), SInteger(i) => T::I(*i), SFloat(f) => T::F(f.to_bits()),
        LogicVar { id, .. } => T::V(*id), Anonymous => T::Any,
        SComplex(ts) => T::C(ts.iter().map(norm).collect()),
        SLinkedList { term, next, tail_var, .. } => {
            if **term == Unifiable::Nil { T::Nil }
            else if *tail_var { norm(term) }
            else { T::Cons(Box::new(norm(term)), Box::new(norm(next))) }
        }
        Unifiable::Nil => T::Nil,
        SFunction { .. } => T::A("<function>".into()),
    }
}
fn walk(t: &T, env: &HashMap<usize, T>) -> T {
    let mut t = t.clone();
    for _ in 0..200 { if let T::V(i) = &t { if let Some(b) = env.get(i) { t = b.clone(); continue; } } break; }
    t
}
fn occurs(v: usize, t: &T, env: &HashMap<usize, T>) -> bool {
    match walk(t, env) { T::V(i) => i == v, T::C(ts) => ts.iter().any(|x| occurs(v, x, env)), T::Cons(a, b) => occurs(v, &a, env) || occurs(v, &b, env), _ => false }
}
/// Err(()) = needs an occurs check (outside the claim)
fn ref_unify(a: &T, b: &T, env: &mut HashMap<usize, T>) -> Result<bool, ()> {
    let a = walk(a, env); let b = walk(b, env);
    match (&a, &b) {
        (T::Any, _) | (_, T::Any) => Ok(true),
        (T::V(x), T::V(y)) if x == y => Ok(true),
        (T::V(x), _) => { if occurs(*x, &b, env) { return Err(()); } env.insert(*x, b.clone()); Ok(true) }
        (_, T::V(y)) => { if occurs(*y, &a, env) { return Err(()); } env.insert(*y, a.clone()); Ok(true) }
        (T::C(x), T::C(y)) => { if x.len() != y.len() { return Ok(false); } for (p, q) in x.iter().zip(y.iter()) { if !ref_unify(p, q, env)? { return Ok(false); } } Ok(true) }
        (T::Cons(h1, t1), T::Cons(h2, t2)) => { if !ref_unify(h1, h2, env)? { return Ok(false); } ref_unify(t1, t2, env) }
        _ => Ok(a == b),
    }
}
fn resolve(t: &T, env: &HashMap<usize, T>, depth: usize) -> T {
    if depth > 30 { return T::A("<deep>".into()); }
    match walk(t, env) {
        T::C(ts) => T::C(ts.iter().map(|x| resolve(x, env, depth + 1)).collect()),
        T::Cons(a, b) => T::Cons(Box::new(resolve(&a, env, depth + 1)), Box::new(resolve(&b, env, depth + 1))),
        x => x,
    }
}
fn env_of(ss: &SS) -> HashMap<usize, T> {
    let mut e = HashMap::new();
    for (i, b) in ss.iter().enumerate() { if let Some(t) = b { e.insert(i, norm(t)); } }
    e
}
/// equal up to a consistent renaming of unbound variables; `$_` matches anything
fn same_up_to_renaming(a: &T, b: &T, m: &mut HashMap<usize, usize>, back: &mut HashMap<usize, usize>) -> bool {
    match (a, b) {
        (T::Any, _) | (_, T::Any) => true,
        (T::V(x), T::V(y)) => { let ok1 = *m.entry(*x).or_insert(*y) == *y; let ok2 = *back.entry(*y).or_insert(*x) == *x; ok1 && ok2 }
        (T::C(x), T::C(y)) => x.len() == y.len() && x.iter().zip(y.iter()).all(|(p, q)| same_up_to_renaming(p, q, m, back)),
        (T::Cons(h1, t1), T::Cons(h2, t2)) => same_up_to_renaming(h1, h2, m, back) && same_up_to_renaming(t1, t2, m, back),
        _ => a == b,
    }
}

pub fn enum_mgu(seed: u64) -> Vec<String> {
    let ts = vec![atom("a"), atom("b"), SInteger(1), SFloat(0.5), SFloat(1.0), var(1, "$X"), var(2, "$Y"), var(3, "$Z"), Anonymous,
        SComplex(vec![atom("f"), var(1, "$X")]), SComplex(vec![atom("f"), atom("a")]), SComplex(vec![atom("f"), var(2, "$Y"), var(1, "$X")]),
        SComplex(vec![atom("f"), atom("a"), var(3, "$Z")]), SComplex(vec![atom("g"), SComplex(vec![atom("f"), var(1, "$X")]), var(2, "$Y")]),
        empty(), mk_list(&[atom("a")], None), mk_list(&[var(1, "$X"), atom("b")], None), mk_list(&[atom("a"), atom("b")], None),
        mk_list(&[atom("a")], Some(var(2, "$Y"))), mk_list(&[var(3, "$Z")], Some(var(2, "$Y"))), mk_list(&[atom("a"), atom("b"), atom("c")], None),
        mk_list(&[var(1, "$X")], Some(Anonymous)), mk_list(&[mk_list(&[atom("a")], None), var(1, "$X")], None)];
    let mk = |pairs: &[(usize, Unifiable)]| { let mut ss: SS = vec![]; for (i, t) in pairs { while ss.len() <= *i { ss.push(None); } ss[*i] = Some(Rc::new(t.clone())); } ss };
    let priors: Vec<SS> = vec![vec![], mk(&[(1, atom("a"))]), mk(&[(2, var(1, "$X"))]), mk(&[(1, var(3, "$Z"))]), mk(&[(2, mk_list(&[atom("b")], None))]),
        mk(&[(2, var(3, "$Z")), (3, mk_list(&[atom("b"), atom("c")], None))]), mk(&[(1, SComplex(vec![atom("f"), atom("a")]))])];
    let mut out = vec![];
    let mut rng = Rng(seed.wrapping_mul(0x9E3779B97F4A7C15) | 1);
    for ss in &priors { for a in &ts { for b in &ts {
        if ss.is_empty() || rng.below(3) == 0 { out.push(format!("ss={};a={};b={}", ser_ss(ss), ser(a), ser(b))); }
    } } }
    // seeded random pairs over five variables with random (cycle-free) prior bindings
    for _ in 0..400 {
        let ss = rand_ss(&mut rng, 5, false);
        let a = rand_term(&mut rng, 2, 5, true);
        let b = if rng.below(4) == 0 { a.clone() } else { rand_term(&mut rng, 2, 5, true) };
        out.push(format!("ss={};a={};b={}", ser_ss(&ss), ser(&a), ser(&b)));
    }
    out
}

/// the cases of enum_mgu in which `$_` occurs in one of the two terms (C09: success with `$_` still equalises the rest)
pub fn enum_mgu_anon(seed: u64) -> Vec<String> {
    let mut out = vec![];
    for s in 0..3u64 {
        for c in enum_mgu(seed.wrapping_add(s * 7919)) {
            let a = field(&c, "a"); let b = field(&c, "b");
            if (a.contains('_') || b.contains('_')) && !out.contains(&c) { out.push(c); }
        }
    }
    out
}

pub fn check_mgu(case: &str) -> Result<(), String> {
    let ss = Rc::new(de_ss(field(case, "ss")));
    let a = de(field(case, "a"));
    let b = de(field(case, "b"));
    let mut env = env_of(&ss);
    let expected = match ref_unify(&norm(&a), &norm(&b), &mut env) { Ok(x) => x, Err(()) => { crate::skip(); return Ok(()); } };
    let got = a.unify(&b, &ss);
    match (&got, expected) {
        (None, false) => Ok(()),
        (None, true) => Err("unification failed although a unifier extending the prior substitution exists".into()),
        (Some(_), false) => Err("unification succeeded although the terms have no unifier".into()),
        (Some(r), true) => {
            let genv = env_of(r);
            let ra = resolve(&norm(&a), &genv, 0);
            let rb = resolve(&norm(&b), &genv, 0);
            let (mut m, mut bk) = (HashMap::new(), HashMap::new());
            if !same_up_to_renaming(&ra, &rb, &mut HashMap::new(), &mut HashMap::new()) || ra != rb && !same_up_to_renaming(&ra, &rb, &mut m, &mut bk) {
                return Err(format!("the terms are not identical when resolved: {:?} vs {:?}", ra, rb));
            }
            // every variable has the value the reference MGU gives it, up to renaming of unbound variables
            let (mut m, mut bk) = (HashMap::new(), HashMap::new());
            for v in 1..6 {
                let x = resolve(&T::V(v), &genv, 0);
                let y = resolve(&T::V(v), &env, 0);
                if !same_up_to_renaming(&x, &y, &mut m, &mut bk) { return Err(format!("variable {} resolves to {:?}; a most general unifier gives {:?} (no renaming of unbound variables consistent with the variables before it makes them equal)", v, x, y)); }
            }
            Ok(())
        }
    }
}

/// C07: unifying A with B and B with A - same outcome, and every variable gets the same resolved value
/// up to a consistent renaming of unbound variables.  Occurs-check pairs are skipped.
pub fn enum_sym(seed: u64) -> Vec<String> {
    let mut out = vec![];
    for s in 0..2u64 { for c in enum_mgu(seed.wrapping_add(s * 104729)) { if !out.contains(&c) { out.push(c); } } }
    out
}
pub fn check_sym(case: &str) -> Result<(), String> {
    let ss = Rc::new(de_ss(field(case, "ss")));
    let a = de(field(case, "a"));
    let b = de(field(case, "b"));
    let mut env = env_of(&ss);
    if ref_unify(&norm(&a), &norm(&b), &mut env).is_err() { crate::skip(); return Ok(()); }
    let r1 = a.unify(&b, &ss);
    let r2 = b.unify(&a, &ss);
    match (&r1, &r2) {
        (None, None) => Ok(()),
        (Some(_), None) => Err("A = B succeeds but B = A fails".into()),
        (None, Some(_)) => Err("A = B fails but B = A succeeds".into()),
        (Some(x), Some(y)) => {
            let (e1, e2) = (env_of(x), env_of(y));
            let (mut m, mut bk) = (HashMap::new(), HashMap::new());
            for v in 1..6 {
                let p = resolve(&T::V(v), &e1, 0);
                let q = resolve(&T::V(v), &e2, 0);
                if !same_up_to_renaming(&p, &q, &mut m, &mut bk) {
                    return Err(format!("variable {} resolves to {:?} after A = B but to {:?} after B = A (no renaming of unbound variables consistent with the variables before it makes them equal)", v, p, q));
                }
            }
            Ok(())
        }
    }
}

/// C08 (resolving an answer): replace_variables on bindings that need no occurs check returns the fully
/// resolved term.  Bindings whose resolution does not end (cyclic through a structure) are skipped.
pub fn enum_resolve(seed: u64) -> Vec<String> {
    let mut out = vec![];
    for c in enum_mgu(seed) {
        let c2 = format!("ss={};a={}", field(&c, "ss"), field(&c, "a"));
        if !out.contains(&c2) { out.push(c2); }
    }
    // chains and nested bindings
    let mk = |pairs: &[(usize, Unifiable)]| { let mut ss: SS = vec![]; for (i, t) in pairs { while ss.len() <= *i { ss.push(None); } ss[*i] = Some(Rc::new(t.clone())); } ss };
    let deep = mk(&[(1, var(2, "$Y")), (2, var(3, "$Z")), (3, SComplex(vec![atom("f"), var(4, "$W"), mk_list(&[var(5, "$V")], Some(var(6, "$T")))])),
                    (4, SFloat(0.5)), (5, empty()), (6, mk_list(&[atom("b")], None))]);
    for t in [var(1, "$X"), SComplex(vec![atom("g"), var(1, "$X"), var(2, "$Y")]), mk_list(&[var(3, "$Z"), var(7, "$U")], Some(var(6, "$T")))] {
        out.push(format!("ss={};a={}", ser_ss(&deep), ser(&t)));
    }
    out
}
fn has_deep(t: &T) -> bool {
    match t { T::A(s) => s == "<deep>", T::C(ts) => ts.iter().any(has_deep), T::Cons(a, b) => has_deep(a) || has_deep(b), _ => false }
}
pub fn check_resolve(case: &str) -> Result<(), String> {
    let ss = de_ss(field(case, "ss"));
    let a = de(field(case, "a"));
    let env = env_of(&ss);
    let expected = resolve(&norm(&a), &env, 0);
    if has_deep(&expected) { crate::skip(); return Ok(()); }
    for i in 0..ss.len() { if has_deep(&resolve(&T::V(i), &env, 0)) { crate::skip(); return Ok(()); } }
    let got = a.replace_variables(&ss);
    let g = norm(&got);
    if g != expected { return Err(format!("replace_variables gave {:?} but the resolved term is {:?}", g, expected)); }
    Ok(())
}
