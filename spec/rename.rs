// ---------------------------------------------------------------------------
// spec/rename.rs -- renaming apart (C10): same shape, consistent ids
// ---------------------------------------------------------------------------

pub type VM = Map<String, usize>;

// TRUSTED(T2): String keys hash and compare consistently with spec equality (vstd lacks this axiom for String)
pub axiom fn axiom_string_key_model()
    ensures vstd::std_specs::hash::obeys_key_model::<String>();

// equal up to variable ids
pub open spec fn same_shape(a: Unifiable, b: Unifiable) -> bool
    decreases a,
{
    match (a, b) {
        (Unifiable::Nil, Unifiable::Nil) => true,
        (Unifiable::Anonymous, Unifiable::Anonymous) => true,
        (Unifiable::Atom(s1), Unifiable::Atom(s2)) => s1@ == s2@,
        (Unifiable::SFloat(f1), Unifiable::SFloat(f2)) => f1 == f2,
        (Unifiable::SInteger(i1), Unifiable::SInteger(i2)) => i1 == i2,
        (Unifiable::LogicVar{id: id1, name: n1}, Unifiable::LogicVar{id: id2, name: n2}) => n1@ == n2@,
        (Unifiable::SComplex(t1), Unifiable::SComplex(t2)) => same_shape_seq(t1@, t2@),
        (Unifiable::SLinkedList{term: t1, next: n1, count: c1, tail_var: tv1},
         Unifiable::SLinkedList{term: t2, next: n2, count: c2, tail_var: tv2}) =>
            same_shape(*t1, *t2) && same_shape(*n1, *n2) && c1 == c2 && tv1 == tv2,
        (Unifiable::SFunction{name: f1, terms: t1}, Unifiable::SFunction{name: f2, terms: t2}) =>
            f1@ == f2@ && same_shape_seq(t1@, t2@),
        _ => false,
    }
}

pub open spec fn same_shape_seq(a: Seq<Unifiable>, b: Seq<Unifiable>) -> bool
    decreases a,
{
    a.len() == b.len() && (a.len() == 0 || (same_shape(a[0], b[0]) && same_shape_seq(a.drop_first(), b.drop_first())))
}

// every variable of t carries the id the map records for its name
pub open spec fn vars_in(t: Unifiable, m: VM) -> bool
    decreases t,
{
    match t {
        Unifiable::LogicVar{id, name} => m.contains_key(name) && m[name] == id,
        Unifiable::SComplex(ts) => vars_in_seq(ts@, m),
        Unifiable::SLinkedList{term, next, count, tail_var} => vars_in(*term, m) && vars_in(*next, m),
        Unifiable::SFunction{name, terms} => vars_in_seq(terms@, m),
        _ => true,
    }
}

pub open spec fn vars_in_seq(s: Seq<Unifiable>, m: VM) -> bool
    decreases s,
{
    s.len() == 0 || (vars_in(s[0], m) && vars_in_seq(s.drop_first(), m))
}

// the map only grows: no name is re-numbered
pub open spec fn map_grows(m0: VM, m1: VM) -> bool {
    forall|k: String| #[trigger] m0.contains_key(k) ==> m1.contains_key(k) && m1[k] == m0[k]
}

// ids in the map are usable variable ids
pub open spec fn map_ok(m: VM) -> bool {
    forall|k: String| #[trigger] m.contains_key(k) ==> 0 < m[k] < usize::MAX
}

pub proof fn lemma_vars_in_mono(t: Unifiable, m0: VM, m1: VM)
    requires vars_in(t, m0), map_grows(m0, m1),
    ensures vars_in(t, m1),
    decreases t,
{
    match t {
        Unifiable::SComplex(ts) => { lemma_vars_in_seq_mono(ts@, m0, m1); },
        Unifiable::SLinkedList{term, next, count, tail_var} => {
            lemma_vars_in_mono(*term, m0, m1);
            lemma_vars_in_mono(*next, m0, m1);
        },
        Unifiable::SFunction{name, terms} => { lemma_vars_in_seq_mono(terms@, m0, m1); },
        _ => {},
    }
}

pub proof fn lemma_vars_in_seq_mono(s: Seq<Unifiable>, m0: VM, m1: VM)
    requires vars_in_seq(s, m0), map_grows(m0, m1),
    ensures vars_in_seq(s, m1),
    decreases s,
{
    if s.len() > 0 {
        lemma_vars_in_mono(s[0], m0, m1);
        lemma_vars_in_seq_mono(s.drop_first(), m0, m1);
    }
}

// pointwise view of the *_seq predicates
pub proof fn lemma_same_shape_seq_index(a: Seq<Unifiable>, b: Seq<Unifiable>, i: int)
    requires same_shape_seq(a, b), 0 <= i < a.len(),
    ensures same_shape(a[i], b[i]), a.len() == b.len(),
    decreases a.len(),
{
    if i > 0 { lemma_same_shape_seq_index(a.drop_first(), b.drop_first(), i - 1); }
}

pub proof fn lemma_same_shape_seq_from_pointwise(a: Seq<Unifiable>, b: Seq<Unifiable>)
    requires a.len() == b.len(), forall|i: int| 0 <= i < a.len() ==> same_shape(#[trigger] a[i], b[i]),
    ensures same_shape_seq(a, b),
    decreases a.len(),
{
    if a.len() > 0 {
        assert forall|i: int| 0 <= i < a.drop_first().len() implies same_shape(#[trigger] a.drop_first()[i], b.drop_first()[i]) by {
            assert(a.drop_first()[i] == a[i + 1]);
            assert(b.drop_first()[i] == b[i + 1]);
        }
        lemma_same_shape_seq_from_pointwise(a.drop_first(), b.drop_first());
    }
}

pub proof fn lemma_seq_from_pointwise(s: Seq<Unifiable>, m: VM)
    requires forall|i: int| 0 <= i < s.len() ==> vars_in(#[trigger] s[i], m) && nz(s[i]) && wf(s[i]),
    ensures vars_in_seq(s, m), nz_seq(s), wf_seq(s),
    decreases s.len(),
{
    if s.len() > 0 {
        assert forall|i: int| 0 <= i < s.drop_first().len() implies
            vars_in(#[trigger] s.drop_first()[i], m) && nz(s.drop_first()[i]) && wf(s.drop_first()[i]) by {
            assert(s.drop_first()[i] == s[i + 1]);
        }
        lemma_seq_from_pointwise(s.drop_first(), m);
    }
}
