// ---------------------------------------------------------------------------
// spec/timer.rs -- opaque stand-in for the foreign type thread_timer::ThreadTimer (unit solutions)
// ---------------------------------------------------------------------------
// solve() and solve_all() receive a timer from start_query_timer() and hand it to cancel_timer(); they never look inside.
#[verifier::external_body]
pub struct ThreadTimer { _p: () }
