#!/usr/bin/env python3
"""selftest.py [name-substring] -- applies each deliberate change of selftest/cases.json to a scratch copy of /repo
(outside /repo and /verif), runs the registered check with --repo, and compares the exit status with the expected
one (1 for property-breaking changes, 0 for harmless edits).  Run by hand before a contract is trusted; not a registered check."""
import sys, os, json, subprocess, shutil, hashlib, glob
VERIF = os.path.dirname(os.path.dirname(os.path.abspath(__file__)))
cases = json.load(open(os.path.join(VERIF, 'selftest', 'cases.json')))
flt = sys.argv[1] if len(sys.argv) > 1 else ''
bad = 0
for c in cases:
    if flt not in c['name']:
        continue
    d = '/tmp/selftest_wt'
    shutil.rmtree(d, ignore_errors=True)
    os.makedirs(d)
    subprocess.run('cp -r /repo/src /repo/Cargo.toml /repo/Cargo.lock /repo/build.rs /repo/tests /repo/benches %s/ 2>/dev/null' % d, shell=True)
    p = os.path.join(d, 'src', c['file'])
    s = open(p).read()
    if c['old'] not in s:
        print('%-45s SKIP (pattern not found - the code has moved on)' % c['name'])
        continue
    open(p, 'w').write(s.replace(c['old'], c['new'], 1))
    for prop in c['props']:
        r = subprocess.run([os.path.join(VERIF, 'bin', 'check'), prop, 'quick', '--repo', d, '--no-evidence'], capture_output=True, text=True)
        ok = (r.returncode == c['expect'])
        bad += 0 if ok else 1
        first = [l for l in r.stdout.split('\n') if l.startswith(('failed obligation', 'OK', 'UNDECIDED'))][:1]
        print('%-45s %s exit=%d expected=%d %s   %s' % (c['name'], prop, r.returncode, c['expect'], 'ok' if ok else 'MISMATCH', first[0][:110] if first else ''))
    shutil.rmtree(d, ignore_errors=True)
    h = hashlib.sha1(os.path.abspath(d).encode()).hexdigest()[:8]
    for q in glob.glob(os.path.join(VERIF, 'build', '*_' + h)):
        shutil.rmtree(q, ignore_errors=True)
sys.exit(1 if bad else 0)
