//! C10: renaming apart changes only variables, consistently.
use crate::terms::*;
use std::collections::HashMap;
use suiron::*;
use suiron::Unifiable::*;

fn strip_ids(t: &Unifiable) -> Unifiable {
    match t {
        LogicVar { name, .. } => LogicVar { id: 0, name: name.clone() },
        SComplex(ts) => SComplex(ts.iter().map(strip_ids).collect()),
        SLinkedList { term, next, count, tail_var } => node(strip_ids(term), strip_ids(next), *count, *tail_var),
        SFunction { name, terms } => SFunction { name: name.clone(), terms: terms.iter().map(strip_ids).collect() },
        x => x.clone(),
    }
}
fn collect_vars(t: &Unifiable, out: &mut Vec<(String, usize)>) {
    match t {
        LogicVar { id, name } => out.push((name.clone(), *id)),
        SComplex(ts) => for x in ts { collect_vars(x, out) },
        SLinkedList { term, next, .. } => { collect_vars(term, out); collect_vars(next, out); }
        SFunction { terms, .. } => for x in terms { collect_vars(x, out) },
        _ => {}
    }
}

pub fn enum_rename(_s: u64) -> Vec<String> {
    let v0 = |n: &str| var(0, n);
    let terms = vec![
        empty(),
        mk_list(&[atom("a"), empty()], None),
        mk_list(&[empty()], None),
        mk_list(&[v0("$X"), atom("a"), v0("$X")], None),
        mk_list(&[atom("a"), mk_list(&[v0("$Y")], None)], None),
        mk_list(&[atom("a")], Some(v0("$T"))),
        mk_list(&[atom("a")], Some(Anonymous)),                         // [a | $_]
        mk_list(&[v0("$H"), Anonymous], Some(Anonymous)),               // [$H, $_ | $_]
        mk_list(&[mk_list(&[atom("b")], Some(v0("$T")))], Some(v0("$T"))),
        SComplex(vec![atom("f"), v0("$X"), v0("$Y"), v0("$X"), SFloat(1.5), SInteger(-3), Anonymous]),
        SComplex(vec![atom("f"), empty(), mk_list(&[v0("$X")], Some(v0("$Y")))]),
        SFunction { name: "add".into(), terms: vec![v0("$X"), SInteger(1), v0("$X")] },
        atom("a"), v0("$X"), Anonymous,
        // clauses that were renamed before (non-zero ids): renamed again in the middle of a search
        var(3, "$X"),
        SComplex(vec![atom("f"), var(1, "$X"), var(2, "$Y"), var(1, "$X")]),
        mk_list(&[var(4, "$H")], Some(var(5, "$T"))),
        SFunction { name: "add".into(), terms: vec![var(2, "$X"), SInteger(1)] },
    ];
    let mut out: Vec<String> = terms.iter().map(|t| format!("{}", ser(t))).collect();
    // seeded random terms (nested lists, tails, `$_`, repeated variable names)
    let mut rng = Rng(_s.wrapping_mul(0x9E3779B97F4A7C15) | 1);
    for _ in 0..150 { out.push(ser(&rand_term(&mut rng, 3, 4, true))); }
    out
}

pub fn check_rename(case: &str) -> Result<(), String> {
    let t = de(case);
    set_var_id(10);
    let entry = get_var_id();
    let mut m: VarMap = HashMap::new();
    let r = t.clone().recreate_variables(&mut m);
    if strip_ids(&r) != strip_ids(&t) { return Err(format!("shape changed: {} -> {}", ser(&t), ser(&r))); }
    let mut vs = vec![];
    collect_vars(&r, &mut vs);
    let mut seen: HashMap<String, usize> = HashMap::new();
    for (n, id) in &vs {
        if *id == 0 || *id <= entry { return Err(format!("variable {} got id {} which is not fresh", n, id)); }
        if let Some(old) = seen.get(n) { if old != id { return Err(format!("name {} got two ids", n)); } }
        seen.insert(n.clone(), *id);
    }
    let mut ids: Vec<usize> = seen.values().cloned().collect();
    ids.sort(); ids.dedup();
    if ids.len() != seen.len() { return Err("two names share an id".into()); }
    // renaming again gives fresh ids again
    let mut m2: VarMap = HashMap::new();
    let r2 = t.clone().recreate_variables(&mut m2);
    let mut vs2 = vec![];
    collect_vars(&r2, &mut vs2);
    for (_, id2) in &vs2 { if ids.contains(id2) { return Err("second renaming reused an id".into()); } }
    // renaming the renamed term (a clause used again later in the search)
    let mut m3: VarMap = HashMap::new();
    let r3 = r.clone().recreate_variables(&mut m3);
    if strip_ids(&r3) != strip_ids(&t) { return Err(format!("shape changed on re-renaming: {} -> {}", ser(&r), ser(&r3))); }
    let mut vs3 = vec![];
    collect_vars(&r3, &mut vs3);
    for (n, id3) in &vs3 { if ids.contains(id3) { return Err(format!("re-renaming kept id {} of {}", id3, n)); } }
    if let SLinkedList{..} = r { if !wf_list(&r) { return Err(format!("renamed list is not well formed: {}", ser(&r))); } }
    Ok(())
}

// ---- whole clauses: get_rule and make_query ---------------------------------------------------
/// `$Name_id` tokens of a displayed clause, and the text with the ids removed
fn scan_vars(text: &str) -> (String, Vec<(String, usize)>) {
    let cs: Vec<char> = text.chars().collect();
    let mut out = String::new();
    let mut vars = vec![];
    let mut i = 0;
    while i < cs.len() {
        if cs[i] == '$' {
            let mut j = i + 1;
            while j < cs.len() && (cs[j].is_alphanumeric() || cs[j] == '_') { j += 1; }
            let tok: String = cs[i..j].iter().collect();
            if let Some(p) = tok.rfind('_') {
                if p > 0 && p + 1 < tok.len() && tok[p + 1..].chars().all(|c| c.is_ascii_digit()) {
                    vars.push((tok[..p].to_string(), tok[p + 1..].parse().unwrap()));
                    out += &tok[..p];
                    i = j; continue;
                }
            }
            if tok != "$_" && tok.len() > 1 { vars.push((tok.clone(), 0)); }
            out += &tok; i = j; continue;
        }
        out.push(cs[i]); i += 1;
    }
    (out, vars)
}

pub fn enum_clause(_s: u64) -> Vec<String> {
    let rules = ["f($X, $Y) :- g($X), h($Y, $X, [a, $X | $T]).", "p([], [$H | $T], $H).", "q($A) :- $A = [$B, []], not(r($B)), $C = add($B, 1), print($C, $A).",
        "s($X) :- t($X, $Y); u($Y, $Z), !, $Z > $X.", "w($_, $X, $X).", "n(a, 1, 2.5).",
        // every kind of built-in goal shares the clause's variables: filter patterns, functor, count, append, comparison, print_list
        "parents_of($C, $Ps) :- family($F), include(parent($_, $C), $F, $Ps), exclude(parent($C, $_), $F, $R), count($R, $N), $N >= 0.",
        "v($X, $L) :- functor($X, $F, $N), append($F, [$N | $L], $X, $Out), print_list($Out), nl, time(not(v($Out, $L)))."];
    let queries = ["f($X, $Y, $X)", "g([$A, $B | $A], [], $C)", "h(a)", "k($X, add($X, $Y), [$Y])"];
    let mut out: Vec<String> = rules.iter().map(|r| format!("rule\u{1}{}", r)).collect();
    out.extend(queries.iter().map(|q| format!("query\u{1}{}", q)));
    out
}

fn check_vars(vars: &[(String, usize)], floor: usize, what: &str) -> Result<Vec<usize>, String> {
    let mut seen: HashMap<String, usize> = HashMap::new();
    for (n, id) in vars {
        if *id == 0 || *id <= floor { return Err(format!("{}: variable {} got id {} which is not fresh (counter was {})", what, n, id, floor)); }
        if let Some(old) = seen.get(n) { if old != id { return Err(format!("{}: name {} got two ids ({} and {})", what, n, old, id)); } }
        seen.insert(n.clone(), *id);
    }
    let mut ids: Vec<usize> = seen.values().cloned().collect();
    ids.sort(); ids.dedup();
    if ids.len() != seen.len() { return Err(format!("{}: two names share an id", what)); }
    Ok(ids)
}

pub fn check_clause(case: &str) -> Result<(), String> {
    let (kind, text) = case.split_once('\u{1}').ok_or("bad case")?;
    if kind == "rule" {
        let rule = parse_rule(text).map_err(|e| format!("setup: {}", e))?;
        let key = rule.key();
        let stored = format!("{}", rule);
        let mut kb = KnowledgeBase::new();
        add_rules(&mut kb, vec![rule]);
        set_var_id(20);
        let r1 = format!("{}", get_rule(&kb, &key, 0));
        let mid = get_var_id();
        let r2 = format!("{}", get_rule(&kb, &key, 0));
        let (s0, _) = scan_vars(&stored);
        let (s1, v1) = scan_vars(&r1);
        let (s2, v2) = scan_vars(&r2);
        if s1 != s0 || s2 != s0 { return Err(format!("get_rule changed more than variables: {} -> {} / {}", s0, s1, s2)); }
        let ids1 = check_vars(&v1, 20, "first use")?;
        let ids2 = check_vars(&v2, mid, "second use")?;
        if ids2.iter().any(|i| ids1.contains(i)) { return Err("second use of the clause reused an id of the first".into()); }
        let (s3, _) = scan_vars(&format!("{}", get_rule(&kb, &key, 0)));
        if s3 != s0 { return Err("third use changed the clause".into()); }
        Ok(())
    } else {
        let c = parse_complex(text).map_err(|e| format!("setup: {}", e))?;
        let terms = match &c { SComplex(ts) => ts.clone(), _ => return Err("setup".into()) };
        let before = format!("{}", c);
        let g = make_query(terms);
        let (s0, _) = scan_vars(&before);
        let (s1, v1) = scan_vars(&format!("{}", g));
        if s1 != s0 { return Err(format!("make_query changed more than variables: {} -> {}", s0, s1)); }
        check_vars(&v1, 0, "query")?;
        Ok(())
    }
}
