//! A reference interpreter: depth-first, left-to-right, clause-order resolution with cut, written from the textbook
//! semantics (continuation passing; a cut that is backtracked into fails the clause it stands in) with the one documented
//! difference of this engine, which the property C02 adopts: once a cut has run in a clause, the call yields no answer beyond the
//! one being derived (the goals to the right of the cut are backtracked into only until that answer is found).  It uses the crate's
//! parser, clause renaming (get_rule) and unification - which have their own properties - but none of its search code
//! (solution nodes, next_solution*).  Used by c02_cut to compare answer sequences of programs with cuts.
use suiron::*;
use std::rc::Rc;
use std::cell::Cell;

#[derive(PartialEq, Clone, Copy, Debug)]
pub enum Flow { Next, CutFail(usize), Halt }

pub struct Ctx<'a> { pub kb: &'a KnowledgeBase, pub steps: Cell<usize>, pub limit: usize, pub levels: Cell<usize>, pub cut_ran: std::cell::RefCell<std::collections::HashSet<usize>>, pub cyclic: Cell<bool> }

type SS<'a> = Rc<SubstitutionSet<'a>>;

/// does some variable reach itself through its binding (a program that would need the occurs check)?  Such programs are
/// outside every claim (C08) and would send the engine's printing into unbounded recursion.
pub fn cyclic(ss: &SubstitutionSet) -> bool {
    fn vars_of(t: &Unifiable, out: &mut Vec<usize>) {
        match t {
            Unifiable::LogicVar { id, .. } => out.push(*id),
            Unifiable::SComplex(ts) => for x in ts { vars_of(x, out) },
            Unifiable::SFunction { terms, .. } => for x in terms { vars_of(x, out) },
            Unifiable::SLinkedList { term, next, .. } => { vars_of(term, out); vars_of(next, out); },
            _ => {},
        }
    }
    // colour: 0 unseen, 1 on the stack, 2 done
    fn visit(i: usize, ss: &SubstitutionSet, colour: &mut Vec<u8>) -> bool {
        if i >= ss.len() { return false; }
        if colour[i] == 1 { return true; }
        if colour[i] == 2 { return false; }
        colour[i] = 1;
        if let Some(t) = &ss[i] {
            let mut vs = vec![];
            vars_of(t, &mut vs);
            for v in vs { if visit(v, ss, colour) { return true; } }
        }
        colour[i] = 2;
        false
    }
    let mut colour = vec![0u8; ss.len()];
    for i in 0..ss.len() { if visit(i, ss, &mut colour) { return true; } }
    false
}

/// Would unifying `a` with `b` under `ss` need the occurs check?  The engine's unification has none (as usual for Prolog), and a
/// unification that binds a variable to a term containing it can recurse without end INSIDE `unify`, before any result exists
/// that `cyclic` could look at (found by a seed sweep: `$W = [$Z, $Y], append([$W, $Z], [$X], $W)`).  Such pairs are outside
/// every claim (C06, C08), so the generator must skip the program before the engine sees it.  This is a plain Robinson
/// unification with occurs check over an overlay of bindings, conservative on purpose: a clash does not stop it (the engine may
/// visit the pairs in another order), function terms count as closed values, and running out of fuel counts as "needs it".
pub fn needs_occurs_check(a: &Unifiable, b: &Unifiable, ss: &SubstitutionSet) -> bool {
    let mut ov: std::collections::HashMap<usize, Unifiable> = std::collections::HashMap::new();
    let mut fuel: usize = 20000;
    oc_unify(a, b, ss, &mut ov, &mut fuel).is_err()
}

type Ov = std::collections::HashMap<usize, Unifiable>;

fn oc_walk(t: &Unifiable, ss: &SubstitutionSet, ov: &Ov, fuel: &mut usize) -> Result<Unifiable, ()> {
    let mut cur = t.clone();
    loop {
        if *fuel == 0 { return Err(()); }
        *fuel -= 1;
        let next = match &cur {
            Unifiable::LogicVar { id, .. } => {
                if let Some(x) = ov.get(id) { Some(x.clone()) }
                else if *id < ss.len() { match &ss[*id] { Some(x) => Some((**x).clone()), None => None } }
                else { None }
            },
            _ => None,
        };
        match next { Some(n) => cur = n, None => return Ok(cur) }
    }
}

fn oc_occurs(id: usize, t: &Unifiable, ss: &SubstitutionSet, ov: &Ov, fuel: &mut usize) -> Result<bool, ()> {
    let t = oc_walk(t, ss, ov, fuel)?;
    match &t {
        Unifiable::LogicVar { id: j, .. } => Ok(*j == id),
        Unifiable::SComplex(ts) => { for x in ts { if oc_occurs(id, x, ss, ov, fuel)? { return Ok(true); } } Ok(false) },
        Unifiable::SLinkedList { term, next, .. } => Ok(oc_occurs(id, term, ss, ov, fuel)? || oc_occurs(id, next, ss, ov, fuel)?),
        _ => Ok(false),
    }
}

/// the elements of a list and its tail variable, if it has one
fn oc_list(t: &Unifiable) -> (Vec<Unifiable>, Option<Unifiable>) {
    let mut els = vec![];
    let mut cur = t;
    while let Unifiable::SLinkedList { term, next, tail_var, .. } = cur {
        if **term == Unifiable::Nil { break; }
        if *tail_var && **next == Unifiable::Nil { return (els, Some((**term).clone())); }
        els.push((**term).clone());
        cur = next;
    }
    (els, None)
}

fn oc_unify(a: &Unifiable, b: &Unifiable, ss: &SubstitutionSet, ov: &mut Ov, fuel: &mut usize) -> Result<(), ()> {
    if *fuel == 0 { return Err(()); }
    *fuel -= 1;
    let a = oc_walk(a, ss, ov, fuel)?;
    let b = oc_walk(b, ss, ov, fuel)?;
    match (&a, &b) {
        (Unifiable::Anonymous, _) | (_, Unifiable::Anonymous) => Ok(()),
        (Unifiable::SFunction { .. }, _) | (_, Unifiable::SFunction { .. }) => Ok(()),
        (Unifiable::LogicVar { id: i, .. }, Unifiable::LogicVar { id: j, .. }) if i == j => Ok(()),
        (Unifiable::LogicVar { id, .. }, t) | (t, Unifiable::LogicVar { id, .. }) => {
            if oc_occurs(*id, t, ss, ov, fuel)? { return Err(()); }
            ov.insert(*id, t.clone());
            Ok(())
        },
        (Unifiable::SComplex(xs), Unifiable::SComplex(ys)) => {
            for (x, y) in xs.iter().zip(ys.iter()) { oc_unify(x, y, ss, ov, fuel)?; }
            Ok(())
        },
        (Unifiable::SLinkedList { .. }, Unifiable::SLinkedList { .. }) => {
            let (xs, xt) = oc_list(&a);
            let (ys, yt) = oc_list(&b);
            let n = xs.len().min(ys.len());
            for k in 0..n { oc_unify(&xs[k], &ys[k], ss, ov, fuel)?; }
            // what is left of the longer list meets the tail variable of the shorter one
            let rest = |v: &Vec<Unifiable>, t: &Option<Unifiable>| -> Unifiable {
                let mut items: Vec<Unifiable> = v[n..].to_vec();
                match t { Some(tv) => { items.push(tv.clone()); make_linked_list(true, items) }, None => make_linked_list(false, items) }
            };
            match (&xt, &yt) {
                (Some(tx), Some(ty)) if xs.len() == ys.len() => oc_unify(tx, ty, ss, ov, fuel),
                (Some(tx), _) if xs.len() <= ys.len() => { let r = rest(&ys, &yt); oc_unify(tx, &r, ss, ov, fuel) },
                (_, Some(ty)) if ys.len() <= xs.len() => { let r = rest(&xs, &xt); oc_unify(ty, &r, ss, ov, fuel) },
                _ => Ok(()),
            }
        },
        _ => Ok(()),
    }
}

/// the variables a term reaches through the bindings
fn oc_vars(t: &Unifiable, ss: &SubstitutionSet, out: &mut Vec<usize>, fuel: &mut usize) -> Result<(), ()> {
    let ov = Ov::new();
    let t = oc_walk(t, ss, &ov, fuel)?;
    match &t {
        Unifiable::LogicVar { id, .. } => { out.push(*id); Ok(()) },
        Unifiable::SComplex(ts) => { for x in ts { oc_vars(x, ss, out, fuel)?; } Ok(()) },
        Unifiable::SFunction { terms, .. } => { for x in terms { oc_vars(x, ss, out, fuel)?; } Ok(()) },
        Unifiable::SLinkedList { term, next, .. } => { oc_vars(term, ss, out, fuel)?; oc_vars(next, ss, out, fuel) },
        _ => Ok(()),
    }
}

/// a built-in that unifies its last argument with a term built from the earlier ones needs the occurs check when a variable of
/// the last argument is among the variables of the earlier ones (conservative)
pub fn builtin_needs_occurs_check(terms: &Vec<Unifiable>, ss: &SubstitutionSet) -> bool {
    if terms.len() < 2 { return false; }
    let mut fuel: usize = 20000;
    let mut outs = vec![];
    if oc_vars(&terms[terms.len() - 1], ss, &mut outs, &mut fuel).is_err() { return true; }
    let mut ins = vec![];
    for t in &terms[..terms.len() - 1] { if oc_vars(t, ss, &mut ins, &mut fuel).is_err() { return true; } }
    outs.iter().any(|v| ins.contains(v))
}

pub fn solve<'a>(ctx: &Ctx<'a>, goal: &Goal, level: usize, ss: &SS<'a>, cont: &mut dyn FnMut(&SS<'a>) -> Flow) -> Flow {
    ctx.steps.set(ctx.steps.get() + 1);
    if ctx.steps.get() > ctx.limit { return Flow::Halt; }
    match goal {
        Goal::ComplexGoal(c) => {
            let key = goal.key();
            let n = match ctx.kb.get(&key) { Some(l) => l.len(), None => 0 };
            let my = ctx.levels.get() + 1;
            ctx.levels.set(my);
            for i in 0..n {
                let rule = get_rule(ctx.kb, &key, i);
                let head = rule.get_head();
                if needs_occurs_check(&head, c, ss) { ctx.cyclic.set(true); return Flow::Halt; }
                if let Some(s1) = head.unify(c, ss) {
                    if cyclic(&s1) { ctx.cyclic.set(true); return Flow::Halt; }
                    let body = rule.get_body();
                    let r = if body == Goal::Nil { cont(&s1) } else {
                        solve(ctx, &body, my, &s1, &mut |s2| {
                            let r2 = cont(s2);
                            // an answer of this call was delivered and more are asked for: none, if a cut ran in this clause
                            if r2 == Flow::Next && ctx.cut_ran.borrow().contains(&my) { Flow::CutFail(my) } else { r2 }
                        })
                    };
                    match r {
                        Flow::Next => {},
                        Flow::CutFail(l) if l == my => return Flow::Next,   // the cut of this call: no later clause
                        other => return other,
                    }
                }
            }
            Flow::Next
        },
        Goal::OperatorGoal(Operator::And(gs)) => solve_and(ctx, gs, 0, level, ss, cont),
        Goal::OperatorGoal(Operator::Or(gs)) => {
            for g in gs { let r = solve(ctx, g, level, ss, cont); if r != Flow::Next { return r; } }
            Flow::Next
        },
        Goal::OperatorGoal(Operator::Not(gs)) => {
            let mut found = false;
            let r = solve(ctx, &gs[0], level, ss, &mut |_s| { found = true; Flow::Halt });
            if found { return Flow::Next; }
            if r == Flow::Halt { return Flow::Halt; }
            cont(ss)
        },
        Goal::OperatorGoal(Operator::Time(gs)) => {
            let mut first: Option<SS<'a>> = None;
            let r = solve(ctx, &gs[0], level, ss, &mut |s| { first = Some(Rc::clone(s)); Flow::Halt });
            match first { Some(s) => cont(&s), None => if r == Flow::Halt { Flow::Halt } else { Flow::Next } }
        },
        Goal::BuiltInGoal(b) => {
            if let ("append" | "functor" | "include" | "exclude" | "count", Some(t)) = (b.functor.as_str(), b.terms.as_ref()) {
                if builtin_needs_occurs_check(t, ss) { ctx.cyclic.set(true); return Flow::Halt; }
            }
            let res: Option<SS<'a>> = match b.functor.as_str() {
                "!" => { ctx.cut_ran.borrow_mut().insert(level); let r = cont(ss); return if r == Flow::Next { Flow::CutFail(level) } else { r }; },
                "fail" => None,
                "nl" => { print!("\n"); Some(Rc::clone(ss)) },
                "print" => { next_solution_print(b.clone(), ss); Some(Rc::clone(ss)) },
                "print_list" => { next_solution_print_list(b.clone(), ss); Some(Rc::clone(ss)) },
                "unify" => { let t = b.terms.as_ref().unwrap(); if needs_occurs_check(&t[0], &t[1], ss) { ctx.cyclic.set(true); return Flow::Halt; } let r = t[0].unify(&t[1], ss); if let Some(s1) = &r { if cyclic(s1) { ctx.cyclic.set(true); return Flow::Halt; } } r },
                "equal" => bip_equal(b.clone(), ss),
                "less_than" => bip_less_than(b.clone(), ss),
                "less_than_or_equal" => bip_less_than_or_equal(b.clone(), ss),
                "greater_than" => bip_greater_than(b.clone(), ss),
                "greater_than_or_equal" => bip_greater_than_or_equal(b.clone(), ss),
                "append" => next_solution_append(b.clone(), ss),
                "functor" => next_solution_functor(b.clone(), ss),
                "include" => bip_include(b.clone(), ss),
                "exclude" => bip_exclude(b.clone(), ss),
                "count" => bip_count(b.clone(), ss),
                other => panic!("reference interpreter: built-in {} not modelled", other),
            };
            match res { Some(s) => { if cyclic(&s) { ctx.cyclic.set(true); return Flow::Halt; } cont(&s) }, None => Flow::Next }
        },
        Goal::Nil => cont(ss),
    }
}

fn solve_and<'a>(ctx: &Ctx<'a>, gs: &Vec<Goal>, i: usize, level: usize, ss: &SS<'a>, cont: &mut dyn FnMut(&SS<'a>) -> Flow) -> Flow {
    if i == gs.len() { return cont(ss); }
    solve(ctx, &gs[i], level, ss, &mut |s1| solve_and(ctx, gs, i + 1, level, s1, cont))
}

/// the answers of `query` (at most `max`), each shown as the query with its variables replaced; None if the step limit was hit
pub fn reference_answers(kb: &KnowledgeBase, query: &Goal, max: usize) -> Option<Vec<String>> {
    let ctx = Ctx { kb, steps: Cell::new(0), limit: 20000, levels: Cell::new(0), cut_ran: std::cell::RefCell::new(std::collections::HashSet::new()), cyclic: Cell::new(false) };
    let mut out: Vec<String> = vec![];
    let ss: SS = Rc::new(SubstitutionSet::new());
    let _ = solve(&ctx, query, 0, &ss, &mut |s| {
        out.push(format!("{}", query.replace_variables(s)));
        if out.len() >= max { Flow::Halt } else { Flow::Next }
    });
    if ctx.steps.get() > ctx.limit || ctx.cyclic.get() { return None; }
    Some(out)
}

/// unbound variables are shown with the id they happened to get: not part of the comparison
pub fn normalise(ans: &str) -> String {
    let cs: Vec<char> = ans.chars().collect();
    let mut out = String::new();
    let mut i = 0;
    while i < cs.len() {
        if cs[i] == '$' {
            let mut j = i + 1;
            while j < cs.len() && (cs[j].is_alphanumeric() || cs[j] == '_') { j += 1; }
            out.push_str("$VAR");
            i = j;
        } else { out.push(cs[i]); i += 1; }
    }
    out
}
