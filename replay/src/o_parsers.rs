//! C18: every parser returns a value or an error for every input, never panics.
use crate::terms::Rng;
use suiron::*;

const ENTRY: [&str; 8] = ["parse_term", "parse_linked_list", "parse_complex", "parse_function", "parse_query", "parse_subgoal", "generate_goal", "parse_rule"];

pub fn enum_strings(seed: u64) -> Vec<String> {
    let alphabet: Vec<&str> = vec!["a", "b", "$X", "$_", "1", "2.5", "(", ")", "[", "]", ",", " ", "|", "\"", "\\", ".", ":-", "=", "==", "<", ">=", "+", "-", "*", "/", ";", "!", "not", "time", "é", "f(", "add("];
    let mut strs: Vec<String> = vec!["".into(), " ".into(), ".".into(), "a\\".into(), "f(a\\".into(), "f(a\\)".into(), "$X :- a.".into(), "a :- .".into(),
        "p :- (a, b".into(), "p :- a, (b; c)).".into(), "p :- ;.".into(), "p :- ,.".into(), "()".into(), "(a)".into(), "[|]".into(), "[a|]".into(),
        "[a | b]".into(), "\"".into(), "\"\"".into(), "f(\"\")".into(), "$X =".into(), "= $X".into(), "$X = ".into(), "a + ".into(), " + a".into(),
        "not()".into(), "time()".into(), "not(".into(), "p :- not(a.".into(), "p :- a :- b.".into(), ":-".into(), ":- a.".into(), "a:-".into(), "abc".into()];
    for a in &alphabet { strs.push(a.to_string()); }
    for a in &alphabet { for b in &alphabet { strs.push(format!("{}{}", a, b)); } }
    let mut rng = Rng(seed.wrapping_mul(0x2545F4914F6CDD1D) | 1);
    for _ in 0..3000 {
        let n = 3 + rng.below(7);
        let mut s = String::new();
        for _ in 0..n { s.push_str(alphabet[rng.below(alphabet.len())]); }
        strs.push(s);
    }
    let mut out = vec![];
    for s in strs { for e in ENTRY { out.push(format!("{}\u{1}{}", e, s)); } }
    out
}

pub fn check_string(case: &str) -> Result<(), String> {
    let (entry, s) = case.split_once('\u{1}').unwrap();
    // a panic is caught by the caller (run_case) and reported as the failure
    match entry {
        "parse_term" => { let _ = parse_term(s); }
        "parse_linked_list" => { let _ = parse_linked_list(s); }
        "parse_complex" => { let _ = parse_complex(s); }
        "parse_function" => { let _ = parse_function(s); }
        "parse_query" => { let _ = parse_query(s); }
        "parse_subgoal" => { let _ = parse_subgoal(s); }
        "generate_goal" => { let _ = generate_goal(s); }
        _ => { let _ = parse_rule(s); }
    }
    Ok(())
}
