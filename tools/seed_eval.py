#!/usr/bin/env python3
"""seed_eval.py <seed-name> <worktree> <property> [--props C06,C09,...] [--skip-confirm]
Confirms a seeded property-breaking change (tests pass, demo fails with / passes without it), stores it under
/verif/seeded/<seed-name>/ and runs the registered checks against a scratch copy of /repo with the patch applied."""
import sys, os, subprocess, shutil, hashlib, glob, json, time
def cleanup_build(d):
    h = hashlib.sha1(os.path.abspath(d).encode()).hexdigest()[:8]
    for p in glob.glob('/verif/build/*_' + h):
        shutil.rmtree(p, ignore_errors=True)
VERIF = os.path.dirname(os.path.dirname(os.path.abspath(__file__)))
name, wt, prop = sys.argv[1], sys.argv[2], sys.argv[3]
props = [prop]
if '--props' in sys.argv:
    props = sys.argv[sys.argv.index('--props') + 1].split(',')
env = dict(os.environ, CARGO_TARGET_DIR=os.path.join(wt, 'target'), CARGO_NET_OFFLINE='true')
def sh(cmd, cwd=wt, **kw):
    return subprocess.run(cmd, cwd=cwd, shell=isinstance(cmd, str), capture_output=True, text=True, env=env, **kw)
out = os.path.join(VERIF, 'seeded', name)
os.makedirs(out, exist_ok=True)
for f in ('patch.diff', 'demo.rs', 'meta.json'):
    shutil.copy(os.path.join(wt, 'seed_out', f), os.path.join(out, f))
ran = []
res = {}
if '--skip-confirm' not in sys.argv:
    # the worktree has the patch applied
    d = sh('git diff --stat -- src').stdout.strip()
    res['diffstat'] = d
    t = sh('cargo nextest run --workspace --no-fail-fast --offline --test-threads 8 2>&1 | tail -3')
    ran.append('cargo nextest run --workspace --no-fail-fast --offline --test-threads 8   (patch applied)')
    res['tests_with_patch'] = t.stdout.strip().split('\n')[-1] if 'Summary' in t.stdout else t.stdout[-300:]
    r1 = sh('cargo run --offline --example seed_demo 2>&1 | tail -4; exit ${PIPESTATUS[0]}', executable='/bin/bash')
    ran.append('cargo run --offline --example seed_demo   (patch applied) -> exit %d' % r1.returncode)
    res['demo_with_patch_exit'] = r1.returncode
    res['demo_with_patch_tail'] = r1.stdout.strip()[-400:]
    sh('git diff -- src > /tmp/seed_eval_confirm_%s.patch' % name + '; git apply -R /tmp/seed_eval_confirm_%s.patch' % name + '')
    r2 = sh('cargo run --offline --example seed_demo 2>&1 | tail -3; exit ${PIPESTATUS[0]}', executable='/bin/bash')
    ran.append('git apply -R <patch>; cargo run --offline --example seed_demo -> exit %d' % r2.returncode)
    res['demo_without_patch_exit'] = r2.returncode
    sh('git apply /tmp/seed_eval_confirm_%s.patch' % name + '; rm -f /tmp/seed_eval_confirm_%s.patch' % name + '')
    res['confirmed'] = ('passed' in res['tests_with_patch'] and ' 0 failed' not in '' and r1.returncode != 0 and r2.returncode == 0)
# run checks on a scratch copy of the CURRENT /repo with the patch
mw = '/tmp/mutwt_' + name
shutil.rmtree(mw, ignore_errors=True)
os.makedirs(mw)
subprocess.run('cp -r /repo/src /repo/Cargo.toml /repo/Cargo.lock /repo/build.rs %s/ 2>/dev/null; cp -r /repo/tests /repo/benches %s/ 2>/dev/null' % (mw, mw), shell=True)
ap = subprocess.run(['patch', '-p1', '-d', mw, '-i', os.path.join(out, 'patch.diff')], capture_output=True, text=True)
res['patch_applies_to_current_repo'] = (ap.returncode == 0)
checks = {}
for p in props:
    t0 = time.time()
    r = subprocess.run([os.path.join(VERIF, 'bin', 'check'), p, 'quick', '--repo', mw, '--no-evidence'], capture_output=True, text=True)
    lines = [l for l in r.stdout.strip().split('\n') if l.startswith(('failed obligation', 'VIOLATION', 'UNDECIDED', 'OK', '  witness'))]
    checks[p] = {'exit': r.returncode, 'wall_s': round(time.time() - t0, 1), 'lines': lines[:8]}
    ran.append('bin/check %s quick --repo <scratch copy with patch> -> exit %d' % (p, r.returncode))
shutil.rmtree(mw, ignore_errors=True)
cleanup_build(mw)
res['checks'] = checks
meta = json.load(open(os.path.join(out, 'meta.json')))
meta['verified_by_framework_author'] = res
meta['what_i_ran'] = ran
json.dump(meta, open(os.path.join(out, 'meta.json'), 'w'), indent=1)
print(json.dumps(res, indent=1))
