#!/usr/bin/env python3
"""harmless_prompt.py <name> <worktree> <file> <functions...> -- creates a scratch git worktree of /repo and prints the prompt for a
sub-agent that writes a BEHAVIOUR-PRESERVING refactoring (used to test that the checks raise no alarm on code where the properties hold)."""
import sys, subprocess, os
name, wt, f = sys.argv[1], sys.argv[2], sys.argv[3]
fns = ', '.join(sys.argv[4:])
if not os.path.exists(wt):
    subprocess.run(['git', '-C', '/repo', 'worktree', 'add', '--detach', wt, 'HEAD'], check=True, capture_output=True)
print(f'''You are helping test a verification framework for a small Rust project (a Prolog-like inference engine called Suiron). You work ONLY inside your own scratch git worktree of the project at {wt} (a checkout of the current main branch; build with `cargo build --offline`, run the tests with `cargo nextest run --workspace --no-fail-fast --offline --test-threads 8`; export CARGO_TARGET_DIR={wt}/target and CARGO_NET_OFFLINE=true; use at most `-j 4`). Do not touch /repo or /verif, and do not read anything under /verif.

Your task: write ONE realistic, strictly BEHAVIOUR-PRESERVING refactoring of src/{f} touching the function(s) {fns} - the kind of clean-up a maintainer does without intending any change in behaviour: rename local variables, reorder independent statements, replace an index loop by an equivalent loop form (or the reverse), extract a small helper function or inline one, merge or split match arms, flip comparison operands, replace `if let` by `match`, change error-message wording, add comments, simplify a redundant condition. Make it a real refactoring of 10-40 changed lines, not a one-word edit. It must not change the result of the function for ANY input (including unusual ones: empty inputs, non-ASCII text, nested terms, bound variable chains, negative numbers, NaN/-0.0) - be careful and argue why it is equivalent. No new dependencies.

Deliver, inside {wt}: the change applied to the working tree (src/ only); `seed_out/patch.diff` = `git diff -- src`; `seed_out/meta.json` with keys "name" ("{name}"), "what_changed", "why_equivalent", "files", "commands_run". Verify yourself that the crate builds without warnings you introduced and that all 100 tests pass with the change (state the summary line). In your final message report the diff and the equivalence argument.''')
