// TRUSTED(T6): the code is checked for a 64-bit target (usize is 8 bytes), as in this sandbox (x86_64)
global size_of usize == 8;
