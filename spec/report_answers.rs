// ---------------------------------------------------------------------------
// spec/report_answers.rs -- what solve / solve_all may report (C23, C01), over the relation `entails` of spec/sld_heap.rs
// ---------------------------------------------------------------------------
// the text is the formatted text of a computed answer of goal g (bindings s0, knowledge base kb): some answer s that
// resolution derives - `entails`, spec/sld_heap.rs - formatted by format_solution for the query with its variables replaced
pub open spec fn reports_answer(kb: KnowledgeBase, g: Goal, s0: SS, text: Seq<char>) -> bool {
    exists|s: SS| #[trigger] entails(kb, g, s0, s) && fmt_is(g, replaced(goal_term(g), s), text)
}
pub proof fn lemma_reports(kb: KnowledgeBase, g: Goal, s0: SS, s: SS, text: Seq<char>)
    requires entails(kb, g, s0, s), fmt_is(g, replaced(goal_term(g), s), text),
    ensures reports_answer(kb, g, s0, text),
{ }
pub proof fn lemma_fixed_trans(a: Heap, b: Heap, c: Heap)
    requires fixed_same(a, b), fixed_same(b, c),
    ensures fixed_same(a, c),
{ }
