"""Kani harness specifications: completeness, bounds, stubs, oracles."""
HARNESSES = {
    'c10_counter_contract': {
        'complete': True, 'timeout': 300,
        'what': 'set_var_id(s); next_id(); next_id() for every s < usize::MAX-1: ids are s+1, s+2, non-zero, distinct, larger than s; clear_id resets',
        'oracle': 'c10_counter',
    },
    'c22_start_query_resets': {
        'complete': True, 'timeout': 300,
        'what': 'start_query() from any prior stop flag / id counter: flag cleared and counter 0',
        'oracle': 'c22_make_query',
    },
    'c22_stop_flag': {
        'complete': True, 'timeout': 300,
        'what': 'stop_query / query_stopped are a plain flag, independent of the id counter',
        'oracle': 'c22_make_query',
    },
    'c22_start_query_timer_resets': {
        'complete': True, 'timeout': 600,
        'what': 'start_query_timer(ms) from any prior stop flag: flag cleared before the timer is armed (ThreadTimer::new/start stubbed: no threads in Kani)',
        'need_stubs': ['ThreadTimer :: new', 'ThreadTimer :: start'],
        'oracle': 'c22_make_query',
        'assumptions': ['kani stub: thread_timer::ThreadTimer::new / start replaced by no-ops (the timer thread itself, and the race with the search, are C23 and outside reach)'],
    },
    'c22_make_query_resets': {
        'complete': True, 'timeout': 900,
        'what': 'make_query([functor]) from any prior stop flag / id counter clears the flag and restarts ids (callee recreate_variables stubbed)',
        'need_stubs': ['recreate_variables', 'fmt :: format'],
        'frame_scan': True,
        'oracle': 'c22_make_query',
        'assumptions': [
            'kani stub: Unifiable::recreate_variables replaced by a stub that may advance the id counter and never touches the stop flag (frame fact checked by run_kani.scan_frame on every run)',
            'kani stub: alloc::fmt::format -> empty String (panic messages only); std::hash::RandomState::new -> fixed keys (HashMap::new reaches a futex otherwise)',
        ],
    },
}
