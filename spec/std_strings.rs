// ---------------------------------------------------------------------------
// spec/std_strings.rs -- TRUSTED(T3): assumed specifications of std string
// primitives that vstd does not specify.
// ---------------------------------------------------------------------------

// TRUSTED(T3): String == str compares the character sequences.
pub assume_specification[ <String as PartialEq<str>>::eq ](a: &String, b: &str) -> (r: bool)
    ensures r == (a@ == b@);

// TRUSTED(T3): String::cmp is the lexicographic order on the character sequences
// (byte-wise on UTF-8, which coincides with code-point order); modelled as an
// uninterpreted total comparison with the laws the proofs need.
pub uninterp spec fn str_cmp(a: Seq<char>, b: Seq<char>) -> Ordering;

pub assume_specification[ <String as Ord>::cmp ](a: &String, b: &String) -> (r: Ordering)
    ensures r == str_cmp(a@, b@);

pub axiom fn axiom_str_cmp_laws()
    ensures
        forall|a: Seq<char>, b: Seq<char>| (#[trigger] str_cmp(a, b) == Ordering::Equal) <==> a == b,
        forall|a: Seq<char>, b: Seq<char>| (#[trigger] str_cmp(a, b) == Ordering::Less) <==> (str_cmp(b, a) == Ordering::Greater);

// TRUSTED(T3): derived PartialEq on std::cmp::Ordering is equality of the variants.
pub assume_specification[ <Ordering as PartialEq>::eq ](a: &Ordering, b: &Ordering) -> (r: bool)
    ensures r == (*a == *b);
