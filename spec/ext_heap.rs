// ---------------------------------------------------------------------------
// spec/ext_heap.rs -- "no binding is ever lost in the search" (unit solver_ext, overlay ext): the bindings of the nodes a node
// is linked to (the node of a clause body, the node of the first operand, the node of the remaining operands) extend its own,
// and so does every answer it gives.  C01 (soundness half) / C06 (#keeps) through the whole search.
// ---------------------------------------------------------------------------
pub open spec fn link_ext(h: Heap, n: int, l: Option<int>) -> bool {
    l matches Some(c) ==> alive(h, c) && extends(h.st[c].ss@, h.st[n].ss@)
}
pub open spec fn node_ext(h: Heap, n: int) -> bool {
    link_ext(h, n, h.st[n].child) && link_ext(h, n, h.st[n].head_sn) && link_ext(h, n, h.st[n].tail_sn)
}
pub open spec fn heap_ext(h: Heap) -> bool {
    forall|n: int| #[trigger] alive(h, n) ==> node_ext(h, n)
}
pub proof fn lemma_extends_refl(s: SS)
    ensures extends(s, s),
{
}
// nodes were added or changed: every old node keeps its bindings; a node whose links changed, or a new node, is shown separately
pub proof fn lemma_ext_step(h1: Heap, h2: Heap)
    requires
        heap_ext(h1),
        forall|n: int| #[trigger] alive(h1, n) ==> alive(h2, n) && h2.st[n].ss == h1.st[n].ss,
        forall|n: int| #[trigger] alive(h2, n) ==> (alive(h1, n) && h2.st[n].child == h1.st[n].child && h2.st[n].head_sn == h1.st[n].head_sn && h2.st[n].tail_sn == h1.st[n].tail_sn) || node_ext(h2, n),
    ensures heap_ext(h2),
{
    assert forall|n: int| #[trigger] alive(h2, n) implies node_ext(h2, n) by {
        if !(node_ext(h2, n)) {
            assert(alive(h1, n) && node_ext(h1, n));
        }
    }
}

// every node that existed has the bindings it had
pub open spec fn ss_same(h1: Heap, h2: Heap) -> bool {
    forall|n: int| #[trigger] alive(h1, n) ==> alive(h2, n) && h2.st[n].ss == h1.st[n].ss
}
// one more step since h0
pub proof fn lemma_ext_step3(h0: Heap, h1: Heap, h2: Heap)
    requires
        ss_same(h0, h1), heap_ext(h1),
        forall|n: int| #[trigger] alive(h1, n) ==> alive(h2, n) && h2.st[n].ss == h1.st[n].ss,
        forall|n: int| #[trigger] alive(h2, n) ==> (alive(h1, n) && h2.st[n].child == h1.st[n].child && h2.st[n].head_sn == h1.st[n].head_sn && h2.st[n].tail_sn == h1.st[n].tail_sn) || node_ext(h2, n),
    ensures heap_ext(h2), ss_same(h0, h2),
{
    lemma_ext_step(h1, h2);
    assert forall|n: int| #[trigger] alive(h0, n) implies alive(h2, n) && h2.st[n].ss == h0.st[n].ss by { assert(alive(h1, n)); }
}
pub proof fn lemma_ss_same_trans(h0: Heap, h1: Heap, h2: Heap)
    requires ss_same(h0, h1), ss_same(h1, h2),
    ensures ss_same(h0, h2),
{
    assert forall|n: int| #[trigger] alive(h0, n) implies alive(h2, n) && h2.st[n].ss == h0.st[n].ss by { assert(alive(h1, n)); }
}
