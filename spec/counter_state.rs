// ---------------------------------------------------------------------------
// spec/counter.rs -- the variable-id counter LOGIC_VAR_ID as ghost state (units rename, parsers)
// ---------------------------------------------------------------------------
// TRUSTED(T9): the `static mut LOGIC_VAR_ID` (outside Verus) is modelled by the ghost field `ids` of a state that the
// functions which touch it pass along (rule R15a/b, the mechanism of the node heap).  Assumed: it is changed only by
// next_id (+1), set_var_id / clear_id / start_query - checked by the source scan of C22 - and next_id returns the new value
// (Kani harness c10_counter_contract).
pub tracked struct Heap {
    pub ghost ids: nat,
}
