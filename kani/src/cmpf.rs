// placeholder
