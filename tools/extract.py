#!/usr/bin/env python3
"""extract.py -- build one Verus file per unit from /repo's *current* sources.

  extract.py <unit> [--repo DIR] [--out FILE] [--diff]

A unit file (units/<unit>.unit) lists what goes into the Verus file:

    include <path under /verif>          raw Verus text (spec functions, lemmas, assumed specs)
    type    <src file> <Name>            enum/struct/type alias copied verbatim   (rule R1)
    static  <src file> <NAME>            static &str copied as const              (rule R6)
    macro   <src file> <name>            macro_rules! copied verbatim
    prove   <src file> <fn | Type::fn>   function body copied verbatim + contract injected
    stub    <src file> <fn | Type::fn>   signature + same contract, body external (assumed here,
                                         proved in the unit that says `prove`)

Contracts live in contracts/<srcstem>.<fn path with . for ::>.vc (see DESIGN.md 3.1).
Everything the extractor changes in a function body is one of the numbered
rewrite rules below; each application is counted and reported.

Exit status: 0 ok, 2 undecided (lost anchor / changed loop structure / unknown construct).
"""
import sys, os, re, json, hashlib, difflib

HERE = os.path.dirname(os.path.abspath(__file__))
VERIF = os.path.dirname(HERE)
sys.path.insert(0, HERE)
from rustlex import lex, find_items, match_close, next_sig, prev_sig, Tok  # noqa


class Undecided(Exception):
    pass


# ----------------------------------------------------------------------------
# contract files

LABEL_RE = re.compile(r'//\s*#([A-Za-z0-9_]+)\s*(?:\[([A-Z0-9, ]*)\])?')


# Overlay contracts (unit directive `overlay NAME`): `contracts/<stem>.<fn>+NAME.vc` holds ADDITIONAL clauses of a function
# for the units that name the overlay; they are merged into the function's base contract (same section name: the lines are
# appended; in `[sig]` and `[loop ..]` sections they are appended to the clause group - requires / ensures / invariant .. -
# under which the overlay lists them).  Units without the directive see the base contract only, so a property whose
# clauses are expected to fail on the current tree (C20) does not disturb the proofs of the properties that share the function.
OVERLAY = [None]


class Contract:
    def __init__(self, path, overlay_only=False):
        self.path = path
        self.sections = {}      # name -> list of (lineno, text[, file])
        self.order = []
        self.expect_loops = None
        self.loopnames = {}
        self.opts = {}
        if not overlay_only:
            self._read(path, None)
        if OVERLAY[0] and path.endswith('.vc'):
            # (several overlays may be named: `overlay ids acy`; they are merged in that order)
            for oname in OVERLAY[0].split('+'):
                opath = path[:-3] + '+' + oname + '.vc'
                if os.path.exists(opath):
                    self._read(opath, os.path.relpath(opath, VERIF))

    GROUP_KW = ('requires', 'ensures', 'decreases', 'invariant', 'invariant_except_break', 'ensures_on_break')

    def _merge(self, name, lines):
        """append overlay lines to an existing section"""
        base = self.sections[name]
        if not (name == 'sig' or name.startswith('loop ')):
            base.extend(lines)
            return
        cur = None
        at = None       # where the next line of the current overlay group goes
        for item in lines:
            kw = item[1].strip()
            if kw in self.GROUP_KW:
                cur = kw
                at = None
                continue
            if cur is None:
                base.append(item)
                continue
            if at is not None:
                base.insert(at, item)
                at += 1
                continue
            # the end of the base's group `cur`
            pos = None
            inside = False
            for k, b in enumerate(base):
                bk = (b[1].strip().split() or [''])[0].rstrip(',')
                if bk in self.GROUP_KW:
                    if inside:
                        pos = k
                        # a label comment just above the next group belongs to that group
                        while pos > 0 and base[pos - 1][1].strip().startswith('//'):
                            pos -= 1
                        break
                    inside = (bk == cur)
            if inside and pos is None:
                pos = len(base)
            if pos is None:
                # the base has no such group: requires goes first, anything else last (before decreases)
                if cur == 'requires':
                    base[0:0] = [(item[0], '    requires', item[2]), item]
                    at = 2
                else:
                    dk = next((k for k, b in enumerate(base) if (b[1].strip().split() or [''])[0] == 'decreases'), len(base))
                    while dk > 0 and base[dk - 1][1].strip().startswith('//'):
                        dk -= 1
                    base[dk:dk] = [(item[0], '        ' + cur, item[2]), item]
                    at = dk + 2
            else:
                base.insert(pos, item)
                at = pos + 1

    def _read(self, path, ofile):
        if not os.path.exists(path):
            return
        cur = None
        pending = {}
        for ln, line in enumerate(open(path).read().split('\n'), 1):
            m = re.match(r'^\[(.+)\]\s*$', line)
            if m:
                cur = m.group(1).strip()
                if cur.startswith('loops '):
                    self.expect_loops = int(cur.split()[1])
                    cur = None
                    continue
                mm = re.match(r'^name\s+([A-Za-z_][A-Za-z0-9_]*)\s*(\??)=\s*loop\s+"(.*)"\s*(?:#(\d+))?$', cur)
                if mm:
                    self.loopnames[mm.group(1)] = (mm.group(3), int(mm.group(4) or 0), mm.group(2) == '?')
                    cur = None
                    continue
                if cur.startswith('opt '):
                    k, _, v = cur[4:].partition('=')
                    self.opts[k.strip()] = v.strip()
                    cur = None
                    continue
                if ofile is not None and cur.endswith(' first') and cur[:-6] in self.sections:
                    # overlay section `[NAME first]`: its lines go BEFORE the base's lines of section NAME
                    pending.setdefault(cur, [])
                    continue
                if ofile is not None and cur in self.sections:
                    pending.setdefault(cur, [])
                    continue
                self.sections[cur] = []
                self.order.append(cur)
                continue
            if cur is None:
                continue
            if ofile is not None and cur in pending:
                pending[cur].append((ln, line, ofile))
            elif ofile is not None:
                self.sections[cur].append((ln, line, ofile))
            else:
                self.sections[cur].append((ln, line))
        for name, lines in pending.items():
            if name.endswith(' first') and name not in self.sections:
                self.sections[name[:-6]][0:0] = lines
            else:
                self._merge(name, lines)

    def get(self, name):
        return self.sections.get(name)


def contract_path(srcfile, fnpath):
    stem = os.path.splitext(os.path.basename(srcfile))[0]
    return os.path.join(VERIF, 'contracts', '%s.%s.vc' % (stem, fnpath.replace('::', '.')))


# ----------------------------------------------------------------------------
# output with origin tracking

class Out:
    def __init__(self):
        self.lines = []      # text lines
        self.origin = []     # per line origin dict

    def add(self, text, origin):
        """origin: dict or callable(line_index_within_text)->dict"""
        if text.endswith('\n'):
            text = text[:-1]
        for k, l in enumerate(text.split('\n')):
            self.lines.append(l)
            self.origin.append(origin(k) if callable(origin) else origin)

    def text(self):
        return '\n'.join(self.lines) + '\n'


# ----------------------------------------------------------------------------
# source access

class Repo:
    def __init__(self, root):
        self.root = root
        self.cache = {}

    def load(self, f):
        if f not in self.cache:
            p = os.path.join(self.root, 'src', f)
            if not os.path.exists(p):
                raise Undecided('lost anchor: source file src/%s missing' % f)
            src = open(p).read()
            toks, items = find_items(src)
            self.cache[f] = (src, toks, items)
        return self.cache[f]

    def find(self, f, kind, path):
        src, toks, items = self.load(f)
        owner = None
        name = path
        if '::' in path:
            owner, name = path.split('::', 1)
        kinds = (kind,) if isinstance(kind, str) else kind
        cands = [it for it in items if it.kind in kinds and it.name == name and it.owner == owner]
        if not cands:
            raise Undecided('lost anchor: %s %s not found in src/%s' % ('/'.join(kinds), path, f))
        if len(cands) > 1:
            raise Undecided('lost anchor: %s %s is ambiguous in src/%s' % ('/'.join(kinds), path, f))
        return src, cands[0]


def lineno(src, off):
    return src.count('\n', 0, off) + 1


# ----------------------------------------------------------------------------
# function rewriting

def find_body_open(toks, k0):
    """first '{' at paren/bracket depth 0 starting from token index k0"""
    depth = 0
    k = k0
    while k < len(toks):
        t = toks[k]
        if t.kind == 'p':
            if t.text in '([':
                depth += 1
            elif t.text in ')]':
                depth -= 1
            elif t.text == '{' and depth == 0:
                return k
        k += 1
    raise Undecided('cannot find body of item')


def loop_heads(toks, lo, hi):
    """Find loops between token indices lo..hi. Returns list of dicts
    {kw, kw_idx, open_idx, close_idx, enum: None | (ivar, xvar, expr_text, for_idx_range)}"""
    loops = []
    k = lo
    while k < hi:
        t = toks[k]
        if t.kind == 'id' and t.text in ('while', 'loop', 'for'):
            p = prev_sig(toks, k)
            # skip identifiers used as field/method names (a.for) - not in this code base
            if p >= 0 and toks[p].kind == 'p' and toks[p].text == '.':
                k += 1
                continue
            kw = t.text
            j = next_sig(toks, k)
            if kw == 'loop':
                if not (toks[j].kind == 'p' and toks[j].text == '{'):
                    k += 1
                    continue
                op = j
            elif kw == 'while':
                if toks[j].kind == 'id' and toks[j].text == 'let':
                    # skip pattern up to single '=' at depth 0
                    depth = 0
                    q = j + 1
                    while q < hi:
                        tt = toks[q]
                        if tt.kind == 'p':
                            if tt.text in '([{':
                                depth += 1
                            elif tt.text in ')]}':
                                depth -= 1
                            elif tt.text == '=' and depth == 0:
                                nx = toks[q + 1]
                                pv = toks[q - 1]
                                if not (nx.kind == 'p' and nx.text in '=>') and not (pv.kind == 'p' and pv.text in '=!<>'):
                                    break
                        q += 1
                    op = find_body_open(toks, q + 1)
                else:
                    op = find_body_open(toks, j)
            else:  # for
                depth = 0
                q = j
                while q < hi:
                    tt = toks[q]
                    if tt.kind == 'p':
                        if tt.text in '([{':
                            depth += 1
                        elif tt.text in ')]}':
                            depth -= 1
                    elif tt.kind == 'id' and tt.text == 'in' and depth == 0:
                        break
                    q += 1
                in_idx = q
                op = find_body_open(toks, in_idx + 1)
            cl = match_close(toks, op)
            d = {'kw': kw, 'kw_idx': k, 'open_idx': op, 'close_idx': cl, 'enum': None}
            if kw == 'for':
                d['in_idx'] = in_idx
                # detect R3 shape: for (I, X) in E.iter().enumerate() {
                pat = ''.join(tk.text for tk in toks[j:in_idx] if tk.kind not in ('ws', 'comment', 'doc'))
                expr = ''.join(tk.text for tk in toks[in_idx + 1:op] if tk.kind not in ('ws', 'comment', 'doc'))
                m = re.match(r'^\(([A-Za-z_][A-Za-z0-9_]*),([A-Za-z_][A-Za-z0-9_]*)\)$', pat)
                if expr.endswith('.iter().enumerate()'):
                    if not m:
                        raise Undecided('unsupported construct: enumerate() loop with pattern %s' % pat)
                    d['enum'] = (m.group(1), m.group(2), expr[:-len('.iter().enumerate()')])
            loops.append(d)
        k += 1
    return loops


MACRO_RULES = {
    'panic': ('R2', 'verif_panic()'),
    'format': ('R4', 'verif_format()'),
    # R16: print!(..) in a heap function is one output event on the ghost heap (what is printed is not modelled)
    'print': ('R16', 'verif_print(Tracked(heap))'),
}
MACRO_FN = {
    'str_to_chars': 'R5',
    'chars_to_string': 'R5',
}


# R10 table: (function key, exact source text) -> replacement
EXPR_WRAPPERS = {
    # str byte slicing has no Verus specification; std panics unless 1 is a char boundary
    ('parse_terms.rs::parse_term', '&s[1..]'): 'str_skip_first_byte(s)',
    # Display of a TokenType (only used in an error message)
    ('tokenizer.rs::token_tree_to_goal', 'token_type.to_string()'): 'token_type_to_string(token_type)',
    # `.chars().collect()` written out instead of the str_to_chars! macro (iterator adapters are outside the Verus subset)
    ('logic_var.rs::make_logic_var', 'let the_chars: Vec<_> = trimmed.chars().collect();'): 'let the_chars: Vec<char> = str_to_chars(&(trimmed));',
    # String += &str has no usable Verus specification (AddAssignSpec cannot be implemented for String);
    # format!("{}", term) is Display, kept uninterpreted (spec disp)
    ('built_in_join.rs::evaluate_join', 'format!("{}", term)'): 'disp_term(&term)',
    ('built_in_join.rs::evaluate_join', 'format!("{}", ground_term)'): 'disp_term(ground_term)',
    ('built_in_join.rs::evaluate_join', 'out += &format!(" {}", &s);'): 'str_append_spaced(&mut out, &s);',
    ('built_in_join.rs::evaluate_join', 'out += &s;'): 'str_append(&mut out, &s);',
    # atom!(out) is Unifiable::Atom(out.to_string()); ToString for String is the blanket impl over Display (no specification possible)
    ('built_in_join.rs::evaluate_join', 'atom!(out)'): 'atom_of_string(&out)',
    # `String + &String` crashes the Verus front end: wrapped (the text is only an error message)
    ('rule_reader.rs::unmatched_bracket', '"Check: ".to_string() + &s'): 'str_concat_lit("Check: ", &s)',
    # ToString for String is the blanket impl over Display: no specification possible
    ('unifiable.rs::Unifiable::replace_variables', 's.to_string()'): 'string_copy(s)',
    ('unifiable.rs::Unifiable::replace_variables', 'name.to_string()'): 'string_copy(name)',
    # line_reader is generic over AsRef<Path> (File::open + BufReader::lines): external, with the assumed specification that
    # it yields the lines of the named file (spec/io.rs)
    # derived PartialEq of Goal against the variant without fields
    ('solution_node.rs::next_solution', 'body == Goal::Nil'): 'goal_is_nil(&body)',
    # Vec index + derived Clone of Goal: panics on a not(..) / time(..) without operand (the parsers do not build one); a panic is no return
    ('goal.rs::make_solution_node', 'goals[0].clone()'): 'first_goal_clone(goals)',
    # print: ToString for String, str::split + collect, String += (see spec/print.rs)
    ('built_in_print.rs::format_for_print_pred', 'the_strings[0].to_string()'): 'string_dup(&the_strings[0])',
    ('built_in_print.rs::format_for_print_pred', 'let split: Vec<_> = format_string.split(FORMAT_SPECIFIER).collect();'): 'let split: Vec<&str> = str_split_collect(&format_string, FORMAT_SPECIFIER);',
    ('built_in_print.rs::format_for_print_pred', 'out += &the_strings[j];'): 'str_append(&mut out, &the_strings[j]);',
    ('built_in_print.rs::format_for_print_pred', 'out += split[i];'): 'str_append_str(&mut out, split[i]);',
    ('built_in_print.rs::next_solution_print', 'format!("{}", ground_term)'): 'disp_term(ground_term)',
    # R17: the unsafe walk of the cut.  `self` is the node the caller holds the RefMut of (ghost parameter verif_me); `P.as_ptr()` gives a handle on
    # the node P points to; `(*raw).F` is an access to field F of that node in the node heap - WITHOUT a lock (that such an access under a live
    # RefMut of another node is defined behaviour at all is C24's question, not modelled); spec/cutwalk.rs
    ('solution_node.rs::SolutionNode::set_no_backtracking', 'self.no_backtracking = true;'): 'nd_self_set_flag(Ghost(verif_me), Tracked(heap));',
    ('solution_node.rs::SolutionNode::set_no_backtracking', 'let raw_ptr = pn.as_ptr();'): 'let raw_ptr = nd_as_ptr(pn);',
    ('solution_node.rs::SolutionNode::set_no_backtracking', 'unsafe {'): '{',
    ('solution_node.rs::SolutionNode::set_no_backtracking', '(*raw_ptr).no_backtracking = true;'): 'nd_raw_set_flag_chain(&raw_ptr, Tracked(heap));',
    ('solution_node.rs::SolutionNode::set_no_backtracking', 'if let Some(head_node) = &(*raw_ptr).head_sn {'): 'if let Some(head_node) = nd_raw_head_sn(&raw_ptr, Tracked(&*heap)) {',
    ('solution_node.rs::SolutionNode::set_no_backtracking', 'let raw_ptr2 = head_node.as_ptr();'): 'let raw_ptr2 = nd_as_ptr(head_node);',
    ('solution_node.rs::SolutionNode::set_no_backtracking', '(*raw_ptr2).no_backtracking = true;'): 'nd_raw_set_flag(&raw_ptr2, Tracked(heap));',
    ('solution_node.rs::SolutionNode::set_no_backtracking', 'option_parent = &(*raw_ptr).parent_node;'): 'option_parent = nd_raw_parent(&raw_ptr, Tracked(&*heap));',
    ('solution_node.rs::SolutionNode::set_no_backtracking', 'let mut option_parent = &self.parent_node;'): 'let mut option_parent = nd_self_parent(self, Ghost(verif_me), Tracked(&*heap));',
    ('parse_goals.rs::parse_subgoal', 'if s.len() == 0 {'): 'if str_is_empty(s) {',
    ('rule_reader.rs::load_kb_from_file', 'add_rules!(kb, rule);'): 'add_one_rule(kb, rule);',
    # the key of a predicate: the same format string in both functions (spec/kb_heap.rs)
    ('goal.rs::Goal::key', '&terms[0]'): 'vec_at(terms, 0)',
    ('unifiable.rs::Unifiable::key', '&terms[0]'): 'vec_at(terms, 0)',
    ('goal.rs::Goal::key', 'format!("{}/{}", functor, arity)'): 'fmt_key(functor, arity)',
    ('unifiable.rs::Unifiable::key', 'format!("{}/{}", functor, arity)'): 'fmt_key(functor, arity)',
    # print_list: what is written keeps its text (spec/print.rs)
    ('built_in_print_list.rs::format_slist', 'out += &format!("{}", t);'): 'str_append_disp(&mut out, t, false);',
    ('built_in_print_list.rs::format_slist', 'out += &format!(", {}", ground);'): 'str_append_disp(&mut out, ground, true);',
    ('built_in_print_list.rs::next_solution_print_list', 'print!(",\\n");'): 'verif_print_sep(Tracked(heap));',
    ('built_in_print_list.rs::next_solution_print_list', 'println!("{}", s);'): 'verif_println_string(&s, Tracked(heap));',
    ('built_in_print_list.rs::next_solution_print_list', 'println!("{}", term);'): 'verif_println_term(&term, Tracked(heap));',
    ('built_in_print.rs::next_solution_print', 'format!("{}", term)'): 'disp_term(&term)',
    ('solutions.rs::format_solution', 'out += &format!("{} = {}", name, r_terms[i]);'): 'str_append_binding(&mut out, name, &r_terms[i], false);',
    ('solutions.rs::format_solution', 'out += &format!(", {} = {}", name, r_terms[i]);'): 'str_append_binding(&mut out, name, &r_terms[i], true);',
    # Vec index: panics when `=` has fewer than two operands (the parsers build two); a panic is no return
    ('built_in_predicates.rs::next_solution_bip', '&terms[0]'): 'vec_at(terms, 0)',
    ('built_in_predicates.rs::next_solution_bip', '&terms[1]'): 'vec_at(terms, 1)',
    ('rule_reader.rs::read_facts_and_rules', 'line_reader(file_name)'): 'verif_line_reader(file_name)',
    ('rule_reader.rs::read_facts_and_rules', 'long_line += &line;'): 'str_append_line(&mut long_line, &line);',
}


def sig_seq0(toks, k, n, hi):
    """indices of the next n significant tokens starting at k"""
    res = []
    while len(res) < n and k < hi:
        res.append(k)
        k = next_sig(toks, k)
    return res


def norm_ws(s):
    return re.sub(r'\s+', ' ', s).strip()


TIGHT = '{}()[],:;'


def norm_tight(s):
    # anchors are compared with white space collapsed AND dropped next to brackets and separators, on both sides:
    # `X{a: b}` and `X { a: b }` (rustfmt) are the same text (8.54)
    # ... and a trailing comma before a closing bracket is dropped (`X{a: b,}` - rustfmt's vertical layout)
    return re.sub(r',([})\]])', r'\1', re.sub(r' ?([{}()\[\],:;]) ?', r'\1', norm_ws(s)))


class FnEmitter:
    def __init__(self, repo, srcfile, fnpath, mode, counts, info, canary=False, heap_fns=(), nocontract=False):
        self.canary = canary
        self.heap_fns = set(heap_fns)
        self.nocontract = nocontract
        self.repo = repo
        self.srcfile = srcfile
        self.fnpath = fnpath
        self.mode = mode  # prove | stub
        self.counts = counts
        self.info = info

    def emit(self, out):
        src, item = self.repo.find(self.srcfile, 'fn', self.fnpath)
        text = src[item.start:item.end]
        base_line = lineno(src, item.start)
        toks = lex(text)
        cpath = contract_path(self.srcfile, self.fnpath)
        if self.nocontract == 'overlay':
            # unit directive `stub-overlay`: the callee is seen through the clauses of the unit's overlay contract only
            # (its base contract speaks a vocabulary the unit does not include)
            con = Contract(cpath, overlay_only=True)
        else:
            con = Contract(cpath if not self.nocontract else cpath + '.none')
        key = '%s::%s' % (self.srcfile, self.fnpath)
        rel_c = os.path.relpath(cpath, VERIF)

        # locate fn body
        kfn = next(k for k, t in enumerate(toks) if t.kind == 'id' and t.text == 'fn')
        bopen = find_body_open(toks, kfn)
        bclose = match_close(toks, bopen)

        edits = []   # (start, end, replacement_text, origin or None)

        def src_origin_for(off):
            return {'k': 'src', 'file': self.srcfile, 'line': base_line + text.count('\n', 0, off), 'fn': key}

        def contract_block(section):
            """returns list of (text_line, origin)"""
            sec = con.get(section)
            res = []
            if not sec:
                return res
            label = None
            props = []
            for item in sec:
                ln, l = item[0], item[1]
                m = LABEL_RE.search(l)
                if m and l.strip().startswith('//'):
                    label = m.group(1)
                    props = [p.strip() for p in (m.group(2) or '').split(',') if p.strip()]
                res.append((l, {'k': 'contract', 'file': (item[2] if len(item) > 2 else rel_c), 'line': ln, 'fn': key,
                                'section': section, 'label': label, 'props': props,
                                'text': l.strip()}))
            return res

        def block_text(section):
            b = contract_block(section)
            return b

        # R9: a parameter with the function's own name is alpha-renamed (Verus cannot attach
        # `ensures` to `fn f(f: T)`); every identifier token `f` other than the fn name is renamed.
        fname_tok = next_sig(toks, kfn)
        fname = toks[fname_tok].text
        popen = None
        for k in range(fname_tok + 1, bopen):
            if toks[k].kind == 'p' and toks[k].text == '(':
                popen = k
                break
        if popen is not None:
            pclose = match_close(toks, popen)
            is_param = any(toks[k].kind == 'id' and toks[k].text == fname and toks[next_sig(toks, k)].text == ':'
                           for k in range(popen, pclose))
            if is_param:
                if any(t.kind == 'id' and t.text == fname + '_' for t in toks):
                    raise Undecided('cannot alpha-rename parameter %s in %s' % (fname, key))
                for k, t in enumerate(toks):
                    if t.kind == 'id' and t.text == fname and k != fname_tok and k <= bclose:
                        nx = next_sig(toks, k)
                        if self.mode == 'stub' and k > bopen:
                            continue
                        edits.append((t.start, t.end, fname + '_', None))
                self.counts['R9'] = self.counts.get('R9', 0) + 1

        # R15a: a function that works on solution nodes (unit directive `heap-functions`) gets the ghost node heap as
        # its last parameter.
        in_heap = fname in self.heap_fns or ('.' + fname) in self.heap_fns
        if in_heap:
            if popen is None:
                raise Undecided('cannot find the parameter list of %s' % key)
            pclose = match_close(toks, popen)
            lastp = prev_sig(toks, pclose)
            sep = '' if toks[lastp].text in ('(', ',') else ', '
            # contract option `[opt ghost_params = Ghost(x): Ghost<T>, ..]`: ghost parameters of a method that works on the node it is
            # called on (R17: the identity of `self` in the node heap)
            gp = con.opts.get('ghost_params')
            extra = (gp + ', ') if gp else ''
            edits.append((toks[pclose].start, toks[pclose].start, sep + extra + 'Tracked(heap): Tracked<&mut Heap>', None))
            self.counts['R15'] = self.counts.get('R15', 0) + 1

        # R7: name the result
        arrow = None
        depth = 0
        for k in range(kfn, bopen):
            t = toks[k]
            if t.kind == 'p':
                if t.text in '([':
                    depth += 1
                elif t.text in ')]':
                    depth -= 1
                elif t.text == '-' and depth == 0 and toks[k + 1].kind == 'p' and toks[k + 1].text == '>':
                    arrow = k
                    break
        resname = con.opts.get('result', 'res')
        if arrow is not None:
            ts = next_sig(toks, arrow + 1)
            te = prev_sig(toks, bopen)
            # where clause? not supported
            for k in range(ts, te + 1):
                if toks[k].kind == 'id' and toks[k].text == 'where':
                    raise Undecided('unsupported construct: where clause on %s' % key)
            tytext = text[toks[ts].start:toks[te].end]
            if tytext.strip() != '!':
                edits.append((toks[ts].start, toks[te].end, '(%s: %s)' % (resname, tytext), None))
                self.counts['R7'] = self.counts.get('R7', 0) + 1

        # signature contract: inserted just before body '{'
        sigblock = block_text('sig')
        if self.mode == 'stub':
            # clauses that are assumed about the callee but cannot be proved in its own unit
            # (they only name the function's own result: "pure function" assumptions)
            sigblock = sigblock + block_text('sig-stub-extra')
        else:
            # clauses proved in the function's own unit that callers do not need (not exported to stubs,
            # so that units which only call the function need not include the vocabulary they use)
            sigblock = sigblock + block_text('sig-prove-extra') + block_text('sig-decreases')
        # several sections contribute clauses: Verus wants all `requires` before all `ensures` before `decreases`
        def regroup(block):
            groups = {'requires': [], 'ensures': [], 'decreases': []}
            cur = None
            pre = []
            for l, o in block:
                kw = l.strip()
                if kw in groups:
                    cur = kw
                    continue
                if cur is None:
                    pre.append((l, o))
                else:
                    groups[cur].append((l, o))
            res = list(pre)
            for kw in ('requires', 'ensures', 'decreases'):
                if groups[kw]:
                    res.append(('    ' + kw, {'k': 'gen', 'fn': key}))
                    res.extend(groups[kw])
            return res
        kws = [l.strip() for l, o in sigblock if l.strip() in ('requires', 'ensures', 'decreases')]
        order = {'requires': 0, 'ensures': 1, 'decreases': 2}
        if len(kws) != len(set(kws)) or any(order[kws[i]] > order[kws[i + 1]] for i in range(len(kws) - 1)):
            sigblock = regroup(sigblock)
        edits.append((toks[bopen].start, toks[bopen].start, ('\n', sigblock, ''), 'block'))

        if self.mode == 'stub':
            # cut the body
            segs = self._apply(text, [e for e in edits if e[0] <= toks[bopen].start], src_origin_for, upto=toks[bopen].start)
            attrs = contract_block('attr')
            hdr = []
            hdr.append(('#[verifier::external_body]', {'k': 'gen', 'fn': key}))
            for l, o in attrs:
                if 'exec_allows_no_decreases_clause' in l:
                    continue
                hdr.append((l, o))
            self._wrap(out, item, hdr, segs + [('{ unimplemented!() }\n', {'k': 'gen', 'fn': key})])
            self.info['functions'].append({'fn': key, 'mode': 'stub', 'contract': rel_c,
                                           'has_contract': bool(con.sections)})
            return

        # ---- prove mode: body rewrites
        r4_before = self.counts.get('R4', 0)
        # strip doc comments inside the function text
        for t in toks:
            if t.kind == 'doc':
                edits.append((t.start, t.end, '', None))

        # R10 ranges are computed first: macro rewrites inside a wrapped expression are not applied
        wrapped = []
        for (wfn, wtext), wrep in EXPR_WRAPPERS.items():
            if wfn != key:
                continue
            body_text0 = text[toks[bopen].end:toks[bclose].start]
            pos0 = body_text0.find(wtext)
            while pos0 >= 0:
                a0 = toks[bopen].end + pos0
                wrapped.append((a0, a0 + len(wtext)))
                pos0 = body_text0.find(wtext, pos0 + 1)

        # macros
        k = kfn
        while k < bclose:
            t = toks[k]
            if t.kind == 'id' and (t.text in MACRO_RULES or t.text in MACRO_FN):
                j = next_sig(toks, k)
                if toks[j].kind == 'p' and toks[j].text == '!':
                    j2 = next_sig(toks, j)
                    if toks[j2].kind == 'p' and toks[j2].text in '([{':
                        cl = match_close(toks, j2)
                        if any(wa <= t.start and toks[cl].end <= wb for wa, wb in wrapped):
                            k = cl + 1
                            continue
                        if t.text in MACRO_RULES:
                            rule, rep = MACRO_RULES[t.text]
                            if t.text == 'print' and fname not in self.heap_fns:
                                raise Undecided('unsupported construct: print! outside a heap function in %s' % key)
                            if t.text == 'print':
                                # print!("{}", E) keeps its text: verif_print_text(&(E), ..)
                                inner = [i for i in range(j2 + 1, cl) if toks[i].kind not in ('ws', 'comment', 'doc')]
                                if len(inner) >= 3 and toks[inner[0]].kind == 'str' and toks[inner[0]].text == '"{}"' and toks[inner[1]].text == ',':
                                    edits.append((t.start, toks[inner[1]].end, 'verif_print_text(&(', None))
                                    edits.append((toks[cl].start, toks[cl].end, '), Tracked(heap))', None))
                                    self.counts['R16'] = self.counts.get('R16', 0) + 1
                                    k = inner[1] + 1
                                    continue
                            if t.text == 'panic' and con.opts.get('panics') == 'diverge':
                                # contract option `[opt panics = diverge]`: the function's claims are about calls that return;
                                # a panic! is a call that does not (reported in the evidence as R2d)
                                rule, rep = 'R2d', 'verif_diverge()'
                            edits.append((t.start, toks[cl].end, rep, None))
                            self.counts[rule] = self.counts.get(rule, 0) + 1
                            k = cl + 1
                            continue
                        else:
                            # R5: name!(E) -> name(&(E))   (the argument is only borrowed by the macro:
                            # `$st.chars()` / `$chrs.iter()`; the function takes &str / &[char])
                            edits.append((toks[j].start, toks[j].end, '', None))
                            edits.append((toks[j2].end, toks[j2].end, '&(', None))
                            edits.append((toks[cl].start, toks[cl].start, ')', None))
                            self.counts['R5'] = self.counts.get('R5', 0) + 1
            k += 1

        # R10: expression wrappers -- an expression for which Verus has no specification is wrapped,
        # verbatim, into an external function whose `requires` is the expression's panic condition
        # (table EXPR_WRAPPERS; each entry is keyed by function and exact text).
        for (wfn, wtext), wrep in EXPR_WRAPPERS.items():
            if wfn != key:
                continue
            body_text = text[toks[bopen].end:toks[bclose].start]
            pos = body_text.find(wtext)
            while pos >= 0:
                a0 = toks[bopen].end + pos
                edits.append((a0, a0 + len(wtext), wrep, None))
                self.counts['R10'] = self.counts.get('R10', 0) + 1
                pos = body_text.find(wtext, pos + 1)

        # R11: `recv.starts_with(ARG)` / `recv.ends_with(ARG)` / `recv.contains(ARG)` on an identifier receiver (a str / String):
        # str::starts_with is generic over the unstable Pattern trait and cannot be given a Verus
        # specification; the call is turned into a call of an external, total function
        # str_<method>_<lit|char|string>(&recv, ARG) (spec/chars.rs), chosen by the shape of ARG.
        k = bopen
        while k < bclose:
            t = toks[k]
            if t.kind == 'id' and t.text in ('starts_with', 'ends_with', 'contains'):
                pd = prev_sig(toks, k)
                pr = prev_sig(toks, pd)
                nx = next_sig(toks, k)
                if toks[pd].kind == 'p' and toks[pd].text == '.' and toks[pr].kind == 'id' and toks[nx].text == '(':
                    ppr = prev_sig(toks, pr)
                    if not (toks[ppr].kind == 'p' and toks[ppr].text == '.'):
                        cl = match_close(toks, nx)
                        a1 = next_sig(toks, nx)
                        kind = 'lit' if toks[a1].kind == 'str' else ('char' if toks[a1].kind == 'char' else 'string')
                        edits.append((toks[pr].start, toks[nx].end, 'str_%s_%s(&%s, ' % (t.text, kind, toks[pr].text), None))
                        self.counts['R11'] = self.counts.get('R11', 0) + 1
                        k = cl
            k += 1

        # R12: `IDENT as f64` / `*IDENT as f64` -> i64_to_f64(IDENT) / i64_to_f64(*IDENT).  The exec cast is
        # nondeterministic in Verus (two casts of the same integer are not provably equal); the
        # wrapper (spec/compare.rs) says the cast is a function of the integer (spec i2f).  An operand
        # that is not an i64 makes the generated file ill-typed (tool limit), never a pass.
        def primary_start(e):
            """index of the first token of the postfix/primary expression ending at token e, or None"""
            cur = e
            while True:
                if toks[cur].kind == 'p' and toks[cur].text in (')', ']'):
                    opener = '(' if toks[cur].text == ')' else '['
                    depth = 0
                    j = cur
                    while j > bopen:
                        if toks[j].kind == 'p' and toks[j].text in (')', ']'):
                            depth += 1
                        elif toks[j].kind == 'p' and toks[j].text in ('(', '['):
                            depth -= 1
                            if depth == 0:
                                break
                        j -= 1
                    if depth != 0 or toks[j].text != opener:
                        return None
                    cur = j
                    pj = prev_sig(toks, cur)
                    if toks[pj].kind == 'id' and toks[pj].text not in ('if', 'while', 'match', 'return', 'in', 'as', 'let', 'else'):
                        cur = pj        # call or index: f(..) / v[..]
                    elif toks[cur].text == '[':
                        return None
                    else:
                        pass            # parenthesised group
                elif toks[cur].kind in ('id', 'num'):
                    pass
                else:
                    return None
                pj = prev_sig(toks, cur)
                if toks[pj].kind == 'p' and toks[pj].text in ('.', '::'):
                    cur = prev_sig(toks, pj)
                    continue
                return cur

        k = bopen
        while k < bclose:
            t = toks[k]
            if t.kind == 'id' and t.text == 'as':
                nx = next_sig(toks, k)
                pv = prev_sig(toks, k)
                if toks[nx].kind == 'id' and toks[nx].text == 'f64':
                    st = primary_start(pv)
                    if st is not None:
                        start = toks[st].start
                        pp = prev_sig(toks, st)
                        if toks[pp].kind == 'p' and toks[pp].text in ('*', '-'):
                            ppp = prev_sig(toks, pp)
                            unary = not ((toks[ppp].kind == 'id' and toks[ppp].text not in ('if', 'while', 'match', 'return', 'in', 'let', 'else', 'as', 'mut')) or toks[ppp].kind == 'num' or (toks[ppp].kind == 'p' and toks[ppp].text in (')', ']')))
                            if unary:
                                start = toks[pp].start
                        edits.append((start, start, 'i64_to_f64(', None))
                        edits.append((toks[pv].end, toks[nx].end, ')', None))
                        self.counts['R12'] = self.counts.get('R12', 0) + 1
            k += 1


        # R19: `String::from(E)` -> `verif_string_from(E)` (spec/std_eq.rs: the string of the characters of E).  vstd has no
        # specification of `<String as From<&str>>::from` and Verus cannot be given one (its signature carries an impl-level
        # lifetime binder assume_specification cannot name), so the result was an arbitrary string (8.53)
        for k in range(bopen + 1, bclose - 4):
            if toks[k].kind == 'id' and toks[k].text == 'String' and not any(wa <= toks[k].start < wb for wa, wb in wrapped):
                a = next_sig(toks, k)
                a2 = next_sig(toks, a)
                b = next_sig(toks, a2)
                c = next_sig(toks, b)
                pk = prev_sig(toks, k)
                if toks[a].text == ':' and toks[a2].text == ':' and toks[b].kind == 'id' and toks[b].text == 'from' and toks[c].text == '(' \
                        and not (toks[pk].kind == 'p' and toks[pk].text == ':'):
                    edits.append((toks[k].start, toks[b].end, 'verif_string_from', None))
                    self.counts['R19'] = self.counts.get('R19', 0) + 1

        # R15: the node heap.  `Rc<RefCell<SolutionNode>>` cannot be declared to Verus (RefCell has no specification, the
        # nodes form a graph with parent links).  In a function named by the unit directive `heap-functions` the contents
        # of the nodes are kept in a ghost heap (spec/solver.rs) that is passed along, and every access through the
        # RefCell is turned into a call of an accessor whose contract says what the access does to that heap:
        #   R15a  signature:   f(args)                        -> f(args, Tracked(heap): Tracked<&mut Heap>)
        #   R15b  call:        g(args), g a heap function     -> g(args, Tracked(heap))
        #   R15c  borrow:      let mut R = N.borrow_mut();    -> nd_borrow_mut(&N, Tracked(heap));     (R stands for N from here on)
        #   R15d  write:       R.F = E;   /  R.F += E;        -> nd_set_F(&N, E, Tracked(heap));  /  nd_set_F(&N, nd_F(&N, Tracked(&*heap)) + (E), Tracked(heap));
        #   R15e  read:        R.F   /  R.M()                 -> nd_F(&N, Tracked(&*heap))  /  nd_call_M(&N, Tracked(heap))
        #   R15f  short read:  N.borrow().F                   -> nb_F(&N, Tracked(&*heap))
        #   R15g  scope end:   the block in which R is declared must not be left by falling through: nd_scope_end()
        #         (requires false) is placed at its end - the RefMut is dropped at a `return` in all the functions concerned,
        #         and the contract releases the ghost lock there ([at returns-value]).
        if in_heap or self.heap_fns:
            k = bopen
            while k < bclose:
                t = toks[k]
                if t.kind == 'id' and (t.text in self.heap_fns or ('.' + t.text) in self.heap_fns):
                    pv = prev_sig(toks, k)
                    nx = next_sig(toks, k)
                    is_method = toks[pv].kind == 'p' and toks[pv].text == '.' and ('.' + t.text) in self.heap_fns
                    if toks[nx].kind == 'p' and toks[nx].text == '(' and (is_method or not (toks[pv].kind == 'p' and toks[pv].text in ('.', '::'))) and not (toks[pv].kind == 'id' and toks[pv].text == 'fn'):
                        if not in_heap:
                            raise Undecided('unsupported construct: %s calls the heap function %s but is not a heap function itself' % (key, t.text))
                        cl = match_close(toks, nx)
                        lastp = prev_sig(toks, cl)
                        sep = '' if toks[lastp].text in ('(', ',') else ', '
                        edits.append((toks[cl].start, toks[cl].start, sep + 'Tracked(heap)', None))
                        self.counts['R15'] = self.counts.get('R15', 0) + 1
                        # contract sections [before heap-call F] / [after heap-call F]: around the statement that contains the call,
                        # when that statement is `let .. = F(..);` or `F(..);`
                        bc = block_text('before heap-call %s' % t.text)
                        ac = block_text('after heap-call %s' % t.text)
                        if bc or ac:
                            nx2 = next_sig(toks, cl)
                            q0 = k - 1
                            depth0 = 0
                            while q0 > bopen:
                                tq = toks[q0]
                                if tq.kind == 'p' and tq.text in ')]':
                                    depth0 += 1
                                elif tq.kind == 'p' and tq.text in '([':
                                    depth0 -= 1
                                elif tq.kind == 'p' and tq.text in (';', '{', '}') and depth0 <= 0:
                                    break
                                q0 -= 1
                            first = next_sig(toks, q0)
                            simple = toks[nx2].kind == 'p' and toks[nx2].text == ';' and (first == k or (toks[first].kind == 'id' and toks[first].text == 'let'))
                            is_ret = toks[first].kind == 'id' and toks[first].text == 'return' and next_sig(toks, first) == k
                            if is_ret:
                                # `return F(..);`: the block for before the call goes before the statement; what follows the call is
                                # the function's exit, where the [at returns-value] block of the contract stands
                                if bc:
                                    edits.append((toks[first].start, toks[first].start, ('', bc, '\n'), 'block'))
                                k += 1
                                continue
                            if not simple:
                                raise Undecided('unsupported construct: the call of %s in %s is not a statement of its own (contract has [before/after heap-call %s])' % (t.text, key, t.text))
                            if bc:
                                edits.append((toks[first].start, toks[first].start, ('', bc, '\n'), 'block'))
                            if ac:
                                # $RES stands for the name bound by `let NAME = F(..);`
                                resname = toks[next_sig(toks, first)].text if (toks[first].kind == 'id' and toks[first].text == 'let') else 'verif_no_result'
                                edits.append((toks[nx2].end, toks[nx2].end, ('\n', [(l.replace('$RES', resname), o) for l, o in ac], ''), 'block2'))
                k += 1
        scope_end_at_bclose = False
        if in_heap:
            # R15h  allocation:  rc_cell!(E)  ->  nd_alloc(E, Ghost(verif_depth), Ghost(verif_call_depth), Tracked(heap))
            #       (Rc::new(RefCell::new(E)): a new node with the contents E; the two ghost values are declared by the contract)
            k = bopen
            while k < bclose:
                t = toks[k]
                if t.kind == 'id' and t.text == 'rc_cell':
                    j = next_sig(toks, k)
                    j2 = next_sig(toks, j)
                    if toks[j].text == '!' and toks[j2].text == '(':
                        cl = match_close(toks, j2)
                        edits.append((t.start, toks[j2].end, 'nd_alloc(', None))
                        edits.append((toks[cl].start, toks[cl].start, ', Ghost(verif_depth), Ghost(verif_call_depth), Tracked(heap)', None))
                        self.counts['R15'] = self.counts.get('R15', 0) + 1
                        # contract section [after heap-alloc]: after a statement `let NAME = rc_cell!(..);` ($NODE stands for NAME)
                        aa = block_text('after heap-alloc')
                        if aa:
                            b4 = [prev_sig(toks, k)]
                            for _ in range(2):
                                b4.append(prev_sig(toks, b4[-1]))
                            nxa = next_sig(toks, cl)
                            if toks[b4[0]].text == '=' and toks[b4[1]].kind == 'id' and toks[b4[2]].text == 'let' and toks[nxa].text == ';':
                                nm = toks[b4[1]].text
                                edits.append((toks[nxa].end, toks[nxa].end, ('\n', [(l.replace('$NODE', nm), o) for l, o in aa], ''), 'block2'))
                        k = j2
                k += 1
        if in_heap:
            refmuts = {}
            k = bopen
            while k < bclose:
                t = toks[k]
                # R15c
                if t.kind == 'id' and t.text == 'let':
                    sq = sig_seq0(toks, k, 11, bclose)
                    tx = [toks[i].text for i in sq]
                    if len(tx) >= 10 and tx[1] == 'mut' and tx[3] == '=' and tx[5:10] == ['.', 'borrow_mut', '(', ')', ';'] and toks[sq[2]].kind == 'id' and toks[sq[4]].kind == 'id':
                        R, N = tx[2], tx[4]
                        if R in refmuts and refmuts[R] != N:
                            raise Undecided('unsupported construct: two RefMut bindings named %s in %s' % (R, key))
                        refmuts[R] = N
                        edits.append((t.start, toks[sq[9]].end, 'nd_borrow_mut(&%s, Tracked(heap));' % N, None))
                        self.counts['R15'] = self.counts.get('R15', 0) + 1
                        ab = block_text('after heap-borrow')
                        if ab:
                            edits.append((toks[sq[9]].end, toks[sq[9]].end, ('\n', ab, ''), 'block2'))
                        # R15g: end of the enclosing block
                        depth = 0
                        q = k
                        while q < bclose:
                            tq = toks[q]
                            if tq.kind == 'p' and tq.text == '{':
                                depth += 1
                            elif tq.kind == 'p' and tq.text == '}':
                                if depth == 0:
                                    break
                                depth -= 1
                            q += 1
                        lastq = prev_sig(toks, q)
                        semi = '' if toks[lastq].text in (';', '}', '{') else ';'
                        if q == bclose and arrow is None:
                            # a function without a result whose body declares the RefMut: it is dropped at the end of the body
                            edits.append((toks[q].start, toks[q].start, semi + ' nd_release(&%s, Tracked(heap)); ' % N, None))
                        else:
                            edits.append((toks[q].start, toks[q].start, semi + ' nd_scope_end() ', None))
                        if q == bclose:
                            scope_end_at_bclose = True
                        k = sq[9]
                k += 1
            # R15c'  a RefMut that lives for one statement:  N.borrow_mut().F = E;  ->  { nd_borrow_mut(&N, ..); nd_set_F(&N, E, ..); nd_release(&N, ..); }
            k = bopen
            while k < bclose:
                t = toks[k]
                if t.kind == 'id' and t.text == 'borrow_mut':
                    pd = prev_sig(toks, k)
                    pn = prev_sig(toks, pd)
                    ppn = prev_sig(toks, pn)
                    sq = sig_seq0(toks, k, 6, bclose)
                    tx = [toks[i].text for i in sq]
                    if (toks[pd].text == '.' and toks[pn].kind == 'id' and toks[ppn].kind == 'p' and toks[ppn].text in (';', '{', '}')
                            and len(tx) >= 6 and tx[1:4] == ['(', ')', '.'] and toks[sq[4]].kind == 'id' and tx[5] == '='
                            and not (toks[next_sig(toks, sq[5])].text == '=' and toks[next_sig(toks, sq[5])].start == toks[sq[5]].end)):
                        N, F = toks[pn].text, tx[4]
                        q = sq[5]
                        depth = 0
                        while q < bclose:
                            tq = toks[q]
                            if tq.kind == 'p' and tq.text in '([{':
                                depth += 1
                            elif tq.kind == 'p' and tq.text in ')]}':
                                depth -= 1
                            elif tq.kind == 'p' and tq.text == ';' and depth == 0:
                                break
                            q += 1
                        edits.append((toks[pn].start, toks[sq[5]].end, '{ nd_borrow_mut(&%s, Tracked(heap)); nd_set_%s(&%s,' % (N, F, N), None))
                        edits.append((toks[q].start, toks[q].end, ', Tracked(heap)); nd_release(&%s, Tracked(heap)); }' % N, None))
                        self.counts['R15'] = self.counts.get('R15', 0) + 1
                        k = q
                k += 1
            k = bopen
            while k < bclose:
                t = toks[k]
                if t.kind == 'id' and t.text in refmuts:
                    pv = prev_sig(toks, k)
                    d = next_sig(toks, k)
                    if toks[d].kind == 'p' and toks[d].text == '.' and not (toks[pv].kind == 'p' and toks[pv].text == '.'):
                        f = next_sig(toks, d)
                        N = refmuts[t.text]
                        if toks[f].kind != 'id':
                            raise Undecided('unsupported construct: use of the RefMut %s in %s' % (t.text, key))
                        F = toks[f].text
                        a = next_sig(toks, f)
                        stmt_start = toks[pv].kind == 'p' and toks[pv].text in (';', '{', '}')
                        a2 = next_sig(toks, a)
                        is_assign = toks[a].kind == 'p' and toks[a].text == '=' and not (toks[a2].kind == 'p' and toks[a2].text == '=' and toks[a2].start == toks[a].end)
                        is_plus = toks[a].kind == 'p' and toks[a].text == '+' and toks[a2].kind == 'p' and toks[a2].text == '=' and toks[a2].start == toks[a].end
                        if stmt_start and (is_assign or is_plus):
                            # R15d: find the terminating ';' at depth 0
                            q = a2 if is_assign else next_sig(toks, a2)
                            depth = 0
                            while q < bclose:
                                tq = toks[q]
                                if tq.kind == 'p' and tq.text in '([{':
                                    depth += 1
                                elif tq.kind == 'p' and tq.text in ')]}':
                                    depth -= 1
                                elif tq.kind == 'p' and tq.text == ';' and depth == 0:
                                    break
                                q += 1
                            if is_assign:
                                edits.append((t.start, toks[a].end, 'nd_set_%s(&%s,' % (F, N), None))
                                edits.append((toks[q].start, toks[q].end, ', Tracked(heap));', None))
                            else:
                                edits.append((t.start, toks[a2].end, 'nd_set_%s(&%s, nd_%s(&%s, Tracked(&*heap)) + (' % (F, N, F, N), None))
                                edits.append((toks[q].start, toks[q].end, '), Tracked(heap));', None))
                            self.counts['R15'] = self.counts.get('R15', 0) + 1
                            # contract sections [before heap-write] / [after heap-write] are placed around every such write
                            bw = block_text('before heap-write')
                            if bw:
                                edits.append((t.start, t.start, ('', bw, '\n'), 'block'))
                            aw = block_text('after heap-write')
                            if aw:
                                edits.append((toks[q].end, toks[q].end, ('\n', aw, ''), 'block2'))
                            k = a2
                        elif toks[a].kind == 'p' and toks[a].text == '(':
                            cl = match_close(toks, a)
                            if next_sig(toks, a) != cl:
                                raise Undecided('unsupported construct: method call with arguments on the RefMut %s in %s' % (t.text, key))
                            edits.append((t.start, toks[cl].end, 'nd_call_%s(&%s, Tracked(heap))' % (F, N), None))
                            self.counts['R15'] = self.counts.get('R15', 0) + 1
                            # contract sections [before heap-method F] / [after heap-method F] around the statement `R.F();`
                            bm = block_text('before heap-method %s' % F)
                            am = block_text('after heap-method %s' % F)
                            nxm = next_sig(toks, cl)
                            if (bm or am) and stmt_start and toks[nxm].kind == 'p' and toks[nxm].text == ';':
                                if bm:
                                    edits.append((t.start, t.start, ('', bm, '\n'), 'block'))
                                if am:
                                    edits.append((toks[nxm].end, toks[nxm].end, ('\n', am, ''), 'block2'))
                            elif bm or am:
                                raise Undecided('unsupported construct: %s.%s() in %s is not a statement of its own' % (t.text, F, key))
                            k = cl
                        else:
                            # R15e
                            edits.append((t.start, toks[f].end, 'nd_%s(&%s, Tracked(&*heap))' % (F, N), None))
                            self.counts['R15'] = self.counts.get('R15', 0) + 1
                            k = f
                    elif not (toks[pv].kind == 'p' and toks[pv].text == '.') and not (toks[pv].kind == 'id' and toks[pv].text == 'mut'):
                        raise Undecided('unsupported construct: the RefMut %s is used as a value in %s' % (t.text, key))
                # R15f
                if t.kind == 'id' and t.text == 'borrow':
                    pd = prev_sig(toks, k)
                    pn = prev_sig(toks, pd)
                    sq = sig_seq0(toks, k, 5, bclose)
                    tx = [toks[i].text for i in sq]
                    if toks[pd].text == '.' and toks[pn].kind == 'id' and len(tx) >= 5 and tx[1:4] == ['(', ')', '.'] and toks[sq[4]].kind == 'id':
                        ppn = prev_sig(toks, pn)
                        if not (toks[ppn].kind == 'p' and toks[ppn].text == '.'):
                            edits.append((toks[pn].start, toks[sq[4]].end, 'nb_%s(&%s, Tracked(&*heap))' % (tx[4], toks[pn].text), None))
                            self.counts['R15'] = self.counts.get('R15', 0) + 1
                            k = sq[4]
                k += 1

        isolated = not any('loop_isolation(false)' in it[1] for it in (con.get('attr') or []))

        # R13: `RECV.iter().fold(INIT, |mut ACC, &X| {ACC OP= X; ACC})` -> the loop that Iterator::fold is
        # defined as (core: `let mut accum = init; for x in self { accum = f(accum, x); } accum`), with the
        # closure body inlined and the compound assignment written out (`ACC = ACC OP X`; Verus's front
        # end crashes on compound assignment to an f64).  Only this exact closure shape is rewritten; any other
        # closure passed to fold stays as it is and makes the unit UNDECIDED (closures in iterator
        # adapters are outside the Verus subset).  The operator, its operand order, the start value and the
        # receiver are copied from the source.  Contract sections: [fold K iter=NAME] (invariants),
        # [at foldK.start], [at foldK.end], [after foldK].
        def sig_seq(k, n):
            res = []
            while len(res) < n and k < bclose:
                res.append(k)
                k = next_sig(toks, k)
            return res
        k = bopen
        nfold = 0
        while k < bclose:
            t = toks[k]
            if t.kind == 'id' and t.text == 'fold':
                pd = prev_sig(toks, k)
                s = sig_seq(k, 40)
                tx = [toks[i].text for i in s]
                # back: RECV . iter ( ) . fold
                b5 = [pd]
                for _ in range(5):
                    b5.append(prev_sig(toks, b5[-1]))
                back = [toks[i].text for i in b5]      # '.', ')', '(', 'iter', '.', RECV
                ok = back[:5] == ['.', ')', '(', 'iter', '.'] and toks[b5[5]].kind == 'id'
                recv_idx = b5[5]
                if ok and tx[1] == '(':
                    cl = match_close(toks, s[1])
                    # INIT = tokens up to the first top-level comma
                    q = next_sig(toks, s[1])
                    depth = 0
                    init_start = q
                    while q < cl:
                        tq = toks[q]
                        if tq.kind == 'p':
                            if tq.text in '([{':
                                depth += 1
                            elif tq.text in ')]}':
                                depth -= 1
                            elif tq.text == ',' and depth == 0:
                                break
                        q += 1
                    init_text = text[toks[init_start].start:toks[prev_sig(toks, q)].end]
                    c = sig_seq(next_sig(toks, q), 16)
                    ct = [toks[i].text for i in c]
                    # | mut ACC , & X | { ACC OP = X ; ACC } )
                    shape = (len(ct) >= 16 and ct[0] == '|' and ct[1] == 'mut' and ct[3] == ',' and ct[4] == '&' and ct[6] == '|'
                             and ct[7] == '{' and ct[8] == ct[2] and ct[9] in ('+', '-', '*', '/') and ct[10] == '='
                             and ct[11] == ct[5] and ct[12] == ';' and ct[13] == ct[2] and ct[14] == '}' and c[15] == cl
                             and toks[c[2]].kind == 'id' and toks[c[5]].kind == 'id')
                    if shape:
                        acc, xv, op = ct[2], ct[5], ct[9]
                        sec = None
                        itername = 'fold_it%d' % nfold
                        for sname in con.sections:
                            m = re.match(r'^fold\s+%d(\s+iter=([A-Za-z_][A-Za-z0-9_]*))?$' % nfold, sname)
                            if m:
                                sec = sname
                                if m.group(2):
                                    itername = m.group(2)
                        a0 = toks[recv_idx].start
                        b0 = toks[cl].end
                        recv = toks[recv_idx].text
                        edits.append((a0, b0, '{ let mut %s = %s; for %s in %s: %s.iter()' % (acc, init_text, xv, itername, recv), None))
                        def fsub(blk, acc=acc, xv=xv):
                            # $ACC / $X in fold sections stand for the closure's parameter names
                            return [(l.replace('$ACC', acc).replace('$X', xv), o) for l, o in blk]
                        if sec:
                            edits.append((b0, b0, ('\n', fsub(block_text(sec)), ''), 'block2'))
                        edits.append((b0, b0, ('', [], '{ '), 'block2'))
                        if self.canary == 'B' and not isolated:
                            edits.append((b0, b0, ('\n', [('assert(false); // CANARY', {'k': 'canary', 'fn': key, 'where': 'fold%d' % nfold})], ''), 'block2'))
                        st = block_text('at fold%d.start' % nfold)
                        if st:
                            edits.append((b0, b0, ('\n', fsub(st), ''), 'block2'))
                        edits.append((b0, b0, ('', [], 'let %s = *%s; %s = %s %s %s; ' % (xv, xv, acc, acc, op, xv)), 'block2'))
                        en = block_text('at fold%d.end' % nfold)
                        if en:
                            edits.append((b0, b0, ('\n', fsub(en), ''), 'block2'))
                        edits.append((b0, b0, ('', [], '} '), 'block2'))
                        af = block_text('after fold%d' % nfold)
                        if af:
                            edits.append((b0, b0, ('\n', fsub(af), ''), 'block2'))
                        edits.append((b0, b0, ('', [], '%s }' % acc), 'block2'))
                        self.counts['R13'] = self.counts.get('R13', 0) + 1
                        nfold += 1
                        k = cl
            k += 1
        for sname in con.sections:
            m = re.match(r'^(?:fold\s+(\d+)|at fold(\d+)\.(?:start|end)|after fold(\d+))', sname)
            if m:
                n = int(next(g for g in m.groups() if g is not None))
                if n >= nfold:
                    raise Undecided('lost anchor in %s: contract section [%s] but the source has %d fold(..) calls of the R13 shape' % (key, sname, nfold))

        loops = loop_heads(toks, bopen + 1, bclose)
        # R18: the short plain string literals of the body are REVEALED (a string literal is opaque to the verifier until
        # `reveal_strlit` states its characters) at the start of the body and of every loop body, so that what a literal IS does
        # not depend on a contract having revealed that very literal (`long_line += " "` for `long_line.push(' ')`, 8.52)
        lits = []
        for t in toks[bopen + 1:bclose]:
            if t.kind == 'str' and t.text.startswith('"') and t.text.endswith('"') and len(t.text) <= 18 \
                    and '\\' not in t.text and '{' not in t.text and '}' not in t.text and '\n' not in t.text and t.text not in lits:
                lits.append(t.text)
        strlit_reveal = ('proof { %s }' % ' '.join('reveal_strlit(%s);' % l for l in lits[:12])) if lits else ''
        if not isolated and loops:
            self.info.setdefault('non_isolated', []).append(key)
        if con.expect_loops is not None and con.expect_loops != len(loops):
            raise Undecided('loop structure changed in %s: contract expects %d loops, source has %d'
                            % (key, con.expect_loops, len(loops)))
        # loop names:  [name L = loop "header text" #k]   ('?=' makes the loop optional)
        headers = [norm_tight(text[toks[lp['kw_idx']].start:toks[lp['open_idx']].start]) for lp in loops]
        aliases = {i: [str(i)] for i in range(len(loops))}
        missing_names = set()
        for sname in list(con.sections) + list(con.opts):
            pass
        for nm, (pat, occ, optional) in con.loopnames.items():
            hits = [i for i, h in enumerate(headers) if h == norm_tight(pat)]
            if occ < len(hits):
                aliases[hits[occ]].append(nm)
            elif optional:
                missing_names.add(nm)
            else:
                raise Undecided('lost anchor in %s: loop %s (%r #%d) not found; loop headers are %r'
                                % (key, nm, pat, occ, headers))
        # every loop-related section must refer to an existing loop
        known = set(a for al in aliases.values() for a in al) | missing_names
        for sname in con.sections:
            ref = None
            m = re.match(r'^loop\s+(\S+)', sname)
            if m:
                ref = m.group(1)
            m = re.match(r'^at\s+(\S+)\.(start|end)$', sname)
            if m:
                ref = m.group(1)
            m = re.match(r'^(before|after)\s+([A-Za-z_][A-Za-z0-9_]*)$', sname)
            if m:
                ref = m.group(2)
            if ref is None or ref == 'body' or re.match(r'^fold\d+$', ref):
                continue
            if re.match(r'^loop\d+$', ref):
                ref = ref[4:]
            if ref.isdigit():
                if int(ref) >= len(loops):
                    raise Undecided('loop structure changed in %s: contract section [%s] but source has %d loops' % (key, sname, len(loops)))
            elif ref not in known:
                raise Undecided('contract %s refers to unknown loop name in [%s]' % (rel_c, sname))

        def sec_for(prefix, li, suffix=''):
            """find the section for loop li under any of its aliases"""
            for a in aliases[li]:
                for s in con.sections:
                    if suffix:
                        if s == '%s %s%s' % (prefix, a, suffix) or s == '%s%s%s' % (prefix, a, suffix):
                            return s
                    else:
                        if s == '%s %s' % (prefix, a) or s.startswith('%s %s ' % (prefix, a)):
                            return s
            return None

        for li, lp in enumerate(loops):
            opn = toks[lp['open_idx']]
            cls = toks[lp['close_idx']]
            inv = []
            itername = None
            s = sec_for('loop', li)
            if s:
                inv = block_text(s)
                m = re.search(r'iter=([A-Za-z_][A-Za-z0-9_]*)', s)
                if m:
                    itername = m.group(1)
            if lp['enum']:
                ivar, xvar, expr = lp['enum']
                # R3: rewrite header
                kw = toks[lp['kw_idx']]
                edits.append((kw.start, opn.start, 'for %s in 0..%s.len()' % (ivar, expr), None))
                edits.append((opn.end, opn.end, ' let %s = &%s[%s];' % (xvar, expr, ivar), None))
                self.counts['R3'] = self.counts.get('R3', 0) + 1
            elif lp['kw'] == 'for' and itername and any(a in [x.strip() for x in con.opts.get('for_next', '').split(',')] for a in aliases[li]):
                # R14: `for PAT in EXPR { BODY }` over an iterator for which Verus has no for-loop support (an external
                # iterator type: io::Lines) -> `let mut IT = EXPR; loop { let PAT = match IT.next() { Some(v) => v, None => { break; } }; BODY }`,
                # the definition of `for` (IntoIterator::into_iter is the identity on iterators).  Only loops named in
                # the contract option `[opt for_next = NAME]` are rewritten; IT is the name given as iter=IT.
                kw = toks[lp['kw_idx']]
                intok = toks[lp['in_idx']]
                pat = text[toks[next_sig(toks, lp['kw_idx'])].start:toks[prev_sig(toks, lp['in_idx'])].end]
                expr = text[toks[next_sig(toks, lp['in_idx'])].start:toks[prev_sig(toks, lp['open_idx'])].end]
                edits.append((kw.start, opn.start, 'let mut %s = %s; loop ' % (itername, expr), None))
                edits.append((opn.end, opn.end, ('', [], ' let %s = match %s.next() { Some(verif_next_item) => verif_next_item, None => { break; } };' % (pat, itername)), 'block2'))
                self.counts['R14'] = self.counts.get('R14', 0) + 1
            elif lp['kw'] == 'for' and itername:
                # R8: name the iterator
                intok = toks[lp['in_idx']]
                edits.append((intok.end, intok.end, ' %s:' % itername, None))
                self.counts['R8'] = self.counts.get('R8', 0) + 1
            if inv:
                edits.append((opn.start, opn.start, ('\n', inv, ''), 'block'))
            nested = any(toks[o['open_idx']].start < toks[lp['kw_idx']].start < toks[o['close_idx']].start for o in loops if o is not lp)
            if strlit_reveal:
                edits.append((opn.end, opn.end, ('\n', [(strlit_reveal, {'k': 'gen', 'fn': key})], ''), 'block2'))
            if (self.canary == 'A' and isolated) or (self.canary == 'B' and not isolated and not nested):
                edits.append((opn.end, opn.end, ('\n', [('assert(false); // CANARY', {'k': 'canary', 'fn': key, 'where': 'loop%d' % li})], ''), 'block2'))
            for a in aliases[li]:
                st = block_text('at %s.start' % a) or (block_text('at loop%s.start' % a) if a.isdigit() else None)
                if st:
                    edits.append((opn.end, opn.end, ('\n', st, ''), 'block2'))
                en = block_text('at %s.end' % a) or (block_text('at loop%s.end' % a) if a.isdigit() else None)
                if en:
                    edits.append((cls.start, cls.start, ('\n', en, ''), 'block'))
                bf = block_text('before %s' % a) if not a.isdigit() else block_text('before loop%s' % a)
                if bf:
                    kw = toks[lp['kw_idx']]
                    edits.append((kw.start, kw.start, ('\n', bf, ''), 'block'))
                af = block_text('after %s' % a) if not a.isdigit() else block_text('after loop%s' % a)
                if af:
                    edits.append((cls.end, cls.end, ('\n', af, ''), 'block2'))

        if strlit_reveal:
            edits.append((toks[bopen].end, toks[bopen].end, ('\n', [(strlit_reveal, {'k': 'gen', 'fn': key})], ''), 'block2'))
        if self.canary == 'A':
            edits.append((toks[bopen].end, toks[bopen].end, ('\n', [('assert(false); // CANARY', {'k': 'canary', 'fn': key, 'where': 'body'})], ''), 'block2'))
        rt = block_text('at returns')
        if rt:
            # before every `return` statement (statement position only) and at the end of the body
            for k in range(bopen + 1, bclose):
                t = toks[k]
                if t.kind == 'id' and t.text == 'return':
                    pv = prev_sig(toks, k)
                    if not (toks[pv].kind == 'p' and toks[pv].text in ('{', ';', '}')):
                        raise Undecided('unsupported construct: `return` in expression position in %s (contract has [at returns])' % key)
                    edits.append((t.start, t.start, ('', rt, '\n'), 'block'))
            # the end of the body must not be an exit of its own: either the last statement is a `return ..;`, or it is a
            # block statement all of whose paths return - then `unreached()` (requires false) after it is provable, and if
            # the block were a value-producing tail expression the added statement would not type-check (UNDECIDED)
            last = prev_sig(toks, bclose)
            if toks[last].kind == 'p' and toks[last].text == '}':
                edits.append((toks[bclose].start, toks[bclose].start, ('\n', [('    vstd::pervasive::unreached()', {'k': 'gen', 'fn': key})], ''), 'block'))
            elif toks[last].kind == 'p' and toks[last].text == ';':
                q = last - 1
                depth = 0
                first = None
                while q > bopen:
                    tq = toks[q]
                    if tq.kind == 'p' and tq.text in ')]}':
                        if depth == 0 and tq.text == '}':
                            break
                        depth += 1
                    elif tq.kind == 'p' and tq.text in '([{':
                        depth -= 1
                        if depth < 0:
                            break
                    elif tq.kind == 'p' and tq.text == ';' and depth == 0:
                        break
                    elif tq.kind == 'id' and tq.text == 'return' and depth == 0:
                        first = q
                    q -= 1
                if first is None:
                    first = bopen
                if not (toks[first].kind == 'id' and toks[first].text == 'return'):
                    raise Undecided('unsupported construct: %s does not end in a return statement (contract has [at returns])' % key)
            else:
                raise Undecided('unsupported construct: %s ends in a tail expression (contract has [at returns])' % key)
        rtv = block_text('at returns-value')
        if rtv:
            # every `return E` becomes `{ let verif_ret = E; <block>; return verif_ret; }`: the block sees the value that is returned
            # (and runs after E has been evaluated, which is when a local RefMut is dropped)
            for k in range(bopen + 1, bclose):
                t = toks[k]
                if t.kind == 'id' and t.text == 'return':
                    q = next_sig(toks, k)
                    if toks[q].kind == 'p' and toks[q].text in (';', '}', ','):
                        raise Undecided('unsupported construct: `return` without a value in %s (contract has [at returns-value])' % key)
                    depth = 0
                    while q < bclose:
                        tq = toks[q]
                        if tq.kind == 'p' and tq.text in '([{':
                            depth += 1
                        elif tq.kind == 'p' and tq.text in ')]}':
                            if depth == 0:
                                break
                            depth -= 1
                        elif tq.kind == 'p' and tq.text in (';', ',') and depth == 0:
                            break
                        q += 1
                    endtok = prev_sig(toks, q)
                    edits.append((t.start, t.end, '{ let verif_ret =', None))
                    edits.append((toks[endtok].end, toks[endtok].end, ('; \n', rtv, 'return verif_ret; }'), 'block2'))
            last = prev_sig(toks, bclose)
            if scope_end_at_bclose:
                pass
            elif toks[last].kind == 'p' and toks[last].text == '}':
                edits.append((toks[bclose].start, toks[bclose].start, ('\n', [('    vstd::pervasive::unreached()', {'k': 'gen', 'fn': key})], ''), 'block'))
            elif not (toks[last].kind == 'p' and toks[last].text == ';'):
                raise Undecided('unsupported construct: %s ends in a tail expression (contract has [at returns-value])' % key)
        st = block_text('at body.start')
        if st:
            edits.append((toks[bopen].end, toks[bopen].end, ('\n', st, ''), 'block2'))
        en = block_text('at body.end')
        if en:
            edits.append((toks[bclose].start, toks[bclose].start, ('\n', en, ''), 'block'))

        # textual anchors:  [before N "stmt"] / [after N "stmt"]
        for s in con.order:
            m = re.match(r'^(before|after|before-stmt)\s+(\d+)\s+"(.*)"$', s)
            if not m:
                continue
            where, nth, pat = m.group(1), int(m.group(2)), norm_tight(m.group(3))
            body = text[toks[bopen].end:toks[bclose].start]
            # search on whitespace-normalised text, keep offset map
            offs = []
            normed = []
            prev_ws = True
            for idx, ch in enumerate(body):
                if ch in ' \t\r\n':
                    if not prev_ws:
                        normed.append(' ')
                        offs.append(idx)
                    prev_ws = True
                else:
                    normed.append(ch)
                    offs.append(idx)
                    prev_ws = False
            # ... and drop the blanks next to brackets and separators (as norm_tight does for the pattern)
            keep = [i for i, ch in enumerate(normed)
                    if not (ch == ' ' and ((i > 0 and normed[i - 1] in TIGHT) or (i + 1 < len(normed) and normed[i + 1] in TIGHT)))]
            normed = [normed[i] for i in keep]
            offs = [offs[i] for i in keep]
            keep = [i for i, ch in enumerate(normed) if not (ch == ',' and i + 1 < len(normed) and normed[i + 1] in '})]')]
            normed = [normed[i] for i in keep]
            offs = [offs[i] for i in keep]
            ns = ''.join(normed)
            pos = -1
            start = 0
            found = []
            while True:
                pos = ns.find(pat, start)
                if pos < 0:
                    break
                found.append(pos)
                start = pos + 1
            if nth >= len(found):
                raise Undecided('lost anchor in %s: statement %r (occurrence %d) not found' % (key, pat, nth))
            pos = found[nth]
            a = toks[bopen].end + offs[pos]
            b = toks[bopen].end + offs[pos + len(pat) - 1] + 1
            blk = block_text(s)
            if where == 'before-stmt':
                # before the statement that CONTAINS the text (robust against the statement being reshaped around a call)
                k0 = next(k for k, t in enumerate(toks) if t.start <= a < t.end or t.start >= a)
                q = k0 - 1
                depth = 0
                while q > bopen:
                    tq = toks[q]
                    if tq.kind == 'p' and tq.text in ')]':
                        depth += 1
                    elif tq.kind == 'p' and tq.text in '([':
                        depth -= 1
                    elif tq.kind == 'p' and tq.text in (';', '{', '}') and depth <= 0:
                        break
                    q -= 1
                a = toks[next_sig(toks, q)].start
                edits.append((a, a, ('', blk, '\n'), 'block'))
            elif where == 'before':
                # a statement text that is the unbraced value of a match arm (`Err(msg) => Err(msg),` - rustfmt removes the
                # braces of `=> { Err(msg) },`): the proof block and the value are put in braces
                k0 = next((k for k, t in enumerate(toks) if t.start >= a), None)
                pk = prev_sig(toks, k0) if k0 is not None else None
                ppk = prev_sig(toks, pk) if pk is not None else None
                if k0 is not None and toks[pk].text == '>' and toks[ppk].text == '=' and toks[k0].text != '{':
                    q = k0
                    depth = 0
                    while q < bclose:
                        tq = toks[q]
                        if tq.kind == 'p' and tq.text in '([{':
                            depth += 1
                        elif tq.kind == 'p' and tq.text in ')]}':
                            if depth == 0:
                                break
                            depth -= 1
                        elif tq.kind == 'p' and tq.text == ',' and depth == 0:
                            break
                        q += 1
                    e_end = toks[prev_sig(toks, q)].end
                    edits.append((a, a, ('{ ', blk, '\n'), 'block'))
                    edits.append((e_end, e_end, ' }', None))
                else:
                    edits.append((a, a, ('', blk, '\n'), 'block'))
            else:
                edits.append((b, b, ('\n', blk, ''), 'block2'))

        segs = self._apply(text, edits, src_origin_for)
        attrs = contract_block('attr')
        self._wrap(out, item, attrs, segs)
        body_sha = hashlib.sha256(text.encode()).hexdigest()
        self.info['functions'].append({'fn': key, 'mode': 'prove', 'contract': rel_c,
                                       'has_contract': bool(con.sections),
                                       'src_lines': [base_line, base_line + text.count('\n')],
                                       'sha256': body_sha, 'loops': len(loops),
                                       # format!(..) expressions that no R10 wrapper covers: each is an ARBITRARY string for the proof (R4)
                                       'r4': self.counts.get('R4', 0) - r4_before})

    def _apply(self, text, edits, src_origin_for, upto=None):
        """returns list of (text, origin) segments"""
        # order: by start; for equal start, insertion order preserved but
        # 'block2' (after) kinds come before 'block' (before) kinds at same offset
        def keyf(e):
            return (e[0], 0 if e[0] != e[1] else 1)
        # pure insertions at an offset come before a replacement that starts at the same offset
        edits = sorted(enumerate(edits), key=lambda p: (p[1][0], 0 if p[1][0] == p[1][1] else 1, p[0]))
        segs = []
        pos = 0
        end = len(text) if upto is None else upto
        for _, (a, b, rep, kind) in edits:
            if a < pos:
                if a == b and a >= pos:
                    pass
                elif b <= pos:
                    continue
                else:
                    raise Undecided('overlapping rewrites')
            if a > end:
                break
            if a > pos:
                segs.append((text[pos:a], ('src', pos)))
            if isinstance(rep, tuple):
                pre, blk, post = rep
                if pre:
                    segs.append((pre, ('gen', None)))
                for l, o in blk:
                    segs.append((l + '\n', ('c', o)))
                if post:
                    segs.append((post, ('gen', None)))
            else:
                segs.append((rep, ('src', a)))
            pos = max(pos, b)
        if pos < end:
            segs.append((text[pos:end], ('src', pos)))
        # turn into (text, origin)
        res = []
        for t, (k, o) in segs:
            if k == 'src':
                res.append((t, src_origin_for(o)))
            elif k == 'c':
                res.append((t, o))
            else:
                res.append((t, {'k': 'gen', 'fn': '%s::%s' % (self.srcfile, self.fnpath)}))
        return res

    def _wrap(self, out, item, attrs, segs):
        if item.owner:
            out.add((getattr(item, 'impl_header', None) or ('impl %s' % item.owner)) + ' {', {'k': 'gen'})
        for l, o in attrs:
            out.add(l, o)
        # merge segments into lines, origin = first contract origin on the line else first src
        cur = ''
        cur_o = None
        for t, o in segs:
            parts = t.split('\n')
            for pi, p in enumerate(parts):
                if pi > 0:
                    out.add(cur, cur_o or {'k': 'gen'})
                    cur = ''
                    cur_o = None
                if p:
                    if cur_o is None or (o.get('k') == 'contract' and cur_o.get('k') != 'contract'):
                        if p.strip() or cur_o is None:
                            if o.get('k') == 'src' and pi > 0:
                                o2 = dict(o)
                                o2['line'] = o['line'] + pi
                                cur_o = o2
                            else:
                                cur_o = o
                    cur += p
        if cur:
            out.add(cur, cur_o or {'k': 'gen'})
        if item.owner:
            out.add('}', {'k': 'gen'})


def emit_type(repo, out, srcfile, name, counts, info):
    src, item = repo.find(srcfile, ('enum', 'struct', 'type'), name)
    text = src[item.attrs_start:item.end]
    base = lineno(src, item.attrs_start)
    toks = lex(text)
    res = []
    for t in toks:
        if t.kind == 'doc':
            continue
        res.append(t.text)
    t2 = ''.join(res)
    # R1
    def r1(m):
        counts['R1'] = counts.get('R1', 0) + 1
        return m.group(0) + '\n#[verifier::external_derive]'
    t2 = re.sub(r'#\[derive\([^\]]*\)\]', r1, t2)
    t2 = '\n'.join(l for l in t2.split('\n') if l.strip())
    out.add(t2, {'k': 'src', 'file': srcfile, 'line': base, 'type': name})
    info['types'].append({'type': name, 'file': srcfile, 'sha256': hashlib.sha256(text.encode()).hexdigest()})


def emit_static(repo, out, srcfile, name, counts, info):
    src, item = repo.find(srcfile, ('static', 'const'), name)
    text = src[item.start:item.end]
    base = lineno(src, item.start)
    m = re.match(r'^(?:pub\s+)?(?:static|const)\s+(\w+)\s*:\s*&\s*(?:\'static\s+)?str\s*=\s*(.*);\s*$', text, re.S)
    if not m:
        m2 = re.match(r'^(?:pub\s+)?const\s+(\w+)\s*:\s*(u64|usize|i64|u32|i32)\s*=\s*([0-9_]+)\s*;', text, re.S)
        if m2:
            out.add("const %s: %s = %s;" % (m2.group(1), m2.group(2), m2.group(3)), {'k': 'src', 'file': srcfile, 'line': base})
            return
        raise Undecided('unsupported construct: static %s is not a &str constant' % name)
    counts['R6'] = counts.get('R6', 0) + 1
    out.add("const %s: &'static str = %s;" % (m.group(1), m.group(2)), {'k': 'src', 'file': srcfile, 'line': base})


def emit_macro(repo, out, srcfile, name, info):
    src, item = repo.find(srcfile, 'macro', name)
    text = src[item.start:item.end]
    out.add(text, {'k': 'src', 'file': srcfile, 'line': lineno(src, item.start)})


def build(unit, repo_root, diff=False, canary=False, extra_stubs=()):
    upath = os.path.join(VERIF, 'units', unit + '.unit')
    repo = Repo(repo_root)
    out = Out()
    counts = {}
    info = {'unit': unit, 'functions': [], 'types': [], 'includes': []}
    out.add('// GENERATED by tools/extract.py from %s -- do not edit' % repo_root, {'k': 'gen'})
    header_done = False
    directives = [l.strip().split() for l in open(upath).read().split('\n') if l.strip() and not l.strip().startswith('#')]
    proved_here = set((d[1], d[2]) for d in directives if d[0] in ('prove', 'prove?') and len(d) >= 3)
    heap_fns = [x for d in directives if d[0] == 'heap-functions' for x in d[1:]]
    OVERLAY[0] = next(('+'.join(d[1:]) for d in directives if d[0] == 'overlay'), None)
    info['overlay'] = OVERLAY[0]
    info['heap_functions'] = heap_fns
    unit_lines = open(upath).read().split('\n') + ['stub %s %s' % (f, n) for f, n in extra_stubs]
    info['auto_stubbed'] = ['%s::%s' % (f, n) for f, n in extra_stubs]
    for raw in unit_lines:
        line = raw.strip()
        if not line or line.startswith('#'):
            continue
        parts = line.split()
        cmd = parts[0]
        if cmd == 'header':
            p = os.path.join(VERIF, parts[1])
            txt = open(p).read()
            out.add(txt, (lambda p: (lambda k: {'k': 'spec', 'file': os.path.relpath(p, VERIF), 'line': k + 1}))(p))
            info['includes'].append(os.path.relpath(p, VERIF))
            continue
        if not header_done:
            out.add('verus! {', {'k': 'gen'})
            header_done = True
            # every unit: the meaning of `==` on String / f64 however it is written (spec/std_eq.rs)
            p = os.path.join(VERIF, 'spec', 'std_eq.rs')
            out.add(open(p).read(), (lambda p: (lambda k: {'k': 'spec', 'file': os.path.relpath(p, VERIF), 'line': k + 1}))(p))
            info['includes'].append(os.path.relpath(p, VERIF))
        if cmd == 'include':
            p = os.path.join(VERIF, parts[1])
            txt = open(p).read()
            out.add(txt, (lambda p: (lambda k: {'k': 'spec', 'file': os.path.relpath(p, VERIF), 'line': k + 1}))(p))
            info['includes'].append(os.path.relpath(p, VERIF))
        elif cmd == 'type':
            emit_type(repo, out, parts[1], parts[2], counts, info)
        elif cmd == 'static':
            emit_static(repo, out, parts[1], parts[2], counts, info)
        elif cmd == 'macro':
            emit_macro(repo, out, parts[1], parts[2], info)
        elif cmd in ('heap-functions', 'overlay'):
            continue
        elif cmd in ('stub', 'stub?') and (parts[1], parts[2]) in proved_here:
            continue   # proved in this very unit: the body's own contract is used
        elif cmd == 'abstract':
            # signature only, no contract at all: an arbitrary total function of its arguments (the unit's obligations
            # must hold whatever it returns); its own contract, if it has one, is deliberately not used here
            FnEmitter(repo, parts[1], parts[2], 'stub', counts, info, canary=canary, heap_fns=heap_fns, nocontract=True).emit(out)
            info['functions'][-1]['mode'] = 'abstract'
            info.setdefault('abstract', []).append('%s::%s' % (parts[1], parts[2]))
        elif cmd == 'prove-overlay':
            # the verbatim body is proved against the clauses of the unit's overlay contract ONLY (its base contract - with
            # preconditions the callers of this unit cannot establish, and the proof hints that go with them - is left out)
            FnEmitter(repo, parts[1], parts[2], 'prove', counts, info, canary=canary, heap_fns=heap_fns, nocontract='overlay').emit(out)
            info.setdefault('prove_overlay', []).append('%s::%s' % (parts[1], parts[2]))
        elif cmd == 'stub-overlay':
            FnEmitter(repo, parts[1], parts[2], 'stub', counts, info, canary=canary, heap_fns=heap_fns, nocontract='overlay').emit(out)
            info.setdefault('stub_overlay', []).append('%s::%s' % (parts[1], parts[2]))
        elif cmd in ('prove', 'stub', 'prove?', 'stub?'):
            # a trailing '?' marks a function that may be absent (e.g. a helper introduced by a repair)
            try:
                FnEmitter(repo, parts[1], parts[2], cmd.rstrip('?'), counts, info, canary=canary, heap_fns=heap_fns).emit(out)
            except Undecided as e:
                if cmd.endswith('?') and 'lost anchor' in str(e) and 'not found' in str(e):
                    info.setdefault('absent', []).append('%s::%s' % (parts[1], parts[2]))
                else:
                    raise
        else:
            raise Undecided('bad unit directive: %s' % line)
    if canary == 'A':
        # every axiom of the included specification files is invoked first: an inconsistent set of axioms would let
        # this assert(false) verify, and the canary run would then report a vacuous unit
        axioms = sorted(set(re.findall(r'pub\s+axiom\s+fn\s+(\w+)\s*\(\s*\)', out.text())))
        out.add('proof fn canary_global() { %s assert(false); } // CANARY' % ' '.join(a + '();' for a in axioms), {'k': 'canary', 'fn': '<global>', 'where': 'axioms'})
        info['axioms_in_canary'] = axioms
    out.add('} // verus!', {'k': 'gen'})
    out.add('fn main() {}', {'k': 'gen'})
    info['rewrites'] = counts
    return out, info


def main():
    import argparse
    ap = argparse.ArgumentParser()
    ap.add_argument('unit')
    ap.add_argument('--repo', default='/repo')
    ap.add_argument('--out', default=None)
    ap.add_argument('--diff', action='store_true')
    ap.add_argument('--canary', default=False, choices=['A', 'B'])
    a = ap.parse_args()
    try:
        out, info = build(a.unit, a.repo, canary=a.canary)
    except Undecided as e:
        print('UNDECIDED %s' % e)
        sys.exit(2)
    if a.diff:
        # print, per proved function, the diff between repository text and generated text
        repo = Repo(a.repo)
        gen_by_fn = {}
        for l, o in zip(out.lines, out.origin):
            fn = o.get('fn')
            if fn:
                gen_by_fn.setdefault(fn, []).append(l)
        for f in info['functions']:
            if f['mode'] != 'prove':
                continue
            srcfile, fnpath = f['fn'].split('::', 1)
            src, item = repo.find(srcfile, 'fn', fnpath)
            a_lines = src[item.start:item.end].split('\n')
            b_lines = gen_by_fn.get(f['fn'], [])
            for d in difflib.unified_diff(a_lines, b_lines, 'repo:' + f['fn'], 'generated:' + f['fn'], lineterm=''):
                print(d)
        return
    outp = a.out or os.path.join(VERIF, 'build', 'gen', a.unit + ('_canary' + a.canary if a.canary else '') + '.rs')
    os.makedirs(os.path.dirname(outp), exist_ok=True)
    open(outp, 'w').write(out.text())
    json.dump({'info': info, 'origin': out.origin}, open(outp + '.map.json', 'w'))
    print('wrote %s (%d lines)' % (outp, len(out.lines)))


if __name__ == '__main__':
    main()
