// ---------------------------------------------------------------------------
// spec/parsers.rs -- helpers for the parser unit (C18)
// ---------------------------------------------------------------------------

// TRUSTED(T1): derived PartialEq on the field-less enum Infix is equality of variants
impl vstd::std_specs::cmp::PartialEqSpecImpl for Infix {
    open spec fn obeys_eq_spec() -> bool { true }
    open spec fn eq_spec(&self, other: &Infix) -> bool { *self == *other }
}
