//! C18: every parser returns a value or an error for every input, never panics.
use crate::terms::Rng;
use suiron::*;

const ENTRY: [&str; 8] = ["parse_term", "parse_linked_list", "parse_complex", "parse_function", "parse_query", "parse_subgoal", "generate_goal", "parse_rule"];

pub fn enum_strings(seed: u64) -> Vec<String> {
    let alphabet: Vec<&str> = vec!["a", "b", "$X", "$_", "1", "2.5", "(", ")", "[", "]", ",", " ", "|", "\"", "\\", ".", ":-", "=", "==", "<", ">=", "+", "-", "*", "/", ";", "!", "not", "time", "é", "f(", "add("];
    let mut strs: Vec<String> = vec!["".into(), " ".into(), ".".into(), "a\\".into(), "f(a\\".into(), "f(a\\)".into(), "$X :- a.".into(), "a :- .".into(),
        "p :- (a, b".into(), "p :- a, (b; c)).".into(), "p :- ;.".into(), "p :- ,.".into(), "()".into(), "(a)".into(), "[|]".into(), "[a|]".into(),
        "[a | b]".into(), "\"".into(), "\"\"".into(), "f(\"\")".into(), "$X =".into(), "= $X".into(), "$X = ".into(), "a + ".into(), " + a".into(),
        "not()".into(), "time()".into(), "not(".into(), "p :- not(a.".into(), "p :- a :- b.".into(), ":-".into(), ":- a.".into(), "a:-".into(), "abc".into()];
    for a in &alphabet { strs.push(a.to_string()); }
    for a in &alphabet { for b in &alphabet { strs.push(format!("{}{}", a, b)); } }
    let mut rng = Rng(seed.wrapping_mul(0x2545F4914F6CDD1D) | 1);
    for _ in 0..3000 {
        let n = 3 + rng.below(7);
        let mut s = String::new();
        for _ in 0..n { s.push_str(alphabet[rng.below(alphabet.len())]); }
        strs.push(s);
    }
    let mut out = vec![];
    for s in strs { for e in ENTRY { out.push(format!("{}\u{1}{}", e, s)); } }
    out
}

pub fn check_string(case: &str) -> Result<(), String> {
    let (entry, s) = case.split_once('\u{1}').unwrap();
    // a panic is caught by the caller (run_case) and reported as the failure
    match entry {
        "parse_term" => { let _ = parse_term(s); }
        "parse_linked_list" => { let _ = parse_linked_list(s); }
        "parse_complex" => { let _ = parse_complex(s); }
        "parse_function" => { let _ = parse_function(s); }
        "parse_query" => { let _ = parse_query(s); }
        "parse_subgoal" => { let _ = parse_subgoal(s); }
        "generate_goal" => { let _ = generate_goal(s); }
        _ => { let _ = parse_rule(s); }
    }
    Ok(())
}

// ---- C19: canonical source text parses and prints back unchanged (bounded) ------------------------------------------
// Rules and facts in the documented syntax.  For each text: the parser accepts it; the printed value is the canonical text
// (the text itself, or - for infix comparison / arithmetic and facts without arguments - the functional form Display uses);
// and parsing the printed text gives an equal value.
pub fn enum_roundtrip(_s: u64) -> Vec<String> {
    let same = [
        // facts: atoms, integers, floats with a fractional part, variables, $_, atoms with spaces
        "p(a).", "parent(Alice, Bob).", "n(1, -3, 2.5, -0.25).", "v($X, $Y, $X).", "w($_, a).", "name(Harry Potter, wizard).",
        "one(a).", "five(a, b, c, d, e).",
        // floats with a fractional part of every size
        "f(0.5, 100.25, 0.001, 0.00005).", "tolerance(bolt, 0.000025, -0.0000001).", "g(123456789.125, 3.14159).", "r($D) :- $D = 0.00001.",
        // lists with optional tail variable, nested terms
        "l([]).", "l([a, b, c]).", "l([a, $X | $T]).", "l([[a, b], [c]]).", "l([$H | $T], $H).", "t(f(g(a), $X), [f(a)]).",
        // conjunction, disjunction (and binds tighter than or)
        "r($X) :- p($X), q($X).", "r($X) :- p($X); q($X).", "r($X) :- p($X), q($X), s($X).", "r($X) :- p($X); q($X); s($X).",
        "r($X) :- p($X), q($X); s($X).", "r($X) :- p($X); q($X), s($X).", "r($X) :- a($X), b($X); c($X), d($X).",
        "r($X) :- a($X); b($X), c($X); d($X).",
        // not, built-ins
        "r($X) :- not(p($X)).", "r($X) :- p($X), not(q($X)).", "r($X) :- p($X), !.", "r($X) :- p($X), !, fail.",
        "r($X) :- $X = a.", "r($X) :- print(value %s, $X), nl.", "r($L, $N) :- count($L, $N).", "r($A, $B, $C) :- append($A, $B, $C).",
        "r($X, $F) :- functor($X, $F).", "r($L, $O) :- include(p($_), $L, $O).", "r($L, $O) :- exclude(p($_), $L, $O).",
        "r($X) :- time(p($X)).", "r($L) :- print_list($L).",
    ];
    let sugar = [
        ("zero.", "zero()."),
        ("r($X) :- p($X), $X == 2.", "r($X) :- p($X), equal($X, 2)."),
        ("r($X, $Y) :- $X > $Y.", "r($X, $Y) :- greater_than($X, $Y)."),
        ("r($X, $Y) :- $X >= $Y, $X <= 10, $Y < 3.", "r($X, $Y) :- greater_than_or_equal($X, $Y), less_than_or_equal($X, 10), less_than($Y, 3)."),
        ("r($X, $Y) :- $Y = $X + 1.", "r($X, $Y) :- $Y = add($X, 1)."),
        ("r($X, $Y) :- $Y = $X - 1.", "r($X, $Y) :- $Y = subtract($X, 1)."),
        ("r($X, $Y) :- $Y = $X * 2.", "r($X, $Y) :- $Y = multiply($X, 2)."),
        ("r($X, $Y) :- $Y = $X / 2.", "r($X, $Y) :- $Y = divide($X, 2)."),
    ];
    let mut out: Vec<String> = same.iter().map(|t| format!("{}\u{1}{}", t, t)).collect();
    out.extend(sugar.iter().map(|(a, b)| format!("{}\u{1}{}", a, b)));
    out
}

pub fn check_roundtrip(case: &str) -> Result<(), String> {
    let (text, canonical) = case.split_once('\u{1}').ok_or("bad case")?;
    let rule = parse_rule(text).map_err(|e| format!("`{}` is not accepted: {}", text, e))?;
    let printed = format!("{}", rule);
    if printed != canonical { return Err(format!("`{}` is printed back as `{}`", text, printed)); }
    let again = parse_rule(&printed).map_err(|e| format!("the printed text `{}` is not accepted: {}", printed, e))?;
    if format!("{:?}", again) != format!("{:?}", rule) { return Err(format!("parsing the printed text `{}` gives a different value", printed)); }
    Ok(())
}
