//! Kani harnesses on the REAL crate (path dependency on /repo).
//! Only `pub` items of suiron are used, so no source hooks are needed.
#![allow(unused_imports, dead_code)]

#[cfg(kani)]
mod globals;
#[cfg(kani)]
mod arith;
#[cfg(kani)]
mod cmpf;
