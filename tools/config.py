"""Which units, functions, oracles and Kani harnesses decide which property."""

# property -> configuration
#   units:      Verus units to extract + verify
#   functions:  functions whose *untagged* obligations (panic unreachable, index in
#               range, overflow, termination, call-site preconditions, untagged
#               invariants) count for this property.  Tagged clauses
#               (`// #label [C15,C10]`) count for the properties they name.
#   oracles:    replay oracles used to attach a witness to a failed obligation
#               {function-key-or-'*': oracle name}
#   kani:       {tier: [harness,...]}
PROPS = {
    'C06': {
        'units': ['unify'],
        'functions': ['unifiable.rs::Unifiable::unify'],
        'oracles': {'*': 'c06_keeps'},
        'not_covered': [
            'completeness in general (unification succeeds whenever a unifier exists) - only the constant/constant and unbound-variable/constant cases are proved',
            'soundness as equality of the fully resolved terms (needs resolution through bound tails; not yet under proof)',
            'minimality of the binding set in general (proved: equal terms add nothing; every new binding is of a previously unbound variable)',
            'termination of unify (recursion through bound variables has no structural measure; exec_allows_no_decreases_clause)',
        ],
    },
    'C08': {
        'units': ['unify', 'subst'],
        'functions': ['substitution_set.rs::get_ground_term', 'substitution_set.rs::is_ground_variable'],
        'oracles': {'*': 'c08_cycle'},
        'not_covered': ['termination of replace_variables / Display (they recurse through structures)'],
    },
    'C09': {
        'units': ['unify'],
        'functions': [],
        'oracles': {'*': 'c09_anon'},
        'not_covered': ['programs using $_ in heads and bodies: the solver is outside reach; the clause covers every unify call, hence every position, by modularity'],
    },
    'C13': {
        'units': ['unify', 'functions'],
        'functions': ['built_in_functions.rs::unify_sfunction'],
        'oracles': {'*': 'c13_function'},
        'not_covered': [],
    },
    'C15': {
        'units': ['lists'],
        'functions': ['s_linked_list.rs::make_linked_list', 's_linked_list.rs::link_front'],
        'oracles': {'s_linked_list.rs::make_linked_list': 'c15_make_linked_list'},
        'not_covered': [
            'parse_linked_list (string-driven loop) is covered only through link_front; see C18',
        ],
    },
}

LEVEL = {p: 'proof' for p in PROPS}

# trusted base items, by tag found in generated files (scan_assumptions)
TRUSTED_TEXT = {
    'T1': "rustc's derived PartialEq/Clone on the extracted types behave as spec `ueq` / identity (assume_specification + PartialEqSpecImpl)",
    'T2': 'vstd specifications of Vec, Rc, Box, Option, String, slices; axioms added where vstd has none are listed individually',
    'T3': 'assumed specifications for std string/char primitives (listed individually)',
    'T4': 'extractor rewrite rules R1-R8 (syntactic; counts per rule reported in coverage.rewrites)',
    'T5': 'Verus 0.2026.09.13 + its Z3; rustc front end',
}
