//! A reference interpreter: depth-first, left-to-right, clause-order resolution with cut, written from the textbook
//! semantics (continuation passing; a cut that is backtracked into fails the clause it stands in) with the one documented
//! difference of this engine, which the property C02 adopts: once a cut has run in a clause, the call yields no answer beyond the
//! one being derived (the goals to the right of the cut are backtracked into only until that answer is found).  It uses the crate's
//! parser, clause renaming (get_rule) and unification - which have their own properties - but none of its search code
//! (solution nodes, next_solution*).  Used by c02_cut to compare answer sequences of programs with cuts.
use suiron::*;
use std::rc::Rc;
use std::cell::Cell;

#[derive(PartialEq, Clone, Copy, Debug)]
pub enum Flow { Next, CutFail(usize), Halt }

pub struct Ctx<'a> { pub kb: &'a KnowledgeBase, pub steps: Cell<usize>, pub limit: usize, pub levels: Cell<usize>, pub cut_ran: std::cell::RefCell<std::collections::HashSet<usize>>, pub cyclic: Cell<bool> }

type SS<'a> = Rc<SubstitutionSet<'a>>;

/// does some variable reach itself through its binding (a program that would need the occurs check)?  Such programs are
/// outside every claim (C08) and would send the engine's printing into unbounded recursion.
pub fn cyclic(ss: &SubstitutionSet) -> bool {
    fn vars_of(t: &Unifiable, out: &mut Vec<usize>) {
        match t {
            Unifiable::LogicVar { id, .. } => out.push(*id),
            Unifiable::SComplex(ts) => for x in ts { vars_of(x, out) },
            Unifiable::SFunction { terms, .. } => for x in terms { vars_of(x, out) },
            Unifiable::SLinkedList { term, next, .. } => { vars_of(term, out); vars_of(next, out); },
            _ => {},
        }
    }
    // colour: 0 unseen, 1 on the stack, 2 done
    fn visit(i: usize, ss: &SubstitutionSet, colour: &mut Vec<u8>) -> bool {
        if i >= ss.len() { return false; }
        if colour[i] == 1 { return true; }
        if colour[i] == 2 { return false; }
        colour[i] = 1;
        if let Some(t) = &ss[i] {
            let mut vs = vec![];
            vars_of(t, &mut vs);
            for v in vs { if visit(v, ss, colour) { return true; } }
        }
        colour[i] = 2;
        false
    }
    let mut colour = vec![0u8; ss.len()];
    for i in 0..ss.len() { if visit(i, ss, &mut colour) { return true; } }
    false
}

pub fn solve<'a>(ctx: &Ctx<'a>, goal: &Goal, level: usize, ss: &SS<'a>, cont: &mut dyn FnMut(&SS<'a>) -> Flow) -> Flow {
    ctx.steps.set(ctx.steps.get() + 1);
    if ctx.steps.get() > ctx.limit { return Flow::Halt; }
    match goal {
        Goal::ComplexGoal(c) => {
            let key = goal.key();
            let n = match ctx.kb.get(&key) { Some(l) => l.len(), None => 0 };
            let my = ctx.levels.get() + 1;
            ctx.levels.set(my);
            for i in 0..n {
                let rule = get_rule(ctx.kb, &key, i);
                let head = rule.get_head();
                if let Some(s1) = head.unify(c, ss) {
                    if cyclic(&s1) { ctx.cyclic.set(true); return Flow::Halt; }
                    let body = rule.get_body();
                    let r = if body == Goal::Nil { cont(&s1) } else {
                        solve(ctx, &body, my, &s1, &mut |s2| {
                            let r2 = cont(s2);
                            // an answer of this call was delivered and more are asked for: none, if a cut ran in this clause
                            if r2 == Flow::Next && ctx.cut_ran.borrow().contains(&my) { Flow::CutFail(my) } else { r2 }
                        })
                    };
                    match r {
                        Flow::Next => {},
                        Flow::CutFail(l) if l == my => return Flow::Next,   // the cut of this call: no later clause
                        other => return other,
                    }
                }
            }
            Flow::Next
        },
        Goal::OperatorGoal(Operator::And(gs)) => solve_and(ctx, gs, 0, level, ss, cont),
        Goal::OperatorGoal(Operator::Or(gs)) => {
            for g in gs { let r = solve(ctx, g, level, ss, cont); if r != Flow::Next { return r; } }
            Flow::Next
        },
        Goal::OperatorGoal(Operator::Not(gs)) => {
            let mut found = false;
            let r = solve(ctx, &gs[0], level, ss, &mut |_s| { found = true; Flow::Halt });
            if found { return Flow::Next; }
            if r == Flow::Halt { return Flow::Halt; }
            cont(ss)
        },
        Goal::OperatorGoal(Operator::Time(gs)) => {
            let mut first: Option<SS<'a>> = None;
            let r = solve(ctx, &gs[0], level, ss, &mut |s| { first = Some(Rc::clone(s)); Flow::Halt });
            match first { Some(s) => cont(&s), None => if r == Flow::Halt { Flow::Halt } else { Flow::Next } }
        },
        Goal::BuiltInGoal(b) => {
            let res: Option<SS<'a>> = match b.functor.as_str() {
                "!" => { ctx.cut_ran.borrow_mut().insert(level); let r = cont(ss); return if r == Flow::Next { Flow::CutFail(level) } else { r }; },
                "fail" => None,
                "nl" => { print!("\n"); Some(Rc::clone(ss)) },
                "print" => { next_solution_print(b.clone(), ss); Some(Rc::clone(ss)) },
                "print_list" => { next_solution_print_list(b.clone(), ss); Some(Rc::clone(ss)) },
                "unify" => { let t = b.terms.as_ref().unwrap(); let r = t[0].unify(&t[1], ss); if let Some(s1) = &r { if cyclic(s1) { ctx.cyclic.set(true); return Flow::Halt; } } r },
                "equal" => bip_equal(b.clone(), ss),
                "less_than" => bip_less_than(b.clone(), ss),
                "less_than_or_equal" => bip_less_than_or_equal(b.clone(), ss),
                "greater_than" => bip_greater_than(b.clone(), ss),
                "greater_than_or_equal" => bip_greater_than_or_equal(b.clone(), ss),
                "append" => next_solution_append(b.clone(), ss),
                "functor" => next_solution_functor(b.clone(), ss),
                "include" => bip_include(b.clone(), ss),
                "exclude" => bip_exclude(b.clone(), ss),
                "count" => bip_count(b.clone(), ss),
                other => panic!("reference interpreter: built-in {} not modelled", other),
            };
            match res { Some(s) => { if cyclic(&s) { ctx.cyclic.set(true); return Flow::Halt; } cont(&s) }, None => Flow::Next }
        },
        Goal::Nil => cont(ss),
    }
}

fn solve_and<'a>(ctx: &Ctx<'a>, gs: &Vec<Goal>, i: usize, level: usize, ss: &SS<'a>, cont: &mut dyn FnMut(&SS<'a>) -> Flow) -> Flow {
    if i == gs.len() { return cont(ss); }
    solve(ctx, &gs[i], level, ss, &mut |s1| solve_and(ctx, gs, i + 1, level, s1, cont))
}

/// the answers of `query` (at most `max`), each shown as the query with its variables replaced; None if the step limit was hit
pub fn reference_answers(kb: &KnowledgeBase, query: &Goal, max: usize) -> Option<Vec<String>> {
    let ctx = Ctx { kb, steps: Cell::new(0), limit: 20000, levels: Cell::new(0), cut_ran: std::cell::RefCell::new(std::collections::HashSet::new()), cyclic: Cell::new(false) };
    let mut out: Vec<String> = vec![];
    let ss: SS = Rc::new(SubstitutionSet::new());
    let _ = solve(&ctx, query, 0, &ss, &mut |s| {
        out.push(format!("{}", query.replace_variables(s)));
        if out.len() >= max { Flow::Halt } else { Flow::Next }
    });
    if ctx.steps.get() > ctx.limit || ctx.cyclic.get() { return None; }
    Some(out)
}

/// unbound variables are shown with the id they happened to get: not part of the comparison
pub fn normalise(ans: &str) -> String {
    let cs: Vec<char> = ans.chars().collect();
    let mut out = String::new();
    let mut i = 0;
    while i < cs.len() {
        if cs[i] == '$' {
            let mut j = i + 1;
            while j < cs.len() && (cs[j].is_alphanumeric() || cs[j] == '_') { j += 1; }
            out.push_str("$VAR");
            i = j;
        } else { out.push(cs[i]); i += 1; }
    }
    out
}
