#!/usr/bin/env python3
"""Writes MANIFEST.json from tools/config.py + tools/manifest_text.py"""
import json, os, sys
HERE = os.path.dirname(os.path.abspath(__file__))
VERIF = os.path.dirname(HERE)
sys.path.insert(0, HERE)
import config
import manifest_text as mt

checks = []
for pid in sorted(config.PROPS):
    t = mt.CLAIMED[pid]
    c = {
        'property_id': pid,
        'quick_cmd': 'bin/check %s quick' % pid,
        'thorough_cmd': 'bin/check %s thorough' % pid,
        'evidence_file': '/verif/evidence/%s.json' % pid,
        'replay_cmd_template': 'bin/check %s --replay {path}' % pid,
        'engine': t.get('engine', 'verus-contracts'),
        'level_claimed': {'category': t.get('category', 'proof'), 'text': t['text'], 'design_ref': t.get('design_ref', 'DESIGN.md section 5')},
        'level_note': t['note'],
        'technique': t['technique'],
    }
    checks.append(c)
engines = [dict(e) for e in mt.ENGINES]
for e in engines:
    if e['name'] == 'replay':
        e['serves_properties'] = sorted(config.PROPS)
    else:
        e['serves_properties'] = sorted(c['property_id'] for c in checks if c['engine'] == e['name'] or (e['name'] == 'verus-contracts' and config.PROPS[c['property_id']].get('units')) or (e['name'] == 'kani-harnesses' and config.PROPS[c['property_id']].get('kani')))
na = [{'property_id': p, 'reason': r} for p, r in sorted(mt.NOT_APPLICABLE.items()) if p not in config.PROPS]
m = {
    'version': 1,
    'setup_cmd': 'bin/setup',
    'hooks': {
        'guard': 'indrikoterio_suiron_rust_verif',
        'enable': 'no source hooks are needed: Verus units are re-extracted from /repo/src on every run and the Kani harness crate depends on /repo by path (only pub items are harnessed)',
        'baseline_off_cmd': 'cd /repo && cargo nextest run --workspace --no-fail-fast --offline --test-threads 8 || (cd /repo && cargo test --workspace --no-fail-fast --offline)',
        'source_commits': [],
        'add_only': True,
    },
    'engines': engines,
    'checks': checks,
    'not_applicable': na,
    'notes': mt.NOTES,
}
json.dump(m, open(os.path.join(VERIF, 'MANIFEST.json'), 'w'), indent=1)
print('MANIFEST.json: %d checks, %d not_applicable' % (len(checks), len(na)))
