// ---------------------------------------------------------------------------
// spec/floats.rs -- the integer-to-float cast (C12, C14)
// ---------------------------------------------------------------------------

// the value of `i as f64` (IEEE round-to-nearest conversion), kept uninterpreted
pub uninterp spec fn i2f(i: i64) -> f64;

// TRUSTED(T6): the exec cast `i as f64` is a function of `i` (rule R12 routes every such cast here;
// Verus itself leaves the cast's result unconstrained)
#[verifier::external_body]
pub fn i64_to_f64(i: i64) -> (r: f64)
    ensures r == i2f(i),
{ i as f64 }


// TRUSTED(T6): IEEE-754 addition, subtraction, multiplication and division of two f64 values are total,
// deterministic functions of the two values (vstd leaves `obeys_*_spec` and `*_req` for f64 undetermined;
// this axiom fixes them, which makes the exec operators + - * / on f64 equal to vstd's uninterpreted spec
// functions add_spec / sub_spec / mul_spec / div_spec).  Nothing is assumed about the VALUES of these
// functions: the folds of C12 are proved relative to them.
pub axiom fn axiom_f64_arith_is_a_function()
    ensures
        <f64 as vstd::std_specs::ops::AddSpec>::obeys_add_spec(),
        <f64 as vstd::std_specs::ops::SubSpec>::obeys_sub_spec(),
        <f64 as vstd::std_specs::ops::MulSpec>::obeys_mul_spec(),
        <f64 as vstd::std_specs::ops::DivSpec>::obeys_div_spec(),
        forall|a: f64, b: f64| #[trigger] vstd::std_specs::ops::AddSpec::add_req(a, b),
        forall|a: f64, b: f64| #[trigger] vstd::std_specs::ops::SubSpec::sub_req(a, b),
        forall|a: f64, b: f64| #[trigger] vstd::std_specs::ops::MulSpec::mul_req(a, b),
        forall|a: f64, b: f64| #[trigger] vstd::std_specs::ops::DivSpec::div_req(a, b);
