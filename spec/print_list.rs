// ---------------------------------------------------------------------------
// spec/print_list.rs -- what print_list writes (C04); unit print only (needs the list vocabulary of spec/listops.rs)
// ---------------------------------------------------------------------------
// ---- print_list (C04): one line per argument, in order ----------------------------------------------------------
// TRUSTED(R10/R16): the three writing statements of next_solution_print_list keep their text in the ghost log
#[verifier::external_body]
pub fn verif_print_sep(Tracked(h): Tracked<&mut Heap>)                       // print!(",\n")
    ensures final(h).ids == old(h).ids, final(h).st == old(h).st, final(h).locked == old(h).locked, final(h).out == old(h).out + 1,
            final(h).log == old(h).log.push(",\n"@),
{ unimplemented!() }
#[verifier::external_body]
pub fn verif_println_string(s: &String, Tracked(h): Tracked<&mut Heap>)      // println!("{}", s)
    ensures final(h).ids == old(h).ids, final(h).st == old(h).st, final(h).locked == old(h).locked, final(h).out == old(h).out + 1,
            final(h).log == old(h).log.push(s@ + "\n"@),
{ unimplemented!() }
#[verifier::external_body]
pub fn verif_println_term(t: &Unifiable, Tracked(h): Tracked<&mut Heap>)     // println!("{}", term)
    ensures final(h).ids == old(h).ids, final(h).st == old(h).st, final(h).locked == old(h).locked, final(h).out == old(h).out + 1,
            final(h).log == old(h).log.push(disp(*t) + "\n"@),
{ unimplemented!() }
// (the text format_slist gives for a list: fmt_slist, spec/slist_text.rs)

// what print_list looks at for an argument: a variable is replaced by the end of its binding chain (when it has one)
pub open spec fn pl_value(ss: SS, t: Unifiable) -> Unifiable {
    if t is LogicVar { shown(ss, t) } else { t }
}
// what print_list writes for its k-th argument: a list - after the first argument preceded by ",\n" - as its elements
// on one line, anything else as it is displayed, on one line
pub open spec fn pl_entry(ss: SS, t: Unifiable, k: int) -> Seq<Seq<char>> {
    let v = pl_value(ss, t);
    if v is SLinkedList {
        let line = match ground_of(ss, v) { Some(g) => fmt_slist(g, ss), None => disp(v) } + "\n"@;
        if k > 0 { seq![",\n"@, line] } else { seq![line] }
    } else {
        seq![disp(v) + "\n"@]
    }
}
pub open spec fn pl_log(ss: SS, ts: Seq<Unifiable>, n: int) -> Seq<Seq<char>>
    decreases n,
{
    if n <= 0 { Seq::empty() } else { pl_log(ss, ts, n - 1) + pl_entry(ss, ts[n - 1], n - 1) }
}
