// ---------------------------------------------------------------------------
// spec/subst.rs -- substitution sets, variable chains, term invariants.
// ---------------------------------------------------------------------------

pub type SS = Seq<Option<Rc<Unifiable>>>;

// binding of variable i, if any
pub open spec fn bnd(s: SS, i: int) -> Option<Unifiable> {
    if 0 <= i < s.len() { match s[i] { Some(r) => Some(*r), None => None } } else { None }
}

pub open spec fn is_bnd(s: SS, i: int) -> bool { bnd(s, i) is Some }

// s1 keeps every binding of s0
pub open spec fn extends(s1: SS, s0: SS) -> bool {
    &&& s0.len() <= s1.len()
    &&& forall|i: int| 0 <= i < s0.len() && s0[i] is Some ==> #[trigger] s1[i] == s0[i]
}

// No logic variable with id 0 anywhere (unify panics on those by design; the
// knowledge base hands out renamed clauses only).  Type invariant of inputs.
pub open spec fn nz(t: Unifiable) -> bool
    decreases t,
{
    match t {
        // id 0 marks an un-renamed variable; usize::MAX cannot index a vector (id + 1 overflows)
        Unifiable::LogicVar{id, name} => 0 < id < usize::MAX,
        Unifiable::SComplex(ts) => nz_seq(ts@),
        Unifiable::SLinkedList{term, next, count, tail_var} => nz(*term) && nz(*next),
        Unifiable::SFunction{name, terms} => nz_seq(terms@),
        _ => true,
    }
}

pub open spec fn nz_seq(s: Seq<Unifiable>) -> bool
    decreases s,
{
    s.len() == 0 || (nz(s[0]) && nz_seq(s.drop_first()))
}

// every list inside t is a well-formed list (deep)
pub open spec fn wf(t: Unifiable) -> bool
    decreases t,
{
    match t {
        // a complex term has a functor, which is an atom (make_complex panics otherwise)
        Unifiable::SComplex(ts) => ts@.len() >= 1 && ts@[0] is Atom && wf_seq(ts@),
        Unifiable::SLinkedList{term, next, count, tail_var} =>
            wf_list(t) && wf(*term) && wf(*next),
        Unifiable::SFunction{name, terms} => wf_seq(terms@),
        _ => true,
    }
}

pub open spec fn wf_seq(s: Seq<Unifiable>) -> bool
    decreases s,
{
    s.len() == 0 || (wf(s[0]) && wf_seq(s.drop_first()))
}

pub open spec fn ok_term(t: Unifiable) -> bool { nz(t) && wf(t) }

// every bound term satisfies the input invariant
pub open spec fn ss_ok(s: SS) -> bool {
    forall|i: int| 0 <= i < s.len() ==> ((#[trigger] s[i]) matches Some(r) ==> ok_term(*r))
}

pub proof fn lemma_nz_seq_index(s: Seq<Unifiable>, i: int)
    requires nz_seq(s), 0 <= i < s.len(),
    ensures nz(s[i]),
    decreases s.len(),
{
    if i > 0 { lemma_nz_seq_index(s.drop_first(), i - 1); }
}

pub proof fn lemma_wf_seq_index(s: Seq<Unifiable>, i: int)
    requires wf_seq(s), 0 <= i < s.len(),
    ensures wf(s[i]),
    decreases s.len(),
{
    if i > 0 { lemma_wf_seq_index(s.drop_first(), i - 1); }
}

pub proof fn lemma_extends_trans(s2: SS, s1: SS, s0: SS)
    requires extends(s2, s1), extends(s1, s0),
    ensures extends(s2, s0),
{
}

// --- variable chains (C08) ---------------------------------------------------

// id of the variable at the end of the variable-to-variable chain starting at
// variable i, if the chain ends within `fuel` steps (at an unbound variable or
// at a variable bound to a non-variable term).
pub open spec fn var_end(s: SS, i: int, fuel: nat) -> Option<int>
    decreases fuel,
{
    match bnd(s, i) {
        None => Some(i),
        Some(t) => match t {
            Unifiable::LogicVar{id, name} =>
                if fuel == 0 { None } else { var_end(s, id as int, (fuel - 1) as nat) },
            _ => Some(i),
        },
    }
}

pub open spec fn ends(s: SS, i: int) -> bool { exists|f: nat| (#[trigger] var_end(s, i, f)) is Some }

// following bindings from any variable ends
pub open spec fn acyclic(s: SS) -> bool { forall|i: int| #[trigger] ends(s, i) }

pub proof fn lemma_var_end_mono(s: SS, i: int, f: nat, g: nat)
    requires var_end(s, i, f) is Some, f <= g,
    ensures var_end(s, i, g) == var_end(s, i, f),
    decreases f,
{
    match bnd(s, i) {
        None => {},
        Some(t) => match t {
            Unifiable::LogicVar{id, name} => {
                if f > 0 { lemma_var_end_mono(s, id as int, (f - 1) as nat, (g - 1) as nat); }
            },
            _ => {},
        },
    }
}

// the variable that variable i is directly bound to, if it is bound to a variable
pub open spec fn next_var(s: SS, i: int) -> Option<int> {
    match bnd(s, i) {
        Some(u) => match u { Unifiable::LogicVar{id, name} => Some(id as int), _ => None },
        None => None,
    }
}

// the variable at which the chain from i ends (meaningful when ends(s, i))
pub open spec fn chain_end(s: SS, i: int) -> int {
    var_end(s, i, choose|f: nat| (#[trigger] var_end(s, i, f)) is Some).unwrap()
}

pub proof fn lemma_chain_end(s: SS, i: int)
    requires acyclic(s),
    ensures
        forall|f: nat| (#[trigger] var_end(s, i, f)) is Some ==> var_end(s, i, f) == Some(chain_end(s, i)),
        exists|f: nat| (#[trigger] var_end(s, i, f)) == Some(chain_end(s, i)),
        next_var(s, i) matches Some(j) ==> chain_end(s, j) == chain_end(s, i),
        next_var(s, i) is None ==> chain_end(s, i) == i,
{
    assert(ends(s, i));
    let f0 = choose|f: nat| (#[trigger] var_end(s, i, f)) is Some;
    assert forall|f: nat| (#[trigger] var_end(s, i, f)) is Some implies var_end(s, i, f) == Some(chain_end(s, i)) by {
        if f <= f0 { lemma_var_end_mono(s, i, f, f0); } else { lemma_var_end_mono(s, i, f0, f); }
    }
    match bnd(s, i) {
        Some(u) => match u {
            Unifiable::LogicVar{id, name} => {
                let j = id as int;
                assert(ends(s, j));
                let g = choose|g: nat| (#[trigger] var_end(s, j, g)) is Some;
                assert(var_end(s, i, g + 1) == var_end(s, j, g));
                if g + 1 <= f0 { lemma_var_end_mono(s, i, g + 1, f0); } else { lemma_var_end_mono(s, i, f0, g + 1); }
            },
            _ => { assert(var_end(s, i, 0) == Some(i)); if 0 <= f0 { lemma_var_end_mono(s, i, 0, f0); } },
        },
        None => { assert(var_end(s, i, 0) == Some(i)); lemma_var_end_mono(s, i, 0, f0); },
    }
}

pub proof fn lemma_wf_seq_push(s: Seq<Unifiable>, t: Unifiable)
    requires wf_seq(s), wf(t),
    ensures wf_seq(s.push(t)),
    decreases s.len(),
{
    if s.len() == 0 {
        assert(s.push(t).drop_first() =~= Seq::<Unifiable>::empty());
        assert(wf_seq(s.push(t).drop_first()));
        assert(s.push(t)[0] == t);
        assert(s.push(t).len() > 0);
    } else {
        lemma_wf_seq_push(s.drop_first(), t);
        assert(s.push(t).drop_first() =~= s.drop_first().push(t));
        assert(s.push(t)[0] == s[0]);
    }
}

// ---- variable ids (C10 / C01: unification introduces no variable id of its own) ------------------------------------------
// every variable id in t is below b
pub open spec fn below(t: Unifiable, b: int) -> bool
    decreases t,
{
    match t {
        Unifiable::LogicVar{id, name} => id < b,
        Unifiable::SComplex(ts) => below_seq(ts@, b),
        Unifiable::SLinkedList{term, next, count, tail_var} => below(*term, b) && below(*next, b),
        Unifiable::SFunction{name, terms} => below_seq(terms@, b),
        _ => true,
    }
}
pub open spec fn below_seq(s: Seq<Unifiable>, b: int) -> bool
    decreases s,
{
    s.len() == 0 || (below(s[0], b) && below_seq(s.drop_first(), b))
}
pub open spec fn ss_below(s: SS, b: int) -> bool {
    forall|i: int| 0 <= i < s.len() ==> ((#[trigger] s[i]) matches Some(r) ==> below(*r, b))
}
pub open spec fn below_all(a: Unifiable, c: Unifiable, s: SS, b: int) -> bool {
    below(a, b) && below(c, b) && ss_below(s, b)
}
// the clause: whatever bounds the ids of the two terms and of the prior bindings bounds the ids of the result
pub open spec fn post_below(slf: Unifiable, other: Unifiable, ss: Rc<Vec<Option<Rc<Unifiable>>>>, res: Option<Rc<Vec<Option<Rc<Unifiable>>>>>) -> bool {
    forall|b: int| #[trigger] below_all(slf, other, ss@, b) ==> (match res { Some(r) => ss_below(r@, b), None => true })
}
pub proof fn lemma_below_seq_index(s: Seq<Unifiable>, b: int, i: int)
    requires below_seq(s, b), 0 <= i < s.len(),
    ensures below(s[i], b),
    decreases s.len(),
{
    if i > 0 { lemma_below_seq_index(s.drop_first(), b, i - 1); }
}
// the same for unifying the VALUE of a function term (a constant: no variables of its own) with another term
pub open spec fn below_fn(c: Unifiable, s: SS, b: int) -> bool { below(c, b) && ss_below(s, b) }
pub open spec fn post_below_fn(other: Unifiable, ss: Rc<Vec<Option<Rc<Unifiable>>>>, res: Option<Rc<Vec<Option<Rc<Unifiable>>>>>) -> bool {
    forall|b: int| #[trigger] below_fn(other, ss@, b) ==> (match res { Some(r) => ss_below(r@, b), None => true })
}
