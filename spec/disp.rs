// ---------------------------------------------------------------------------
// spec/disp.rs -- Display of a term (uninterpreted) and the two R10 string wrappers shared by print.rs and listops.rs
// ---------------------------------------------------------------------------
// Display of a term (format!("{}", term)), uninterpreted
pub uninterp spec fn disp(t: Unifiable) -> Seq<char>;

// R10 targets for evaluate_join (each body is the wrapped statement)
#[verifier::external_body]
pub fn disp_term(t: &Unifiable) -> (r: String)
    ensures r@ == disp(*t),
{ unimplemented!() /* format!("{}", t) */ }
#[verifier::external_body]
pub fn str_append(out: &mut String, s: &String)
    ensures final(out)@ == old(out)@ + s@,
{ unimplemented!() /* *out += s; */ }
