// ---------------------------------------------------------------------------
// spec/tokens.rs -- token trees (C18, tokenizer)
// ---------------------------------------------------------------------------

// TRUSTED(T1): derived PartialEq on the field-less enum TokenType is equality of variants; derived Clone copies
impl vstd::std_specs::cmp::PartialEqSpecImpl for TokenType {
    open spec fn obeys_eq_spec() -> bool { true }
    open spec fn eq_spec(&self, other: &TokenType) -> bool { *self == *other }
}
pub assume_specification[ <Token as Clone>::clone ](t: &Token) -> (r: Token)
    ensures r == *t;
pub assume_specification[ <TokenType as Clone>::clone ](t: &TokenType) -> (r: TokenType)
    ensures r == *t;

pub open spec fn ttype(t: Token) -> TokenType {
    match t { Token::Leaf{token_type, token_str} => token_type, Token::Branch{token_type, children} => token_type }
}
pub open spec fn kids(t: Token) -> Seq<Token> {
    match t { Token::Leaf{token_type, token_str} => Seq::empty(), Token::Branch{token_type, children} => children@ }
}
pub open spec fn is_leaf_type(t: TokenType) -> bool {
    t is Subgoal || t is Comma || t is Semicolon || t is LParen || t is RParen
}
pub open spec fn is_branch_type(t: TokenType) -> bool { t is Group || t is And || t is Or }

// R10 target: Display of a token type (error message only)
#[verifier::external_body]
pub fn token_type_to_string(t: TokenType) -> (r: String) { unimplemented!() /* t.to_string() */ }

// leaf texts are pieces of the input text, which is shorter than 2^31 characters (positions are kept in i32 downstream)
pub open spec fn short_leaf(t: Token) -> bool { t is Leaf && t->token_str@.len() < i32::MAX }
pub open spec fn is_sub_leaf(t: Token) -> bool { t is Leaf && ttype(t) is Subgoal && short_leaf(t) }
pub open spec fn is_branch(t: Token) -> bool { t is Branch }

// --- what token_tree_to_goal needs (it panics on anything else) ------------------------------
pub open spec fn ttg_ok(t: Token) -> bool
    decreases t,
{
    match t {
        Token::Leaf{token_type, token_str} => token_type is Subgoal && token_str@.len() < i32::MAX,
        Token::Branch{token_type, children} =>
            if token_type is And { ttg_kids_ok(children@) && no_ops(children@) }
            else if token_type is Or { ttg_kids_ok(children@) && no_or(children@) }
            else if token_type is Group { children@.len() == 1 && ttg_all(children@) }
            else { true },
    }
}
// children of an And / Or branch are operands: a Subgoal leaf, or a convertible Group / And / Or branch (C19: each of them
// becomes an operand of the goal - none is a separator or a parenthesis that could be skipped)
pub open spec fn ttg_kids_ok(s: Seq<Token>) -> bool
    decreases s,
{
    s.len() == 0 || (((ttype(s[0]) is Subgoal && short_leaf(s[0])) || (s[0] is Branch && (ttype(s[0]) is Group || ttype(s[0]) is And || ttype(s[0]) is Or) && ttg_ok(s[0])))
                     && ttg_kids_ok(s.drop_first()))
}
pub open spec fn ttg_all(s: Seq<Token>) -> bool
    decreases s,
{
    s.len() == 0 || (ttg_ok(s[0]) && ttg_all(s.drop_first()))
}
pub open spec fn ttg_kid_ok(c: Token) -> bool {
    (ttype(c) is Subgoal && short_leaf(c)) || (c is Branch && (ttype(c) is Group || ttype(c) is And || ttype(c) is Or) && ttg_ok(c))
}

pub proof fn lemma_ttg_kids_index(s: Seq<Token>, i: int)
    requires ttg_kids_ok(s), 0 <= i < s.len(),
    ensures ttg_kid_ok(s[i]),
    decreases s.len(),
{
    if i > 0 { lemma_ttg_kids_index(s.drop_first(), i - 1); }
}
pub proof fn lemma_ttg_kids_push(s: Seq<Token>, c: Token)
    requires ttg_kids_ok(s), ttg_kid_ok(c),
    ensures ttg_kids_ok(s.push(c)),
    decreases s.len(),
{
    if s.len() > 0 {
        lemma_ttg_kids_push(s.drop_first(), c);
        assert(s.push(c).drop_first() =~= s.drop_first().push(c));
        assert(s.push(c)[0] == s[0]);
        assert(ttg_kids_ok(s.push(c).drop_first()));
        assert(s.push(c).len() > 0);
    } else {
        assert(s.push(c).drop_first() =~= Seq::<Token>::empty());
        assert(s.push(c)[0] == c);
        assert(ttg_kids_ok(s.push(c).drop_first()));
        assert(s.push(c).len() > 0);
    }
}

// --- stage 1: what group_tokens builds from the token list --------------------------------------
// the list tokenize() returns: leaves only; an opening parenthesis is followed by a subgoal or another
// opening parenthesis; the first token is a subgoal or an opening parenthesis
// (the second conjunct is stated through a named predicate: written directly it mentions s[i + 1] under the trigger s[i],
// which the solver unrolls step after step - the proofs that used it sat at their resource limit, 8.48)
pub open spec fn lparen_next(s: Seq<Token>, i: int) -> bool {
    0 <= i < s.len() && ttype(s[i]) is LParen ==> i + 1 < s.len() && (ttype(s[i + 1]) is Subgoal || ttype(s[i + 1]) is LParen)
}
pub open spec fn leaves_ok(s: Seq<Token>) -> bool {
    &&& forall|i: int| 0 <= i < s.len() ==> short_leaf(#[trigger] s[i]) && is_leaf_type(ttype(s[i]))
    &&& forall|i: int| #[trigger] lparen_next(s, i)
}
pub open spec fn starts_operand(s: Seq<Token>, i: int) -> bool {
    0 <= i < s.len() && (ttype(s[i]) is Subgoal || ttype(s[i]) is LParen)
}

// a Group branch whose children are Subgoal / Comma / Semicolon leaves or such groups, with at least one operand
pub open spec fn g1ok(t: Token) -> bool
    decreases t,
{
    match t {
        Token::Leaf{token_type, token_str} => false,
        Token::Branch{token_type, children} => token_type is Group && g1kids(children@) && has_operand(children@),
    }
}
pub open spec fn g1kids(s: Seq<Token>) -> bool
    decreases s,
{
    s.len() == 0 || ((match s[0] {
        Token::Leaf{token_type, token_str} => (token_type is Subgoal || token_type is Comma || token_type is Semicolon) && token_str@.len() < i32::MAX,
        Token::Branch{token_type, children} => g1ok(s[0]),
    }) && g1kids(s.drop_first()))
}
pub open spec fn g1kid(c: Token) -> bool {
    match c {
        Token::Leaf{token_type, token_str} => (token_type is Subgoal || token_type is Comma || token_type is Semicolon) && token_str@.len() < i32::MAX,
        Token::Branch{token_type, children} => g1ok(c),
    }
}
// some child is a subgoal or a group (something a goal can be made of)
pub open spec fn has_operand(s: Seq<Token>) -> bool {
    exists|i: int| 0 <= i < s.len() && is_operand(#[trigger] s[i])
}
pub open spec fn is_operand(c: Token) -> bool { is_sub_leaf(c) || c is Branch }

pub proof fn lemma_g1kids_index(s: Seq<Token>, i: int)
    requires g1kids(s), 0 <= i < s.len(),
    ensures g1kid(s[i]),
    decreases s.len(),
{
    if i > 0 { lemma_g1kids_index(s.drop_first(), i - 1); }
}
pub proof fn lemma_g1kids_push(s: Seq<Token>, c: Token)
    requires g1kids(s), g1kid(c),
    ensures g1kids(s.push(c)),
    decreases s.len(),
{
    if s.len() > 0 {
        lemma_g1kids_push(s.drop_first(), c);
        assert(s.push(c).drop_first() =~= s.drop_first().push(c));
        assert(s.push(c)[0] == s[0]);
        assert(g1kids(s.push(c).drop_first()));
        assert(s.push(c).len() > 0);
    } else {
        assert(s.push(c).drop_first() =~= Seq::<Token>::empty());
        assert(s.push(c)[0] == c);
        assert(g1kids(s.push(c).drop_first()));
        assert(s.push(c).len() > 0);
    }
}

// --- stage 2: after group_and_tokens --------------------------------------------------------------
// children: Subgoal leaves, Semicolon leaves, And branches of convertible operands, converted groups
pub open spec fn g2kid(c: Token) -> bool {
    ||| is_sub_leaf(c)
    ||| (c is Leaf && ttype(c) is Semicolon)
    ||| (c is Branch && ttype(c) is And && ttg_ok(c))
    ||| (c is Branch && ttype(c) is Group && ttg_ok(c))
}
pub open spec fn g2kids(s: Seq<Token>) -> bool { forall|i: int| 0 <= i < s.len() ==> g2kid(#[trigger] s[i]) }
pub open spec fn has_operand2(s: Seq<Token>) -> bool {
    exists|i: int| 0 <= i < s.len() && !is_semi(#[trigger] s[i])
}
pub open spec fn g2ok(t: Token) -> bool {
    t is Branch && ttype(t) is Group && g2kids(kids(t)) && has_operand2(kids(t))
}
pub open spec fn is_semi(c: Token) -> bool { c is Leaf && ttype(c) is Semicolon }
// an operand collected for an And / Or branch
pub open spec fn operand_ok(c: Token) -> bool {
    is_sub_leaf(c) || (c is Branch && (ttype(c) is And || ttype(c) is Group) && ttg_ok(c))
}
pub open spec fn operands_ok(s: Seq<Token>) -> bool { forall|i: int| 0 <= i < s.len() ==> operand_ok(#[trigger] s[i]) }

pub proof fn lemma_operands_ttg(s: Seq<Token>)
    requires operands_ok(s),
    ensures ttg_kids_ok(s),
    decreases s.len(),
{
    if s.len() > 0 {
        assert(operand_ok(s[0]));
        assert forall|i: int| 0 <= i < s.drop_first().len() implies operand_ok(#[trigger] s.drop_first()[i]) by {
            assert(s.drop_first()[i] == s[i + 1]);
        }
        lemma_operands_ttg(s.drop_first());
    }
}

pub proof fn lemma_has_operand_push(s: Seq<Token>, c: Token)
    ensures
        is_operand(c) ==> has_operand(s.push(c)),
        has_operand(s) ==> has_operand(s.push(c)),
{
    if is_operand(c) { assert(is_operand(s.push(c)[s.len() as int])); }
    if has_operand(s) {
        let i = choose|i: int| 0 <= i < s.len() && is_operand(#[trigger] s[i]);
        assert(is_operand(s.push(c)[i]));
    }
}

pub proof fn lemma_has_operand2_push(s: Seq<Token>, c: Token)
    ensures
        !is_semi(c) ==> has_operand2(s.push(c)),
        has_operand2(s) ==> has_operand2(s.push(c)),
{
    if !is_semi(c) { assert(!is_semi(s.push(c)[s.len() as int])); }
    if has_operand2(s) {
        let i = choose|i: int| 0 <= i < s.len() && !is_semi(#[trigger] s[i]);
        assert(!is_semi(s.push(c)[i]));
    }
}
pub open spec fn seen_operand(s: Seq<Token>, k: int) -> bool {
    exists|j: int| 0 <= j < k && j < s.len() && is_operand(#[trigger] s[j])
}
pub proof fn lemma_seen_step(s: Seq<Token>, k: int)
    requires 0 <= k < s.len(),
    ensures seen_operand(s, k + 1) == (seen_operand(s, k) || is_operand(s[k])),
{
    if seen_operand(s, k + 1) {
        let j = choose|j: int| 0 <= j < k + 1 && j < s.len() && is_operand(#[trigger] s[j]);
        if j < k { assert(seen_operand(s, k)); }
    }
    if seen_operand(s, k) {
        let j = choose|j: int| 0 <= j < k && j < s.len() && is_operand(#[trigger] s[j]);
        assert(is_operand(s[j]));
    }
    if is_operand(s[k]) { assert(seen_operand(s, k + 1)); }
}
pub proof fn lemma_seen_all(s: Seq<Token>)
    requires has_operand(s),
    ensures seen_operand(s, s.len() as int),
{
    let i = choose|i: int| 0 <= i < s.len() && is_operand(#[trigger] s[i]);
    assert(is_operand(s[i]));
}

// ---------------------------------------------------------------------------
// tokenize: what the texts it cuts can be (C18; replaces the clause that used to be assumed)
// ---------------------------------------------------------------------------
pub open spec fn is_sep(c: char) -> bool { c == '(' || c == ')' || c == ',' || c == ';' }

// letter_number_hyphen, as a spec function (the character ranges of the source)
pub open spec fn lnh(ch: char) -> bool {
    ('a' <= ch && ch <= 'z') || ('A' <= ch && ch <= 'Z') || ('0' <= ch && ch <= '9')
    || ch == '_' || ch == '-' || ch == '\u{ad}'
    || ('\u{c0}' <= ch && ch < '\u{2c0}') || ('\u{380}' <= ch && ch < '\u{510}')
}

// TRUSTED(T3): white space (char::is_whitespace, what str::trim removes) is none of the characters the
// tokenizer gives a meaning to: not a letter / digit / hyphen of `lnh`, not a backslash, quote, bracket or separator
pub axiom fn axiom_ws_is_not_a_symbol()
    ensures forall|c: char| #[trigger] is_ws(c) ==> !lnh(c) && c != '\\' && c != '"' && c != '(' && c != ')'
                && c != '[' && c != ']' && c != ',' && c != ';' && c != '#' && c != '@';

#[verifier::opaque]
pub open spec fn all_ws_in(s: Seq<char>, lo: int, hi: int) -> bool {
    forall|k: int| lo <= k < hi ==> is_ws(#[trigger] s[k])
}
// some character of the range is neither white space nor a separator symbol
#[verifier::opaque]
pub open spec fn has_other(s: Seq<char>, lo: int, hi: int) -> bool {
    exists|k: int| lo <= k < hi && !is_ws(#[trigger] s[k]) && !is_sep(s[k])
}
// every opening parenthesis in the range comes with another character of the range that is not white space
#[verifier::opaque]
pub open spec fn lparen_not_alone(s: Seq<char>, lo: int, hi: int) -> bool {
    forall|k: int| lo <= k < hi && #[trigger] s[k] == '(' ==> exists|m: int| lo <= m < hi && m != k && !is_ws(#[trigger] s[m])
}

// trimming keeps every character that is not white space
pub proof fn lemma_trim_contains(r: Seq<char>, t: Seq<char>, k: int)
    requires is_trim_of(r, t), 0 <= k < t.len(), !is_ws(t[k]),
    ensures exists|m: int| 0 <= m < r.len() && #[trigger] r[m] == t[k],
{
    let (i, j) = choose|i: int, j: int| trim_at(r, t, i, j);
    assert(trim_at(r, t, i, j));
    if k < i { assert(is_ws(t[k])); }
    if k >= j { assert(is_ws(t[k])); }
    assert(r[k - i] == t[k]);
}
pub proof fn lemma_trim_two(r: Seq<char>, t: Seq<char>, k: int, m: int)
    requires is_trim_of(r, t), 0 <= k < t.len(), 0 <= m < t.len(), k != m, !is_ws(t[k]), !is_ws(t[m]),
    ensures r.len() >= 2,
{
    let (i, j) = choose|i: int, j: int| trim_at(r, t, i, j);
    assert(trim_at(r, t, i, j));
    if k < i { assert(is_ws(t[k])); }
    if k >= j { assert(is_ws(t[k])); }
    if m < i { assert(is_ws(t[m])); }
    if m >= j { assert(is_ws(t[m])); }
}
// the characters of a trimmed text are characters of the text
pub proof fn lemma_trim_sub(r: Seq<char>, t: Seq<char>, m: int)
    requires is_trim_of(r, t), 0 <= m < r.len(),
    ensures exists|k: int| 0 <= k < t.len() && #[trigger] t[k] == r[m],
{
    let (i, j) = choose|i: int, j: int| trim_at(r, t, i, j);
    assert(trim_at(r, t, i, j));
    assert(t[i + m] == r[m]);
}

// the text of a leaf and the type make_leaf_token gives it
pub open spec fn leaf_of(r: Seq<char>, t: Token) -> bool {
    &&& t is Leaf && t->token_str@ == r
    &&& (ttype(t) is Comma <==> r == ","@)
    &&& (ttype(t) is Semicolon <==> r == ";"@)
    &&& (ttype(t) is LParen <==> r == "("@)
    &&& (ttype(t) is RParen <==> r == ")"@)
    &&& (ttype(t) is Subgoal <==> (r != ","@ && r != ";"@ && r != "("@ && r != ")"@))
}

// a text cut while an operand is due (all white space, or containing a character that is no separator): a Subgoal
pub proof fn lemma_cut_is_subgoal(t: Seq<char>, r: Seq<char>, tok: Token)
    requires is_trim_of(r, t), leaf_of(r, tok), all_ws_in(t, 0, t.len() as int) || has_other(t, 0, t.len() as int),
    ensures ttype(tok) is Subgoal,
{
    reveal(all_ws_in); reveal(has_other);
    reveal_strlit("("); reveal_strlit(")"); reveal_strlit(","); reveal_strlit(";");
    axiom_ws_is_not_a_symbol();
    if r == ","@ || r == ";"@ || r == "("@ || r == ")"@ {
        assert(r.len() == 1);
        lemma_trim_sub(r, t, 0);
        let k0 = choose|k: int| 0 <= k < t.len() && #[trigger] t[k] == r[0];
        if all_ws_in(t, 0, t.len() as int) {
            assert(is_ws(t[k0]));
        } else {
            let k = choose|k: int| 0 <= k < t.len() && !is_ws(#[trigger] t[k]) && !is_sep(t[k]);
            lemma_trim_contains(r, t, k);
            let m = choose|m: int| 0 <= m < r.len() && #[trigger] r[m] == t[k];
            assert(m == 0);
        }
    }
}
// a text in which no opening parenthesis stands alone is not the symbol "("
pub proof fn lemma_cut_is_not_lparen(t: Seq<char>, r: Seq<char>, tok: Token)
    requires is_trim_of(r, t), leaf_of(r, tok), lparen_not_alone(t, 0, t.len() as int),
    ensures !(ttype(tok) is LParen),
{
    reveal(lparen_not_alone);
    reveal_strlit("(");
    axiom_ws_is_not_a_symbol();
    if r == "("@ {
        assert(r.len() == 1 && r[0] == '(');
        lemma_trim_sub(r, t, 0);
        let k = choose|k: int| 0 <= k < t.len() && #[trigger] t[k] == r[0];
        assert(t[k] == '(');
        let m = choose|m: int| 0 <= m < t.len() && m != k && !is_ws(#[trigger] t[m]);
        lemma_trim_two(r, t, k, m);
    }
}

// TRUSTED(T2): a &str is determined by its characters (vstd gives `match s { "lit" => .. }` the meaning `s == "lit"` on
// the opaque type str, and has no axiom relating that equality to the view)
pub axiom fn axiom_str_ext()
    ensures forall|a: &str, b: &str| #![trigger a@, b@] a@ == b@ ==> a == b;

// facts about a range of the text carry over to the text cut out of it
pub proof fn lemma_cut_facts(s: Seq<char>, lo: int, hi: int)
    requires 0 <= lo <= hi <= s.len(),
    ensures
        all_ws_in(s, lo, hi) ==> all_ws_in(s.subrange(lo, hi), 0, hi - lo),
        has_other(s, lo, hi) ==> has_other(s.subrange(lo, hi), 0, hi - lo),
        lparen_not_alone(s, lo, hi) ==> lparen_not_alone(s.subrange(lo, hi), 0, hi - lo),
{
    reveal(all_ws_in); reveal(has_other); reveal(lparen_not_alone);
    let t = s.subrange(lo, hi);
    if all_ws_in(s, lo, hi) {
        assert forall|k: int| 0 <= k < hi - lo implies is_ws(#[trigger] t[k]) by { assert(is_ws(s[lo + k])); }
    }
    if has_other(s, lo, hi) {
        let k = choose|k: int| lo <= k < hi && !is_ws(#[trigger] s[k]) && !is_sep(s[k]);
        assert(t[k - lo] == s[k]);
        assert(!is_ws(t[k - lo]) && !is_sep(t[k - lo]));
    }
    if lparen_not_alone(s, lo, hi) {
        assert forall|k: int| 0 <= k < hi - lo && #[trigger] t[k] == '(' implies
            exists|m: int| 0 <= m < hi - lo && m != k && !is_ws(#[trigger] t[m]) by {
            assert(s[lo + k] == '(');
            let m = choose|m: int| lo <= m < hi && m != lo + k && !is_ws(#[trigger] s[m]);
            assert(t[m - lo] == s[m]);
            assert(0 <= m - lo < hi - lo && m - lo != k && !is_ws(t[m - lo]));
        }
    }
}

// the four symbol texts are their own trimmed form, so make_leaf_token types them as the symbol
pub proof fn lemma_symbol_leaf(sym: Seq<char>, tok: Token)
    requires sym.len() == 1, is_sep(sym[0]), is_trim_of(trimmed(sym), sym), leaf_of(trimmed(sym), tok),
    ensures
        sym == "("@ ==> ttype(tok) is LParen,
        sym == ")"@ ==> ttype(tok) is RParen,
        sym == ","@ ==> ttype(tok) is Comma,
        sym == ";"@ ==> ttype(tok) is Semicolon,
{
    axiom_ws_is_not_a_symbol();
    let r = trimmed(sym);
    lemma_trim_contains(r, sym, 0);
    lemma_trim_len(r, sym);
    assert(r.len() == 1 && r[0] == sym[0]);
    assert(r =~= sym);
}

// --- one step of the scan over the pending text [lo, hi) ----------------------------------------------------
pub proof fn lemma_range_empty(s: Seq<char>, lo: int)
    ensures all_ws_in(s, lo, lo), lparen_not_alone(s, lo, lo), !has_other(s, lo, lo),
{
    reveal(all_ws_in); reveal(has_other); reveal(lparen_not_alone);
}
pub proof fn lemma_ws_step(s: Seq<char>, lo: int, hi: int)
    requires all_ws_in(s, lo, hi), is_ws(s[hi]),
    ensures all_ws_in(s, lo, hi + 1),
{
    reveal(all_ws_in);
}
pub proof fn lemma_ws_last(s: Seq<char>, lo: int, hi: int)
    requires all_ws_in(s, lo, hi), lo < hi,
    ensures is_ws(s[hi - 1]),
{
    reveal(all_ws_in);
}
pub proof fn lemma_other_grows(s: Seq<char>, lo: int, hi: int, hi2: int)
    requires has_other(s, lo, hi), hi <= hi2,
    ensures has_other(s, lo, hi2),
{
    reveal(has_other);
    let k = choose|k: int| lo <= k < hi && !is_ws(#[trigger] s[k]) && !is_sep(s[k]);
    assert(lo <= k < hi2 && !is_ws(s[k]) && !is_sep(s[k]));
}
pub proof fn lemma_other_new(s: Seq<char>, lo: int, k: int, hi: int)
    requires lo <= k < hi, !is_ws(s[k]), !is_sep(s[k]),
    ensures has_other(s, lo, hi),
{
    reveal(has_other);
}
// the range grows by characters none of which is a lone opening parenthesis: either it is not one at all ...
pub proof fn lemma_lp_step_other(s: Seq<char>, lo: int, hi: int)
    requires lparen_not_alone(s, lo, hi), s[hi] != '(',
    ensures lparen_not_alone(s, lo, hi + 1),
{
    reveal(lparen_not_alone);
    assert forall|k: int| lo <= k < hi + 1 && #[trigger] s[k] == '(' implies exists|m: int| lo <= m < hi + 1 && m != k && !is_ws(#[trigger] s[m]) by {
        let m = choose|m: int| lo <= m < hi && m != k && !is_ws(#[trigger] s[m]);
        assert(lo <= m < hi + 1 && m != k && !is_ws(s[m]));
    }
}
// ... or the character before it, inside the range, is not white space
pub proof fn lemma_lp_step_companion(s: Seq<char>, lo: int, hi: int)
    requires lparen_not_alone(s, lo, hi), lo < hi, !is_ws(s[hi - 1]),
    ensures lparen_not_alone(s, lo, hi + 1),
{
    reveal(lparen_not_alone);
    assert forall|k: int| lo <= k < hi + 1 && #[trigger] s[k] == '(' implies exists|m: int| lo <= m < hi + 1 && m != k && !is_ws(#[trigger] s[m]) by {
        if k < hi {
            let m = choose|m: int| lo <= m < hi && m != k && !is_ws(#[trigger] s[m]);
            assert(lo <= m < hi + 1 && m != k && !is_ws(s[m]));
        } else {
            assert(lo <= hi - 1 < hi + 1 && hi - 1 != k && !is_ws(s[hi - 1]));
        }
    }
}
// a quoted stretch: the opening quotation mark at q accompanies every parenthesis after it
pub proof fn lemma_lp_quote(s: Seq<char>, lo: int, q: int, hi: int)
    requires lparen_not_alone(s, lo, q), lo <= q < hi, !is_ws(s[q]), s[q] != '(',
    ensures lparen_not_alone(s, lo, hi),
{
    reveal(lparen_not_alone);
    assert forall|k: int| lo <= k < hi && #[trigger] s[k] == '(' implies exists|m: int| lo <= m < hi && m != k && !is_ws(#[trigger] s[m]) by {
        if k < q {
            let m = choose|m: int| lo <= m < q && m != k && !is_ws(#[trigger] s[m]);
            assert(lo <= m < hi && m != k && !is_ws(s[m]));
        } else {
            assert(lo <= q < hi && q != k && !is_ws(s[q]));
        }
    }
}

pub proof fn lemma_ws_elem(s: Seq<char>, lo: int, hi: int, k: int)
    requires all_ws_in(s, lo, hi), lo <= k < hi,
    ensures is_ws(s[k]),
{
    reveal(all_ws_in);
}
pub proof fn lemma_ws_prefix(s: Seq<char>, lo: int, mid: int, hi: int)
    requires all_ws_in(s, lo, hi), mid <= hi,
    ensures all_ws_in(s, lo, mid),
{
    reveal(all_ws_in);
}

// what the scan knows about the tokens pushed so far (opaque: maintained by lemma_tok_push at every push)
pub open spec fn is_operand_type(t: TokenType) -> bool { t is Subgoal || t is LParen }
pub open spec fn next_ok(ts: Seq<Token>, k: int) -> bool {
    (0 <= k && k + 1 < ts.len() && ttype(ts[k]) is LParen) ==> is_operand_type(ttype(ts[k + 1]))
}
pub open spec fn leaf_ok(ts: Seq<Token>, k: int) -> bool {
    0 <= k < ts.len() ==> short_leaf(ts[k]) && is_leaf_type(ttype(ts[k]))
}
#[verifier::opaque]
pub open spec fn tok_inv(ts: Seq<Token>) -> bool {
    &&& forall|k: int| #[trigger] leaf_ok(ts, k)
    &&& forall|k: int| #[trigger] next_ok(ts, k)
    &&& (ts.len() > 0 ==> is_operand_type(ttype(ts[0])))
}
// an operand is due: nothing has been pushed yet, or the last token is an opening parenthesis
pub open spec fn operand_due(ts: Seq<Token>) -> bool {
    ts.len() == 0 || ttype(ts[ts.len() - 1]) is LParen
}
pub proof fn lemma_tok_empty()
    ensures tok_inv(Seq::<Token>::empty()),
{
    reveal(tok_inv);
}
pub proof fn lemma_tok_push(ts: Seq<Token>, t: Token)
    requires tok_inv(ts), short_leaf(t), is_leaf_type(ttype(t)),
             operand_due(ts) ==> is_operand_type(ttype(t)),
    ensures tok_inv(ts.push(t)),
{
    reveal(tok_inv);
    let t2 = ts.push(t);
    assert forall|k: int| #[trigger] leaf_ok(t2, k) by {
        if 0 <= k < ts.len() { assert(leaf_ok(ts, k)); assert(t2[k] == ts[k]); }
    }
    assert forall|k: int| #[trigger] next_ok(t2, k) by {
        if 0 <= k && k + 1 < t2.len() {
            assert(t2[k] == ts[k]);
            if k + 1 < ts.len() { assert(next_ok(ts, k)); assert(t2[k + 1] == ts[k + 1]); }
        }
    }
    if ts.len() > 0 { assert(t2[0] == ts[0]); }
}
// (the second conjunct of leaves_ok mentions s[i + 1] under the trigger s[i]: the solver unrolls it a few steps; this lemma sat at
// 95-105% of the default resource limit, i.e. it was one harmless change away from a spurious failure - given room)
pub proof fn lemma_tok_done(ts: Seq<Token>)
    requires tok_inv(ts), !operand_due(ts),
    ensures leaves_ok(ts), starts_operand(ts, 0),
            forall|k: int| 0 <= k < ts.len() ==> short_leaf(#[trigger] ts[k]) && is_leaf_type(ttype(ts[k])),
{
    reveal(tok_inv);
    assert forall|k: int| 0 <= k < ts.len() implies short_leaf(#[trigger] ts[k]) && is_leaf_type(ttype(ts[k])) by {
        assert(leaf_ok(ts, k));
    }
    assert forall|i: int| #[trigger] lparen_next(ts, i) by {
        assert(next_ok(ts, i));
    }
}

// C19 (goal structure): the goal built from an And / Or branch has the same kind and one operand per child
pub open spec fn operands_kept(t: Token, g: Goal) -> bool {
    &&& (t is Branch && ttype(t) is And ==> match g { Goal::OperatorGoal(Operator::And(v)) => v@.len() == kids(t).len(), _ => false })
    &&& (t is Branch && ttype(t) is Or ==> match g { Goal::OperatorGoal(Operator::Or(v)) => v@.len() == kids(t).len(), _ => false })
}
pub open spec fn res_operands_kept(t: Token, r: Result<Goal, String>) -> bool {
    match r { Ok(g) => operands_kept(t, g), Err(_) => true }
}

// children of an And branch: Subgoal leaves and convertible Groups only (conjunctions are formed before disjunctions, so an
// And branch never holds an And or an Or branch directly)
pub open spec fn no_ops(s: Seq<Token>) -> bool {
    forall|i: int| 0 <= i < s.len() ==> !(ttype(#[trigger] s[i]) is And) && !(ttype(s[i]) is Or)
}
pub open spec fn and_kids_ok(s: Seq<Token>) -> bool { ttg_kids_ok(s) && no_ops(s) }
// an Or branch holds no Or branch directly (its operands are Subgoal leaves, And branches and Groups)
pub open spec fn no_or(s: Seq<Token>) -> bool {
    forall|i: int| 0 <= i < s.len() ==> !(ttype(#[trigger] s[i]) is Or)
}
pub open spec fn or_kids_ok(s: Seq<Token>) -> bool { ttg_kids_ok(s) && no_or(s) }
pub proof fn lemma_operands_no_or(s: Seq<Token>)
    requires operands_ok(s),
    ensures no_or(s),
{
    assert forall|i: int| 0 <= i < s.len() implies !(ttype(#[trigger] s[i]) is Or) by { assert(operand_ok(s[i])); }
}
pub open spec fn and_kid_ok(c: Token) -> bool {
    (ttype(c) is Subgoal && short_leaf(c)) || (c is Branch && ttype(c) is Group && ttg_ok(c))
}
pub proof fn lemma_and_kids_index(s: Seq<Token>, i: int)
    requires and_kids_ok(s), 0 <= i < s.len(),
    ensures and_kid_ok(s[i]),
{
    lemma_ttg_kids_index(s, i);
}
pub open spec fn and_operand_ok(c: Token) -> bool {
    is_sub_leaf(c) || (c is Branch && ttype(c) is Group && ttg_ok(c))
}
pub open spec fn and_operands_ok(s: Seq<Token>) -> bool { forall|i: int| 0 <= i < s.len() ==> and_operand_ok(#[trigger] s[i]) }
pub proof fn lemma_and_operands_ttg(s: Seq<Token>)
    requires and_operands_ok(s),
    ensures and_kids_ok(s), operands_ok(s),
{
    assert forall|i: int| 0 <= i < s.len() implies operand_ok(#[trigger] s[i]) by { assert(and_operand_ok(s[i])); }
    lemma_operands_ttg(s);
    assert forall|i: int| 0 <= i < s.len() implies !(ttype(#[trigger] s[i]) is And) && !(ttype(s[i]) is Or) by { assert(and_operand_ok(s[i])); }
}
