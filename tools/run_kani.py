#!/usr/bin/env python3
"""run_kani.py -- run named Kani harnesses of /verif/kani against the real crate.

Each harness runs in its own process group (timeout kills the group: `timeout`
alone leaves cbmc orphaned), with an RSS watchdog.  A harness is
  complete  loop-free or fully unwound (unwinding assertions on) over full-domain
            scalars: its checks count as discharged obligations;
  bounded   a stand-in with a stated bound: reported, never counted as proved.
A FAILED harness is a failed obligation (named harness / failed check); a
timeout, OOM or unsupported construct is UNDECIDED.
"""
import os, sys, re, json, time, signal, subprocess, hashlib, threading

HERE = os.path.dirname(os.path.abspath(__file__))
VERIF = os.path.dirname(HERE)
BUILD = os.path.join(VERIF, 'build')
sys.path.insert(0, HERE)
import kani_config  # noqa


def crate_dir(repo):
    import check as _c
    d = _c.bdir(repo, 'kani')
    os.makedirs(os.path.join(d, '.cargo'), exist_ok=True)
    toml = '''[package]
name = "vkani"
version = "0.1.0"
edition = "2021"
[lib]
path = "%s/kani/src/lib.rs"
[dependencies]
suiron = { package = "suiron-rust", path = "%s" }
thread_timer = "0.3.0"
[features]
arith = []
cmpf = []
pq = []
cutwalk = []
[workspace]
[lints.rust]
unexpected_cfgs = { level = "allow" }
''' % (VERIF, os.path.abspath(repo))
    p = os.path.join(d, 'Cargo.toml')
    if not os.path.exists(p) or open(p).read() != toml:
        open(p, 'w').write(toml)
    open(os.path.join(d, '.cargo', 'config.toml'), 'w').write('[net]\noffline = true\n')
    lock = os.path.join(os.path.abspath(repo), 'Cargo.lock')
    return d


def rss_of_group(pgid):
    total = 0
    try:
        for pid in os.listdir('/proc'):
            if not pid.isdigit():
                continue
            try:
                with open('/proc/%s/stat' % pid) as f:
                    st = f.read()
                # field 5 is pgrp
                rest = st[st.rfind(')') + 2:].split()
                if int(rest[2]) != pgid:
                    continue
                with open('/proc/%s/statm' % pid) as f:
                    total += int(f.read().split()[1]) * 4096
            except Exception:
                continue
    except Exception:
        pass
    return total


def run_one(d, h, spec, results):
    cmd = ['cargo', 'kani', '-Z', 'stubbing', '-Z', 'function-contracts', '--harness', h, '--exact'] + spec.get('args', [])
    # --exact needs the fully qualified name
    cmd = ['cargo', 'kani', '-Z', 'stubbing', '-Z', 'function-contracts', '--harness', h] + spec.get('args', [])
    if spec.get('feature'):
        cmd += ['--features', spec['feature']]
    env = dict(os.environ, CARGO_NET_OFFLINE='true')
    t0 = time.time()
    timeout = spec.get('timeout', 900)
    mem_limit = spec.get('mem_gb', 14) * (1 << 30)
    p = subprocess.Popen(cmd, cwd=d, env=env, stdout=subprocess.PIPE, stderr=subprocess.STDOUT, text=True,
                         preexec_fn=os.setsid)
    out_chunks = []

    def reader():
        for line in p.stdout:
            out_chunks.append(line)
    th = threading.Thread(target=reader, daemon=True)
    th.start()
    status = None
    peak = 0
    while True:
        if p.poll() is not None:
            break
        el = time.time() - t0
        r = rss_of_group(p.pid)
        peak = max(peak, r)
        if el > timeout:
            status = 'timeout after %ds' % timeout
        elif r > mem_limit:
            status = 'memory limit (%.1f GB) exceeded' % (mem_limit / 2 ** 30)
        if status:
            try:
                os.killpg(p.pid, signal.SIGKILL)
            except Exception:
                pass
            break
        time.sleep(0.5)
    p.wait()
    th.join(timeout=5)
    out = ''.join(out_chunks)
    res = {'harness': h, 'wall_s': round(time.time() - t0, 1), 'peak_rss_gb': round(peak / 2 ** 30, 2),
           'cmd': ' '.join(cmd), 'undecided': status, 'failed_checks': [], 'checks': 0, 'failed': 0,
           'cover_ok': None, 'stubs': re.findall(r'- Stub: (.*)', out), 'output_tail': out[-3000:]}
    if status is None:
        m = re.search(r'\*\* (\d+) of (\d+) failed', out)
        if m:
            res['failed'] = int(m.group(1))
            res['checks'] = int(m.group(2))
        mc = re.search(r'\*\* (\d+) of (\d+) cover properties satisfied', out)
        if mc:
            res['cover_ok'] = (mc.group(1) == mc.group(2))
        if 'VERIFICATION:- SUCCESSFUL' in out:
            res['verdict'] = 'ok'
        elif 'VERIFICATION:- FAILED' in out:
            res['verdict'] = 'failed'
            fc = re.findall(r'Failed Checks: (.*)\n\s*File: "([^"]*)", line (\d+)', out)
            res['failed_checks'] = [{'desc': a.strip(), 'file': b, 'line': int(c)} for a, b, c in fc]
            # failures that are tool limits, not property failures
            if any('unsupported' in f['desc'].lower() or 'not currently supported' in f['desc'] for f in res['failed_checks']) or \
               re.search(r'Failed Checks:.*(unwinding assertion|not currently supported)', out):
                unwind = re.findall(r'Failed Checks: (unwinding assertion[^\n]*)', out)
                if unwind and len(unwind) == len(res['failed_checks']):
                    res['undecided'] = 'unwinding bound too small: ' + unwind[0]
                elif any('not currently supported' in f['desc'] for f in res['failed_checks']) and \
                        all(('not currently supported' in f['desc']) or f['desc'].startswith('unwinding') for f in res['failed_checks']):
                    res['undecided'] = 'unsupported construct reached: ' + res['failed_checks'][0]['desc'][:120]
        else:
            res['undecided'] = 'no verdict (compile error or crash): ' + out[-400:].replace('\n', ' | ')
    results[h] = res


def scan_frame(repo):
    """Frame fact the make_query stub relies on: the stop flag is private to time_out.rs, is written only
    by start_query_timer / start_query / stop_query, and none of those is called from the renaming call
    graph (unifiable.rs, logic_var.rs, s_linked_list.rs).  Returns None if it holds, else a reason."""
    from rustlex import find_items, lex
    src = os.path.join(repo, 'src')
    for f in sorted(os.listdir(src)):
        if not f.endswith('.rs'):
            continue
        text = open(os.path.join(src, f)).read()
        toks = [t for t in lex(text) if t.kind == 'id']
        names = [t.text for t in toks]
        if f != 'time_out.rs' and 'SUIRON_STOP_QUERY' in names:
            return 'SUIRON_STOP_QUERY is referenced outside time_out.rs (%s)' % f
        if f in ('unifiable.rs', 'logic_var.rs', 's_linked_list.rs'):
            for n in ('stop_query', 'start_query', 'start_query_timer'):
                if n in names:
                    return '%s is called from %s (renaming call graph)' % (n, f)
    # the engine has exactly two pieces of cross-query state: any other `static mut` (or interior-mutable static)
    # would be state the harnesses do not reset
    known_statics = {('time_out.rs', 'SUIRON_STOP_QUERY'), ('logic_var.rs', 'LOGIC_VAR_ID')}
    for f in sorted(os.listdir(src)):
        if not f.endswith('.rs'):
            continue
        text = open(os.path.join(src, f)).read()
        tk = [t for t in lex(text) if t.kind not in ('ws', 'comment', 'doc')]
        for k, t in enumerate(tk):
            if t.kind == 'id' and t.text == 'static' and k + 2 < len(tk):
                if tk[k + 1].kind == 'id' and tk[k + 1].text == 'mut':
                    name = tk[k + 2].text
                    if (f, name) not in known_statics:
                        return 'a new mutable global %s in %s: cross-query state the C22 harnesses do not cover' % (name, f)
                else:
                    # immutable static: must not hide interior mutability
                    j = k + 1
                    decl = []
                    while j < len(tk) and tk[j].text != '=' and tk[j].text != ';':
                        decl.append(tk[j].text)
                        j += 1
                    if any(w in decl for w in ('Cell', 'RefCell', 'Mutex', 'RwLock', 'AtomicBool', 'AtomicUsize', 'AtomicU64', 'OnceCell', 'OnceLock', 'LazyLock')):
                        return 'a global with interior mutability in %s (%s): cross-query state the C22 harnesses do not cover' % (f, ' '.join(decl[:6]))
            if t.kind == 'id' and t.text in ('thread_local', 'lazy_static') and k + 1 < len(tk) and tk[k + 1].text == '!':
                return 'a %s! global in %s: cross-query state the C22 harnesses do not cover' % (t.text, f)
    text = open(os.path.join(src, 'time_out.rs')).read()
    toks, items = find_items(text)
    for it in items:
        if it.kind != 'fn':
            continue
        body = text[it.start:it.end]
        if re.search(r'SUIRON_STOP_QUERY\s*=[^=]', body) and it.name not in ('start_query_timer', 'start_query', 'stop_query'):
            return 'SUIRON_STOP_QUERY is written in %s' % it.name
    return None


def run(prop, harnesses, repo, cfg, tier):
    d = crate_dir(repo)
    specs = kani_config.HARNESSES
    results = {}
    # build once (sequentially) so that parallel jobs do not fight over the cargo lock
    env = dict(os.environ, CARGO_NET_OFFLINE='true')
    feats = sorted(set(specs.get(h, {}).get('feature') for h in harnesses if specs.get(h, {}).get('feature')))
    for fs in ([None] if not feats else feats):
        subprocess.run(['cargo', 'kani', '-Z', 'stubbing', '-Z', 'function-contracts', '--only-codegen'] + (['--features', fs] if fs else []),
                       cwd=d, env=env, stdout=subprocess.PIPE, stderr=subprocess.STDOUT, text=True)
    maxpar = int(os.environ.get('VERIF_KANI_JOBS', '6'))
    pending = list(harnesses)
    running = []
    while pending or running:
        running = [t for t in running if t.is_alive()]
        while pending and len(running) < maxpar:
            h = pending.pop(0)
            t = threading.Thread(target=run_one, args=(d, h, specs.get(h, {}), results))
            t.start()
            running.append(t)
        time.sleep(0.3)
    out = {'obligations': 0, 'discharged': 0, 'violations': [], 'undecided': [], 'samples': [], 'bounded': [],
           'assumptions': [], 'cmd': 'cargo kani -Z stubbing -Z function-contracts --harness <h>  (in build/kani, suiron = path:%s)' % repo,
           'version': kani_version(), 'harnesses': []}
    os.makedirs(os.path.join(BUILD, 'replay_cases'), exist_ok=True)
    for h in harnesses:
        r = results.get(h)
        spec = specs.get(h, {})
        if r is None:
            out['undecided'].append('%s: did not run' % h)
            continue
        out['harnesses'].append({k: r[k] for k in ('harness', 'wall_s', 'peak_rss_gb', 'checks', 'failed', 'undecided', 'stubs')})
        complete = spec.get('complete', False)
        for st in spec.get('need_stubs', []):
            if not any(st in s for s in r['stubs']) and not r['undecided']:
                r['undecided'] = 'expected stub %s was not applied' % st
        if spec.get('frame_scan') and not r['undecided']:
            why = scan_frame(repo)
            if why:
                r['undecided'] = 'frame assumption of the stub no longer holds: ' + why
        if r['undecided']:
            out['undecided'].append('%s: %s' % (h, r['undecided']))
            if not complete:
                out['bounded'].append({'harness': h, 'bound': spec.get('bound', ''), 'result': 'undecided'})
            continue
        if r.get('cover_ok') is False:
            out['undecided'].append('%s: vacuous harness (cover property not satisfied)' % h)
            continue
        if r['verdict'] == 'ok':
            if complete:
                out['obligations'] += r['checks']
                out['discharged'] += r['checks']
                out['samples'].append('kani %s: %d checks, %.1fs, %s' % (h, r['checks'], r['wall_s'], spec.get('what', '')))
            else:
                out['bounded'].append({'harness': h, 'bound': spec.get('bound', ''), 'result': 'passed (bounded, not counted)', 'checks': r['checks']})
        else:
            if complete:
                out['obligations'] += r['checks']
                out['discharged'] += r['checks'] - r['failed']
            for fcheck in r['failed_checks']:
                name = 'kani %s / %s' % (h, fcheck['desc'])
                wit, summ = None, None
                oracle = spec.get('oracle')
                if oracle:
                    import check
                    binp, err = check.build_replay(repo)
                    if binp:
                        try:
                            wit, summ = check.find_witness(binp, oracle, int(os.environ.get('VERIF_SEED', '1') or 1))
                        except subprocess.TimeoutExpired:
                            pass
                hsh = hashlib.sha1(name.encode()).hexdigest()[:10]
                path = os.path.join(BUILD, 'replay_cases', '%s-%s.json' % (prop, hsh))
                rec = {'property': prop, 'obligation': name, 'verifier_message': fcheck['desc'],
                       'verifier_output': r['output_tail'], 'oracle': oracle, 'witness': wit, 'search': summ,
                       'harness': h, 'harness_file': fcheck['file'], 'harness_line': fcheck['line']}
                json.dump(rec, open(path, 'w'), indent=1)
                out['violations'].append({'obligation': name, 'replay': path, 'witness': wit, 'case': wit['case'] if wit else '-'})
    for h in harnesses:
        for a in specs.get(h, {}).get('assumptions', []):
            if a not in out['assumptions']:
                out['assumptions'].append(a)
    return out


def kani_version():
    try:
        p = subprocess.run(['cargo', 'kani', '--version'], stdout=subprocess.PIPE, stderr=subprocess.STDOUT, text=True)
        return p.stdout.strip().split('\n')[0]
    except Exception:
        return 'kani ?'


if __name__ == '__main__':
    import config
    prop = sys.argv[1]
    hs = sys.argv[2:]
    r = run(prop, hs, '/repo', {}, 'quick')
    print(json.dumps({k: v for k, v in r.items() if k != 'harnesses'}, indent=1)[:4000])
    for h in r['harnesses']:
        print(h)
