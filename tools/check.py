#!/usr/bin/env python3
"""check.py <PROPERTY> <quick|thorough> [--repo DIR] [--replay FILE]

Decides one property on /repo's current working tree:
  1. re-extract the functions the property depends on (tools/extract.py) and
     inject their contracts;
  2. run Verus on every unit (and the Kani harnesses of the tier);
  3. classify: all discharged -> exit 0; tool limit / lost anchor -> exit 2
     (UNDECIDED); a failed obligation -> VIOLATION (exit 1) unless listed in
     known_findings.txt (KNOWN-FINDING, exit 0);
  4. write evidence/<ID>.json.
"""
import sys, os, json, re, subprocess, time, hashlib, shutil, signal

HERE = os.path.dirname(os.path.abspath(__file__))
VERIF = os.path.dirname(HERE)
sys.path.insert(0, HERE)
import extract  # noqa
import config   # noqa

BUILD = os.path.join(VERIF, 'build')


def bdir(repo, name):
    """build directory for `name`, separate per tree under check (so that a check of a scratch
    copy cannot disturb a concurrent check of /repo)"""
    r = os.path.abspath(repo)
    if r == '/repo':
        return os.path.join(BUILD, name)
    return os.path.join(BUILD, '%s_%s' % (name, hashlib.sha1(r.encode()).hexdigest()[:8]))
VERIF_MSGS = (
    'postcondition not satisfied', 'precondition not satisfied',
    'invariant not satisfied at end of loop body', 'loop invariant not satisfied',
    'invariant not satisfied before loop', 'assertion failed', 'assertion failure',
    'possible arithmetic underflow/overflow', 'possible division by zero',
    'decreases not satisfied', 'could not prove termination',
    'loop must have a decreases clause', 'possible bit shift underflow/overflow',
    'unreachable', 'cannot show invariant holds', 'failed to prove',
)
LIMIT_MSGS = ('rlimit', 'Resource limit', 'resource limit', 'timed out', 'timeout')


def sh(cmd, **kw):
    return subprocess.run(cmd, stdout=subprocess.PIPE, stderr=subprocess.PIPE, text=True, **kw)


# ----------------------------------------------------------------------------
class UnitResult:
    def __init__(self, unit):
        self.unit = unit
        self.undecided = None     # reason string
        self.failures = []        # dicts
        self.info = None
        self.times = {}
        self.verified = 0
        self.errors = 0
        self.cmd = ''
        self.assumptions = []
        self.canary = None
        self.wall = 0.0
        self.verus_version = ''


def scan_assumptions(lines, origin):
    """mechanical scan of the generated file for everything that is assumed"""
    found = []
    pats = [
        (r'\bassume\s*\(', 'assume'), (r'\badmit\s*\(', 'admit'),
        (r'external_body', 'external_body'), (r'assume_specification', 'assume_specification'),
        (r'\buninterp\b', 'uninterp spec fn'), (r'\baxiom\b', 'axiom'),
        (r'exec_allows_no_decreases_clause', 'no termination proof'),
        (r'external_derive', 'external_derive'), (r'external_type_specification', 'external_type_specification'),
        (r'#\[verifier::external\]', 'external'),
    ]
    bad = []
    for i, l in enumerate(lines):
        code = l.split('//')[0]
        for p, name in pats:
            if re.search(p, code):
                o = origin[i]
                # describe by the next item line
                desc = l.strip()
                if name in ('external_body', 'external_derive', 'no termination proof'):
                    for j in range(i + 1, min(i + 6, len(lines))):
                        if re.search(r'\b(fn|enum|struct)\b', lines[j]):
                            desc = lines[j].strip()
                            break
                where = o.get('file', 'generated')
                found.append('%s: %s  [%s]' % (name, desc[:140], where))
                if name in ('assume', 'admit') and o.get('k') == 'src':
                    bad.append('%s in extracted body: %s' % (name, l.strip()))
    return found, bad


def run_verus(path, extra=()):
    cmd = ['verus', path, '--error-format=json', '--multiple-errors', '200', '--rlimit', '30',
           '--output-json', '--time-expanded'] + list(extra)
    t0 = time.time()
    p = sh(cmd, cwd=VERIF)
    wall = time.time() - t0
    diags = []
    other = []
    for l in p.stderr.split('\n'):
        l = l.strip()
        if l.startswith('{'):
            try:
                diags.append(json.loads(l))
                continue
            except Exception:
                pass
        if l:
            other.append(l)
    js = None
    try:
        js = json.loads(p.stdout)
    except Exception:
        # stdout may contain extra lines; find the JSON object
        m = re.search(r'\{.*\}\s*$', p.stdout, re.S)
        if m:
            try:
                js = json.loads(m.group(0))
            except Exception:
                js = None
    return ' '.join(cmd), p.returncode, diags, other, js, wall


def find_local_fn(repo, name):
    """(file, fn) of a free function `name` defined in exactly one source file of the tree, else None"""
    hits = []
    src = os.path.join(repo, 'src')
    for f in sorted(os.listdir(src)):
        if f.endswith('.rs') and re.search(r'^(?:pub(?:\([a-z]+\))?\s+)?fn\s+%s\s*[<(]' % re.escape(name), open(os.path.join(src, f)).read(), re.M):
            hits.append(f)
    return (hits[0], name) if len(hits) == 1 else None


def verify_unit(unit, repo, canary=False, extra_stubs=()):
    r = verify_unit_once(unit, repo, canary, extra_stubs)
    # A helper function the unit does not know (introduced or newly called by a change): it is added as a stub - with its
    # contract if it has one, otherwise with an arbitrary result, which is sound for the caller's proof - and the unit is
    # verified again, so that the change is judged by the caller's contract instead of stopping the verifier.
    m = re.search(r'cannot find function `(\w+)` in this scope', r.undecided or '')
    if m and len(extra_stubs) < 4:
        hit = find_local_fn(repo, m.group(1))
        if hit and hit not in extra_stubs:
            return verify_unit(unit, repo, canary, tuple(extra_stubs) + (hit,))
    return r


import threading
_EXTRACT_LOCK = threading.Lock()    # the extractor keeps per-unit state in module globals (the overlay names); the verifier runs are subprocesses


def verify_unit_once(unit, repo, canary=False, extra_stubs=()):
    r = UnitResult(unit)
    t0 = time.time()
    try:
        with _EXTRACT_LOCK:
            out, info = extract.build(unit, repo, canary=canary, extra_stubs=extra_stubs)
    except extract.Undecided as e:
        r.undecided = str(e)
        return r
    except Exception as e:  # lexer failure etc.
        r.undecided = 'extractor failure: %r' % (e,)
        return r
    r.info = info
    gen = bdir(repo, 'gen')
    os.makedirs(gen, exist_ok=True)
    path = os.path.join(gen, unit + (('_canary' + canary) if canary else '') + '.rs')
    open(path, 'w').write(out.text())
    json.dump({'info': info, 'origin': out.origin}, open(path + '.map.json', 'w'))
    r.assumptions, bad = scan_assumptions(out.lines, out.origin)
    if bad:
        r.undecided = 'forbidden construct: ' + '; '.join(bad)
        return r
    cmd, rc, diags, other, js, wall = run_verus(os.path.relpath(path, VERIF))
    r.cmd = cmd
    r.wall = time.time() - t0
    if js:
        vr = js.get('verification-results', {})
        r.verified = vr.get('verified', 0)
        r.errors = vr.get('errors', 0)
        r.verus_version = js.get('verus', {}).get('version', '') or js.get('times-ms', {}).get('verus-build', {}).get('version', '')
        try:
            for m in js['times-ms']['smt']['smt-run-module-times']:
                for f in m.get('function-breakdown', []):
                    r.times[f['function']] = {'ms': f.get('time', 0), 'success': f.get('success'), 'mode': f.get('mode:'), 'rlimit': f.get('rlimit')}
        except Exception:
            pass
    origin = out.origin
    lines = out.lines
    for d in diags:
        if d.get('level') != 'error':
            continue
        msg = d.get('message', '')
        if msg.startswith('aborting due to'):
            continue
        if any(s in msg for s in LIMIT_MSGS):
            r.undecided = 'solver limit: ' + msg
            continue
        is_verif = any(msg.startswith(s) or s in msg for s in VERIF_MSGS) and not d.get('code')
        if not is_verif:
            # compile error / unsupported construct: the proof attempt did not happen
            sp = [s for s in d.get('spans', []) if s.get('is_primary')]
            loc = ''
            if sp:
                ln = sp[0]['line_start']
                o = origin[ln - 1] if 0 < ln <= len(origin) and sp[0]['file_name'].endswith('.rs') and 'gen' in sp[0]['file_name'] else {}
                loc = ' at %s:%s' % (o.get('file', sp[0]['file_name']), o.get('line', ln))
            if r.undecided is None:
                r.undecided = 'tool limit (not a verification result): %s%s' % (msg, loc)
            continue
        f = {'message': msg, 'rendered': d.get('rendered', ''), 'clause': None, 'site': None, 'spans': []}
        for s in d.get('spans', []):
            fn = s.get('file_name', '')
            ln = s.get('line_start', 0)
            if ('gen/' in fn or 'gen_' in fn) and 0 < ln <= len(origin):
                o = dict(origin[ln - 1])
                o['gen_line'] = ln
                o['gen_text'] = lines[ln - 1].strip()
                o['primary'] = s.get('is_primary', False)
                o['span_label'] = s.get('label')
                f['spans'].append(o)
        for want in ('canary', 'contract', 'spec'):
            for o in f['spans']:
                if o.get('k') == want and f['clause'] is None:
                    f['clause'] = o
        for o in f['spans']:
            if o.get('k') == 'src' and f['site'] is None:
                f['site'] = o
        sec0 = str((f['clause'] or {}).get('section', '')) if (f['clause'] or {}).get('k') == 'contract' else ''
        if f['site'] is None and sec0.startswith('before'):
            # an assertion placed before a statement: the site is that statement (the nearest source line below the block)
            ln = max(o['gen_line'] for o in f['spans'] if o.get('k') == 'contract')
            q = ln + 1
            while q <= len(origin) and (origin[q - 1].get('k') != 'src' or not lines[q - 1].strip()):
                q += 1
            if q <= len(origin):
                o = dict(origin[q - 1])
                o['gen_line'] = q
                o['gen_text'] = lines[q - 1].strip()
                o['primary'] = False
                f['site'] = o
        if f['site'] is None and f['clause'] is not None and str(f['clause'].get('section', '')).startswith('at returns'):
            # an assertion of a block placed at a `return`: the site is that return (the nearest source line above the block)
            ln = min(o['gen_line'] for o in f['spans'] if o.get('k') == 'contract')
            q = ln - 1
            while q > 0 and origin[q - 1].get('k') != 'src':
                q -= 1
            if q > 0:
                o = dict(origin[q - 1])
                o['gen_line'] = q
                o['gen_text'] = re.sub(r'\{ let verif_ret =', 'return', lines[q - 1].strip())
                o['primary'] = False
                f['site'] = o
        r.failures.append(f)
    if js is None and r.undecided is None:
        r.undecided = 'verus produced no result: ' + ' | '.join(other[:3])
    if js is not None and js.get('verification-results', {}).get('encountered-vir-error') and r.undecided is None:
        r.undecided = 'verus VIR error: ' + ' | '.join(other[:3])
    return r


# ----------------------------------------------------------------------------
def obligation_name(f):
    c, s = f['clause'], f['site']
    msg = f['message']
    if c and c.get('k') == 'canary':
        return 'canary:%s/%s' % (c['fn'], c['where'])
    if c and c.get('k') == 'spec':
        if s:
            what = 'panic reachable' if 'requires false' in c.get('gen_text', '') else 'precondition of spec-level callee (%s)' % c.get('gen_text', '')[:50]
            return '%s / safety: %s' % (s.get('fn', '?'), what)
        return 'spec:%s:%s' % (c.get('file'), c.get('gen_text', '')[:60])
    if c:
        lab = c.get('label') or c.get('section')
        owner = c['fn']
        sec = c.get('section', '')
        kind = 'hint' if sec.startswith(('at ', 'before', 'after')) else sec
        name = '%s / %s#%s' % (owner, kind, lab)
        if s and s.get('fn') and s['fn'] != owner:
            name = '%s -> %s' % (s['fn'], name)
        return name
    if s:
        return '%s / safety: %s' % (s.get('fn', '?'), msg)
    return 'unknown: ' + msg


def site_text(f):
    s = f['site']
    if s:
        return s.get('gen_text', '')
    # postcondition at end of body etc.
    for o in f['spans']:
        if not o.get('primary'):
            return o.get('gen_text', '')
    return ''


_TAGGED = {}


def tagged_functions(prop):
    """functions in whose contract `prop` has a tagged clause: the property rests on the proof of that function"""
    if prop in _TAGGED:
        return _TAGGED[prop]
    import glob
    res = set()
    for p in glob.glob(os.path.join(VERIF, 'contracts', '*.vc')):
        txt = open(p).read()
        hit = False
        for m in re.finditer(r'//\s*#[A-Za-z0-9_]+\s*\[([A-Z0-9, ]*)\]', txt):
            if prop in [x.strip() for x in m.group(1).split(',')]:
                hit = True
                break
        if hit:
            stem = os.path.basename(p)[:-3]
            parts = stem.split('.')
            res.add('%s.rs::%s' % (parts[0], '::'.join(parts[1:])))
    _TAGGED[prop] = res
    return res


def relevant(f, prop, cfg):
    """does this failed obligation count for `prop`?"""
    r = relevant0(f, prop, cfg)
    if r is False:
        # A failed assertion, loop invariant, proof hint or safety obligation is ASSUMED by the verifier for the rest of
        # the function, so every clause proved in that function is in doubt - including the clauses tagged for `prop`.
        # (A failed `ensures` of another property poisons nothing: postconditions are checked independently.)
        c, s = f['clause'], f['site']
        fn = (s.get('fn') if s else None) or (c.get('fn') if c else None)
        is_foreign_ensures = bool(c and c.get('k') == 'contract' and c.get('section', '') in ('sig', 'sig-prove-extra', 'sig-stub-extra')
                                  and (s is None or s.get('fn') == c.get('fn')))
        if fn and not is_foreign_ensures and fn in tagged_functions(prop):
            return True
    return r


def relevant0(f, prop, cfg):
    c, s = f['clause'], f['site']
    fns = set(cfg.get('functions', []))
    if c and c.get('k') == 'contract':
        owner = c['fn']
        site_fn = s.get('fn') if s else owner
        sec = c.get('section', '')
        # clause of the function itself (ensures / invariant / hint)
        if site_fn == owner or site_fn is None:
            if sec == 'sig' and 'requires' in (c.get('text') or ''):
                pass
            props = c.get('props') or []
            if props:
                return prop in props
            return owner in fns
        # call-site precondition: caller is responsible
        return site_fn in fns
    if c and c.get('k') == 'spec' and not s:
        return None  # undecided
    if s:
        return s.get('fn') in fns
    return None


# ----------------------------------------------------------------------------
def build_replay(repo):
    d = bdir(repo, 'replay')
    os.makedirs(d, exist_ok=True)
    toml = '''[package]
name = "replay"
version = "0.1.0"
edition = "2021"
[[bin]]
name = "replay"
path = "%s/replay/src/main.rs"
[dependencies]
suiron = { package = "suiron-rust", path = "%s" }
[workspace]
[profile.release]
opt-level = 1
debug-assertions = true
overflow-checks = true
''' % (VERIF, os.path.abspath(repo))
    tp = os.path.join(d, 'Cargo.toml')
    if not os.path.exists(tp) or open(tp).read() != toml:
        open(tp, 'w').write(toml)
    env = dict(os.environ, CARGO_NET_OFFLINE='true')
    p = sh(['cargo', 'build', '--release', '--offline', '-q'], cwd=d, env=env)
    if p.returncode != 0:
        return None, p.stderr[-2000:]
    return os.path.join(d, 'target', 'release', 'replay'), ''


def find_witness(binpath, oracle, seed):
    p = sh([binpath, oracle, '--search', '--seed', str(seed)], timeout=600)
    case = None
    summary = None
    for l in p.stdout.split('\n'):
        l = l.strip()
        if not l.startswith('{'):
            continue
        try:
            j = json.loads(l)
        except Exception:
            continue
        if j.get('ok') is False and case is None:
            case = j
        if 'cases' in j:
            summary = j
    if summary is None and case is None:
        # the oracle process itself died (the engine overflowed the stack or aborted on some case): find the case by running
        # them one by one, each in its own process
        lst = sh([binpath, oracle, '--search', '--seed', str(seed), '--list'], timeout=600)
        cases = []
        for l in lst.stdout.split('\n'):
            l = l.strip()
            if l.startswith('"'):
                try:
                    cases.append(json.loads(l))
                except Exception:
                    pass
        t0 = time.time()
        for c in cases:
            if time.time() - t0 > 300:
                break
            q = sh([binpath, oracle, '--case', c], timeout=60)
            if q.returncode not in (0, 1):
                case = {'oracle': oracle, 'case': c, 'ok': False,
                        'detail': 'the process died on this case (exit status %s): %s' % (q.returncode, (q.stderr or '').strip()[-200:])}
                break
            if q.returncode == 1:
                for l in q.stdout.split('\n'):
                    if l.strip().startswith('{'):
                        try:
                            case = json.loads(l)
                        except Exception:
                            pass
                break
        summary = {'oracle': oracle, 'cases': len(cases), 'failures': 1 if case else 0, 'note': 'batch run died (exit status %s); cases re-run one per process' % p.returncode}
        if case is None:
            case = {'oracle': oracle, 'case': '-', 'ok': False, 'detail': 'the oracle process died (exit status %s) and no single case reproduces it' % p.returncode}
    return case, summary


# ----------------------------------------------------------------------------
def load_known():
    p = os.path.join(VERIF, 'known_findings.txt')
    res = []
    if not os.path.exists(p):
        return res
    for l in open(p):
        l = l.strip()
        if not l.startswith('finding:'):
            continue
        m = re.match(r'finding:\s*property=(\S+)\s+obligation=\{(.*?)\}\s+input=\{(.*?)\}\s*(.*)$', l)
        if m:
            res.append({'property': m.group(1), 'obligation': m.group(2), 'input': m.group(3), 'what': m.group(4)})
    return res


def proved_elsewhere():
    proved = set()
    for u in os.listdir(os.path.join(VERIF, 'units')):
        if not u.endswith('.unit'):
            continue
        for l in open(os.path.join(VERIF, 'units', u)):
            p = l.split()
            if len(p) >= 3 and p[0] in ('prove', 'prove?', 'prove-overlay'):
                proved.add('%s::%s' % (p[1], p[2]))
    return proved


def count_clauses(info_list, origins, prop, cfg):
    """number of contract clauses (ensures / invariants / decreases) that are relevant to prop,
    counted on the generated files of this run"""
    fns = set(cfg.get('functions', []))
    n = 0
    samples = []
    seen = set()
    for origin in origins:
        for o in origin:
            if o.get('k') != 'contract':
                continue
            t = (o.get('text') or '').strip()
            if not t or t.startswith('//') or t.rstrip(',') in ('requires', 'ensures', 'invariant', 'decreases', 'invariant_except_break', 'ensures_on_break'):
                continue
            sec = o.get('section', '')
            if not (sec == 'sig' or sec.startswith('loop')):
                continue
            props = o.get('props') or []
            rel = (prop in props) if props else (o['fn'] in fns)
            if not rel:
                continue
            key = (o['file'], o['line'])
            if key in seen:
                continue
            seen.add(key)
            n += 1
            if len(samples) < 12 and props:
                samples.append('%s / %s#%s: %s' % (o['fn'], sec, o.get('label'), t[:160]))
    return n, samples


def main():
    import argparse
    ap = argparse.ArgumentParser()
    ap.add_argument('prop')
    ap.add_argument('tier', nargs='?', default=os.environ.get('VERIF_TIER', 'quick'))
    ap.add_argument('--repo', default='/repo')
    ap.add_argument('--replay', default=None)
    ap.add_argument('--no-evidence', action='store_true')
    a = ap.parse_args()
    prop = a.prop
    tier = a.tier if a.tier in ('quick', 'thorough') else 'quick'
    seed = int(os.environ.get('VERIF_SEED', '1') or 1)
    if prop not in config.PROPS:
        print('property %s is not claimed (see MANIFEST.json not_applicable)' % prop)
        sys.exit(2)
    cfg = config.PROPS[prop]

    if a.replay:
        sys.exit(do_replay(a.replay, a.repo))

    t0 = time.time()
    results = []
    canaries = []
    undecided = []
    # the units of a property are independent verifier runs: up to four at a time
    from concurrent.futures import ThreadPoolExecutor
    unit_list = list(cfg.get('units', []))
    with ThreadPoolExecutor(max_workers=4) as ex:
        unit_results = list(ex.map(lambda u: verify_unit(u, a.repo), unit_list))
    for u, r in zip(unit_list, unit_results):
        results.append(r)
        if r.undecided:
            undecided.append('%s: %s' % (u, r.undecided))
    # vacuity: canary run
    canary_total = 0
    canary_failed_as_required = 0
    if not undecided:
        canary_jobs = []
        for u in cfg.get('units', []):
            passes = ['A']
            base = [r for r in results if r.unit == u][0]
            if base.info and base.info.get('non_isolated'):
                passes.append('B')
            for cp in passes:
                canary_jobs.append((u, cp))
        with ThreadPoolExecutor(max_workers=4) as ex:
            canary_results = list(ex.map(lambda j: verify_unit(j[0], a.repo, canary=j[1]), canary_jobs))
        for (u, cp), rc in zip(canary_jobs, canary_results):
            if True:
                # In a canary run every planted `assert(false)` must be REPORTED AS FAILED; what the solver does with the rest of a
                # function after such a failure (it goes on under the assumption `false` was true elsewhere, and may run out of
                # its resource limit) says nothing.  A resource limit in a canary run is therefore not an answer of its own.
                if rc.undecided and not rc.undecided.startswith('solver limit'):
                    undecided.append('%s (canary run %s): %s' % (u, cp, rc.undecided))
                    continue
                path = os.path.join(bdir(a.repo, 'gen'), u + '_canary' + cp + '.rs.map.json')
                org = json.load(open(path))['origin']
                expected = set((o['fn'], o['where']) for o in org if o.get('k') == 'canary')
                got = set()
                for f in rc.failures:
                    c = f['clause']
                    if c and c.get('k') == 'canary' and f['message'].startswith('assertion fail'):
                        got.add((c['fn'], c['where']))
                canary_total += len(expected)
                canary_failed_as_required += len(expected & got)
                missing = expected - got
                if missing:
                    undecided.append('%s: vacuous contract - canary assert(false) verified in %s' % (u, sorted(missing)))

    # thorough tier: proof stability - every unit is verified again under two other SMT random seeds.  Reported in the
    # evidence only (an obligation that needs a lucky seed is a maintenance risk, not a statement about the code)
    stability = None
    if tier == 'thorough' and not undecided and not any(r.failures for r in results):
        stability = {'seeds': [1, 7, 42], 'units': {}}
        for u in cfg.get('units', []):
            path = os.path.join(bdir(a.repo, 'gen'), u + '.rs')
            extract_out, _info = extract.build(u, a.repo)
            open(path, 'w').write(extract_out.text())
            okc = 0
            for sd in (7, 42):
                _cmd, _rc, _diags, _other, js2, _wall = run_verus(os.path.relpath(path, VERIF), extra=('--smt-option', 'smt.random_seed=%d' % sd, '--smt-option', 'sat.random_seed=%d' % sd))
                if js2 and js2.get('verification-results', {}).get('errors', 1) == 0:
                    okc += 1
            stability['units'][u] = 'all obligations discharged under every seed' if okc == 2 else 'UNSTABLE: %d of 2 extra seeds verified' % okc

    # Kani part
    kani_res = None
    kcfg = cfg.get('kani', {})
    harnesses = list(kcfg.get('quick', [])) + (list(kcfg.get('thorough', [])) if tier == 'thorough' else [])
    if harnesses:
        import run_kani
        kani_res = run_kani.run(prop, harnesses, a.repo, cfg, tier)
        for u in kani_res['undecided']:
            undecided.append('kani: ' + u)

    # classify failures
    fails = []
    for r in results:
        # helpers that were added as stubs WITHOUT a contract (arbitrary result): a failed obligation of a caller then only
        # says that the caller's proof needs to know what the helper does - inconclusive, not a violation
        blind = [x for x in ((r.info or {}).get('auto_stubbed') or [])
                 if not any(fn.get('fn') == x and fn.get('has_contract') for fn in (r.info or {}).get('functions', []))]
        if blind and r.failures:
            undecided.append('%s: proof inconclusive - %d obligation(s) fail, but the unit calls %s, which is outside the unit and has no contract (added as a stub with an arbitrary result)'
                             % (r.unit, len(r.failures), ', '.join(blind)))
            continue
        # functions that contain MORE format!(..) expressions rewritten into an arbitrary string (rule R4) than on the pinned
        # tree (spec/r4_baseline.json): a text the contracts know nothing about has entered the function, and a failed
        # obligation of that function only says that the proof needs to know what the text is - inconclusive, not a violation
        # (harmless H20: `let binding = format!(..); out += &binding;` for `out += &format!(..);`)
        fresh_text = set()
        try:
            r4base = json.load(open(os.path.join(VERIF, 'spec', 'r4_baseline.json')))
        except Exception:
            r4base = {}
        for fn in (r.info or {}).get('functions', []):
            if fn.get('mode') == 'prove' and fn.get('r4', 0) > r4base.get('%s::%s' % (r.unit, fn['fn']), 0):
                fresh_text.add(fn['fn'])
        dropped = [f for f in r.failures if fresh_text and ((f.get('site') or {}).get('fn') in fresh_text or (f.get('clause') or {}).get('fn') in fresh_text)]
        if dropped:
            undecided.append('%s: proof inconclusive - %d obligation(s) of %s fail, but the function now builds a text with a format!(..) that no contract speaks of (rule R4 makes it an arbitrary string)'
                             % (r.unit, len(dropped), ', '.join(sorted(fresh_text))))
        for f in r.failures:
            if f in dropped:
                continue
            rel = relevant(f, prop, cfg)
            if rel is None:
                undecided.append('%s: proof-internal obligation failed (%s)' % (r.unit, obligation_name(f)))
                continue
            if rel:
                fails.append((r.unit, f))
    # deduplicate by (name, site)
    uniq = {}
    for u, f in fails:
        k = (obligation_name(f), site_text(f))
        uniq.setdefault(k, (u, f))
    fails = list(uniq.items())

    known = load_known()
    violations = []
    known_hits = []
    known_fail_keys = set()
    replay_bin = None
    witness_cache = {}
    if fails:
        replay_bin, err = build_replay(a.repo)
    os.makedirs(os.path.join(BUILD, 'replay_cases'), exist_ok=True)
    for (name, site), (u, f) in fails:
        # pick oracle
        fnk = None
        if f['site'] and f['site'].get('fn'):
            fnk = f['site']['fn']
        elif f['clause']:
            fnk = f['clause'].get('fn')
        lab = (f['clause'] or {}).get('label')
        oracle = cfg.get('oracles', {}).get('#%s' % lab) or cfg.get('oracles', {}).get(fnk) or cfg.get('oracles', {}).get('*')
        wit = None
        summ = None
        if oracle and replay_bin:
            if oracle not in witness_cache:
                try:
                    witness_cache[oracle] = find_witness(replay_bin, oracle, seed)
                except subprocess.TimeoutExpired:
                    witness_cache[oracle] = (None, None)
            wit, summ = witness_cache[oracle]
        full = '%s @ %s' % (name, site)
        case = wit['case'] if wit else '-'
        hit = None
        for k in known:
            if k['property'] == prop and k['obligation'] == full and k['input'] == case:
                hit = k
                break
        rec = {'property': prop, 'obligation': full, 'unit': u, 'verifier_message': f['message'],
               'verifier_output': f['rendered'], 'oracle': oracle,
               'witness': wit, 'search': summ,
               'replay_cmd': ('%s/bin/check %s --replay <this file>' % (VERIF, prop))}
        if hit:
            known_hits.append((full, case, hit))
            known_fail_keys.add((name, site))
            continue
        if wit is None and any(k['property'] == prop and k['obligation'] == full for k in known):
            # the obligation is a recorded known finding - it has never been proved - and its recorded input no longer
            # fails (nor does any other of its oracle): the defect may have been repaired, and a failed proof attempt alone
            # decides nothing (it is not "an obligation that passed on the unchanged tree and now fails")
            undecided.append('%s: %s is recorded as a known finding and still has no proof, but the oracle finds no failing input any more '
                             '(repaired? the obligation now needs a proof, and the entry of known_findings.txt a review)' % (u, full))
            known_fail_keys.add((name, site))
            continue
        h = hashlib.sha1(full.encode()).hexdigest()[:10]
        path = os.path.join(BUILD, 'replay_cases', '%s-%s.json' % (prop, h))
        json.dump(rec, open(path, 'w'), indent=1)
        violations.append((full, path, wit))

    if kani_res:
        for v in kani_res['violations']:
            full = v['obligation']
            case = v.get('case', '-')
            hit = None
            for k in known:
                if k['property'] == prop and k['obligation'] == full and k['input'] == case:
                    hit = k
            if hit:
                known_hits.append((full, case, hit))
                continue
            violations.append((full, v['replay'], v.get('witness')))

    # bounded stand-ins registered for clauses the verifiers cannot reach (e.g. int/float comparison arms):
    # enumerated on the real code, labelled bounded, never counted as discharged
    bounded_runs = []
    bounded_list = list(cfg.get('bounded', []))
    seeds = [seed]
    # besides the proof, every replay oracle of the property is run as a supplementary bounded exploration of the real
    # code (never counted as discharged): one seed in the quick tier, twelve in the thorough tier.  The proof is relative
    # to the specification of callees; the oracles compare with what the callees actually do (seed C13-4: a function term
    # on the right behaved like its value according to the SPECIFICATION of unify while the changed unify did not)
    for oname in sorted(set(o.split(':')[0] if False else o for o in cfg.get('oracles', {}).values())):
        if oname not in [b[0] for b in bounded_list]:
            bounded_list.append((oname, 'supplementary exploration of the real code'))
    if tier == 'thorough':
        seeds = [seed + k for k in range(12)]
    for oname, what in [(o, w) for (o, w) in bounded_list for _ in [0]]:
        binp, err = build_replay(a.repo)
        if not binp:
            undecided.append('cannot build replay crate for bounded stand-in: ' + err[-200:])
            break
        wit, summ = None, None
        tot_cases = 0
        for sd in seeds:
            try:
                w1, s1 = find_witness(binp, oname, sd)
            except subprocess.TimeoutExpired:
                w1, s1 = None, None
            if s1:
                tot_cases += s1.get('cases') or 0
                summ = dict(s1, cases=tot_cases, seeds=seeds)
            if w1:
                wit = w1
                break
        bounded_runs.append({'oracle': oname, 'what': what, 'cases': (summ or {}).get('cases'), 'failures': (summ or {}).get('failures'),
                             'skipped_outside_claim': (summ or {}).get('skipped_outside_claim'), 'sample': (summ or {}).get('sample'),
                             'result': 'failing input found' if wit else 'no failing input (bounded, not counted)'})
        if wit:
            full = 'bounded stand-in: oracle %s' % oname
            case = wit['case']
            if any(k['property'] == prop and k['obligation'] == full and k['input'] == case for k in known):
                known_hits.append((full, case, {'what': ''}))
                continue
            h = hashlib.sha1((full + case).encode()).hexdigest()[:10]
            path = os.path.join(BUILD, 'replay_cases', '%s-%s.json' % (prop, h))
            json.dump({'property': prop, 'obligation': full, 'verifier_message': 'bounded stand-in (' + what + ')',
                       'verifier_output': 'failing input found by the bounded enumeration %s on the real code' % oname,
                       'oracle': oname, 'witness': wit, 'search': summ, 'bounded': True}, open(path, 'w'), indent=1)
            violations.append((full, path, wit))

    # ---- audit of the trusted specifications of std primitives (T2 / T3 / T6): independent of /repo, so a failure is never a
    # violation of the property - it means an ASSUMPTION of the proofs is false of the library in use, and nothing is decided
    binp, err = build_replay(a.repo)
    if binp:
        try:
            w1, s1 = find_witness(binp, 'trusted_std', seed)
        except subprocess.TimeoutExpired:
            w1, s1 = None, {'cases': 0, 'failures': None}
        bounded_runs.append({'oracle': 'trusted_std', 'what': 'audit of the assumed specifications of std primitives (T2, T3, T6) against the std in use: every char for the '
                             'character-level axioms (complete), every string up to length 3-6 over an alphabet of all classes for trim / cmp / prefix / HashMap lookups by &str (bounded); does not depend on /repo',
                             'cases': (s1 or {}).get('cases'), 'failures': (s1 or {}).get('failures'), 'skipped_outside_claim': 0, 'sample': (s1 or {}).get('sample'),
                             'result': ('AUDIT FAILED: ' + str(w1.get('case')) + ' -- ' + str(w1.get('detail'))) if w1 else 'every audited assumption holds (not counted)'})
        if w1:
            undecided.append('a trusted specification of std does not hold on this toolchain (%s: %s): the proofs rest on a false assumption' % (w1.get('case'), w1.get('detail')))

    wall = time.time() - t0

    # ---- evidence
    origins = []
    infos = []
    for r in results:
        p = os.path.join(bdir(a.repo, 'gen'), r.unit + '.rs.map.json')
        if r.info and os.path.exists(p):
            origins.append(json.load(open(p))['origin'])
            infos.append(r.info)
    nclauses, samples = count_clauses(infos, origins, prop, cfg)
    fns = set(cfg.get('functions', []))
    proved_here = []
    stubs = []
    proved_any = proved_elsewhere()
    for i in infos:
        for f in i['functions']:
            if f['mode'] == 'prove' and f['fn'] in fns:
                proved_here.append(f)
            if f['mode'] == 'stub':
                stubs.append(f)
    # safety bundles: one per proved function that is relevant (panic-freedom of rewritten
    # panics, index bounds, overflow, termination, call-site preconditions)
    failed_fns = set()
    failed_clause_keys = set()
    for (name, site), (u, f) in fails:
        if (name, site) in known_fail_keys:
            # an obligation recorded as a known finding is not part of what this run claims to have proved: it is listed
            # under coverage.known_finding_obligations and counted neither as an obligation nor as discharged
            continue
        c = f['clause']
        if c and c.get('k') == 'contract' and (c.get('section') == 'sig' or c.get('section', '').startswith('loop')):
            failed_clause_keys.add((c['file'], c['line']))
        else:
            fnk = (f['site'] or {}).get('fn') or (c or {}).get('fn')
            failed_fns.add(fnk)
    kani_ob = kani_res['obligations'] if kani_res else 0
    kani_ok = kani_res['discharged'] if kani_res else 0
    # labelled obligations stated in proof blocks (hint sections) are not among the counted clauses: one that FAILS (a known
    # finding, or a violation) is counted as an obligation that is not discharged
    hint_fails = set(name for (name, site), (u, f) in fails
                     if (name, site) not in known_fail_keys and f['clause'] and f['clause'].get('k') == 'contract' and f['clause'].get('label')
                     and not (f['clause'].get('section') == 'sig' or f['clause'].get('section', '').startswith('loop')))
    obligations = nclauses + len(proved_here) + kani_ob + len(hint_fails)
    discharged = (nclauses - len(failed_clause_keys)) + len([f for f in proved_here if f['fn'] not in failed_fns]) + kani_ok
    if undecided:
        discharged = 0
    solver = {}
    for r in results:
        for k, v in r.times.items():
            solver[k] = v['ms'] / 1000.0
    assumptions = []
    for r in results:
        for s in r.assumptions:
            if s not in assumptions:
                assumptions.append(s)
    for s in stubs:
        if s['fn'] in proved_any:
            assumptions.append('callee contract used at call sites, body proved in its own unit: %s' % s['fn'])
        else:
            assumptions.append('ASSUMED contract (body not proved in any unit): %s' % s['fn'])
    for i in infos:
        for abs_fn in i.get('abstract', []):
            assumptions.append('ABSTRACT in unit %s (signature only, no contract used: the obligations hold for every result it may return; its panics are outside): %s' % (i.get('unit'), abs_fn))
    for nc in cfg.get('not_covered', []):
        assumptions.append(('scope of the proof: ' if nc.startswith('PROVED') else ('' if nc.startswith(('not covered', 'RELATIVE TO')) else 'not covered: ')) + nc)
    if kani_res:
        assumptions += kani_res.get('assumptions', [])
    rewrites = {}
    for i in infos:
        for k, v in i.get('rewrites', {}).items():
            rewrites[k] = rewrites.get(k, 0) + v
    ev = {
        'property_id': prop, 'tier': tier, 'seed': seed, 'level': config.LEVEL.get(prop, 'proof'),
        'coverage': {
            'obligations': obligations, 'discharged': discharged,
            'checker_cmd': '; '.join(r.cmd for r in results if r.cmd) + ((' ; ' + kani_res['cmd']) if kani_res else ''),
            'trusted_base': [config.TRUSTED_TEXT[k] for k in sorted(config.TRUSTED_TEXT)],
            'samples': samples + (kani_res['samples'] if kani_res else []),
            'contract_clauses': nclauses,
            'functions_under_contract': [
                {'fn': f['fn'], 'src_lines': f.get('src_lines'), 'sha256': f.get('sha256'), 'loops': f.get('loops')}
                for f in proved_here],
            'verus_items_verified': sum(r.verified for r in results),
            'verus_items_failed': sum(r.errors for r in results),
            'backends': {'verus': (results[0].verus_version if results else ''), 'smt': 'z3 (bundled with verus)',
                         'kani': (kani_res or {}).get('version', 'not used')},
            'solver_time_s': {k: v for k, v in sorted(solver.items(), key=lambda kv: -kv[1])[:25]},
            'rewrites': rewrites,
            'canaries': {'expected_to_fail': canary_total, 'failed_as_required': canary_failed_as_required},
            'proof_stability': stability,
            'bounded': (kani_res or {}).get('bounded', []) + bounded_runs,
            'not_covered_clauses': cfg.get('not_covered', []),
            'undecided': undecided,
            'known_findings_hit': [k[0] for k in known_hits],
            'known_finding_obligations': sorted('%s @ %s' % k for k in known_fail_keys),
            'explanation': 'obligations = contract clauses (ensures/invariants/decreases) tagged for this property or owned by its functions, '
                           'plus one safety bundle per function under proof (panics unreachable, indices in range, no overflow, termination, callee preconditions), '
                           'plus Kani checks of complete (loop-free / fully unwound) harnesses. Obligations that fail and are recorded in known_findings.txt '
                           '(coverage.known_finding_obligations) are NOT counted, neither as obligations nor as discharged: they are findings, not part of what this run proved',
        },
        'assumptions': assumptions,
        'wall_s': round(wall, 2),
        'violations': len(violations),
    }
    if config.LEVEL.get(prop) == 'exploration':
        # a property decided only by a bounded stand-in: report it as what it is
        ev_cases = sum((b.get('cases') or 0) for b in bounded_runs)
        ev_skipped = sum((b.get('skipped_outside_claim') or 0) for b in bounded_runs)
        ev['coverage'].update({
            'evaluations': ev_cases,
            'distinct_nontrivial': max(0, ev_cases - ev_skipped),
            'rule': 'cases are enumerated by the replay oracle(s) ' + ', '.join(b['oracle'] for b in bounded_runs)
                    + ' (exhaustive over a fixed pool for small arities, seeded random beyond), de-duplicated before running; a case is non-trivial when it is inside the claim '
                    + '(the oracle counts the cases it skips as outside the claim: integer overflow, integer division by zero, literals that cannot be written in source text)',
            'samples': [b.get('sample') for b in bounded_runs if b.get('sample')] + ev['coverage'].get('samples', []),
            'exhaustive': False,
        })
    if not a.no_evidence:
        os.makedirs(os.path.join(VERIF, 'evidence'), exist_ok=True)
        json.dump(ev, open(os.path.join(VERIF, 'evidence', prop + '.json'), 'w'), indent=1)

    for full, case, hit in known_hits:
        print('KNOWN-FINDING: property=%s %s input=%s %s' % (prop, full, case, hit.get('what', '')))
    if violations:
        for full, path, wit in violations:
            tail = '' if wit else ' no-failing-input-found'
            print('failed obligation: %s' % full)
            if wit:
                print('  witness: %s -- %s' % (wit.get('case'), wit.get('detail')))
            print('VIOLATION property=%s replay=%s%s' % (prop, path, tail))
        sys.exit(1)
    if undecided:
        # The proof attempt did not happen (lost anchor, unsupported construct, solver limit).  A bounded
        # stand-in is run instead: the replay oracles of this property on the real code.  A failing input
        # found this way is a genuine counterexample (it is replayed against the real crate), so it is
        # reported; finding none decides nothing and the answer stays UNDECIDED.
        found = []
        if not a.replay:
            binp, err = build_replay(a.repo)
            if binp:
                for oname in sorted(set(cfg.get('oracles', {}).values())):
                    try:
                        wit, summ = find_witness(binp, oname, seed)
                    except subprocess.TimeoutExpired:
                        continue
                    if wit:
                        full = 'bounded stand-in (proof undecided): oracle %s' % oname
                        case = wit['case']
                        # a finding recorded for the bounded stand-in of this oracle is the same finding when the proof is undecided
                        plain = 'bounded stand-in: oracle %s' % oname
                        if any(k['property'] == prop and k['obligation'] in (full, plain) and k['input'] == case for k in known):
                            print('KNOWN-FINDING: property=%s %s input=%s' % (prop, full, case))
                            continue
                        h = hashlib.sha1((full + case).encode()).hexdigest()[:10]
                        path = os.path.join(BUILD, 'replay_cases', '%s-%s.json' % (prop, h))
                        json.dump({'property': prop, 'obligation': full, 'verifier_message': 'UNDECIDED: ' + '; '.join(undecided),
                                   'verifier_output': 'the deductive check was undecided (%s); this failing input was found by the bounded oracle and is replayed on the real code' % '; '.join(undecided),
                                   'oracle': oname, 'witness': wit, 'search': summ, 'bounded': True}, open(path, 'w'), indent=1)
                        found.append((full, path, wit))
        for u in undecided:
            print('UNDECIDED property=%s %s' % (prop, u))
        if found:
            for full, path, wit in found:
                print('failed obligation: %s' % full)
                print('  witness: %s -- %s' % (wit.get('case'), wit.get('detail')))
                print('VIOLATION property=%s replay=%s' % (prop, path))
            sys.exit(1)
        sys.exit(2)
    print('OK property=%s tier=%s obligations=%d discharged=%d wall=%.1fs' % (prop, tier, obligations, discharged, wall))
    sys.exit(0)


def do_replay(path, repo):
    rec = json.load(open(path))
    print('obligation: %s' % rec.get('obligation'))
    print(rec.get('verifier_output', ''))
    wit = rec.get('witness')
    if rec.get('kani_replay'):
        import run_kani
        return run_kani.replay(rec, repo)
    if not wit:
        print('no failing input was found for this obligation (no-failing-input-found); verifier output above')
        return 1
    binp, err = build_replay(repo)
    if not binp:
        print('cannot build replay crate: ' + err)
        return 2
    p = sh([binp, rec['oracle'], '--case', wit['case']])
    print(p.stdout.strip())
    return 1 if p.returncode != 0 else 0


if __name__ == '__main__':
    main()
