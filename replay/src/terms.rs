//! Term (de)serialisation and executable versions of the spec vocabulary
//! (spec/terms.rs), written from the property statements, not from the code.
use suiron::Unifiable;
use suiron::Unifiable::*;

pub fn node(term: Unifiable, next: Unifiable, count: usize, tv: bool) -> Unifiable {
    SLinkedList { term: Box::new(term), next: Box::new(next), count, tail_var: tv }
}
pub fn empty() -> Unifiable { node(Nil, Nil, 0, false) }
pub fn atom(s: &str) -> Unifiable { Atom(s.to_string()) }
pub fn var(id: usize, n: &str) -> Unifiable { LogicVar { id, name: n.to_string() } }

/// reference list constructor (well-formed by construction)
pub fn mk_list(elems: &[Unifiable], tail: Option<Unifiable>) -> Unifiable {
    let mut l = empty();
    let mut c = 0usize;
    if let Some(t) = tail { c += 1; l = node(t, l, c, true); }
    for e in elems.iter().rev() { c += 1; l = node(e.clone(), l, c, false); }
    l
}

/// atoms and names may contain the characters the case syntax uses as delimiters (join's punctuation atoms `,` `;`): percent-escaped
pub fn esc(s: &str) -> String {
    let mut o = String::new();
    for ch in s.chars() { if ",[](){}:;|%=~".contains(ch) || (ch as u32) < 0x20 { o.push_str(&format!("%{:02X}", ch as u32)); } else { o.push(ch); } }
    o
}
pub fn unesc(s: &str) -> String {
    let cs: Vec<char> = s.chars().collect();
    let mut o = String::new();
    let mut i = 0;
    while i < cs.len() {
        if cs[i] == '%' && i + 2 < cs.len() {
            let h: String = cs[i + 1..i + 3].iter().collect();
            if let Ok(v) = u32::from_str_radix(&h, 16) { if let Some(c) = char::from_u32(v) { o.push(c); i += 3; continue; } }
        }
        o.push(cs[i]); i += 1;
    }
    o
}
pub fn ser(t: &Unifiable) -> String {
    match t {
        Nil => "N".into(),
        Anonymous => "_".into(),
        Atom(s) => format!("A:{}", esc(s)),
        SInteger(i) => format!("I:{}", i),
        SFloat(f) => format!("F:{:?}", f),
        LogicVar { id, name } => format!("V:{}:{}", id, esc(name)),
        SComplex(ts) => format!("C[{}]", ts.iter().map(ser).collect::<Vec<_>>().join(",")),
        SLinkedList { term, next, count, tail_var } =>
            format!("K({},{},{},{})", ser(term), ser(next), count, if *tail_var { "t" } else { "f" }),
        SFunction { name, terms } => format!("S:{}[{}]", esc(name), terms.iter().map(ser).collect::<Vec<_>>().join(",")),
    }
}

pub struct P<'a> { s: &'a [u8], i: usize }
impl<'a> P<'a> {
    pub fn new(s: &'a str) -> Self { P { s: s.as_bytes(), i: 0 } }
    fn peek(&self) -> u8 { if self.i < self.s.len() { self.s[self.i] } else { 0 } }
    fn eat(&mut self, c: u8) { assert!(self.peek() == c, "expected {} at {}", c as char, self.i); self.i += 1; }
    fn word(&mut self) -> String {
        let st = self.i;
        while self.i < self.s.len() && !b",[](){}:;|".contains(&self.s[self.i]) { self.i += 1; }
        String::from_utf8(self.s[st..self.i].to_vec()).unwrap()
    }
    fn list(&mut self, close: u8) -> Vec<Unifiable> {
        let mut v = vec![];
        if self.peek() == close { self.i += 1; return v; }
        loop {
            v.push(self.term());
            if self.peek() == b',' { self.i += 1; continue; }
            self.eat(close);
            return v;
        }
    }
    pub fn term(&mut self) -> Unifiable {
        match self.peek() {
            b'N' => { self.i += 1; Nil }
            b'_' => { self.i += 1; Anonymous }
            b'A' => { self.i += 1; self.eat(b':'); Atom(unesc(&self.word())) }
            b'I' => { self.i += 1; self.eat(b':'); SInteger(self.word().parse().unwrap()) }
            b'F' => { self.i += 1; self.eat(b':'); SFloat(self.word().parse().unwrap()) }
            b'V' => { self.i += 1; self.eat(b':'); let id = self.word().parse().unwrap(); self.eat(b':'); LogicVar { id, name: unesc(&self.word()) } }
            b'C' => { self.i += 1; self.eat(b'['); SComplex(self.list(b']')) }
            b'S' => { self.i += 1; self.eat(b':'); let name = unesc(&self.word()); self.eat(b'['); SFunction { name, terms: self.list(b']') } }
            b'K' => {
                self.i += 1; self.eat(b'(');
                let t = self.term(); self.eat(b',');
                let n = self.term(); self.eat(b',');
                let c: usize = self.word().parse().unwrap(); self.eat(b',');
                let tv = self.word() == "t"; self.eat(b')');
                node(t, n, c, tv)
            }
            c => panic!("bad term char {} at {}", c as char, self.i),
        }
    }
}
pub fn de(s: &str) -> Unifiable { let mut p = P::new(s); let t = p.term(); assert!(p.i == s.len(), "trailing input in {}", s); t }
pub fn de_list(s: &str) -> Vec<Unifiable> {
    if s.is_empty() { return vec![]; }
    let mut p = P::new(s);
    let mut v = vec![];
    loop { v.push(p.term()); if p.peek() == b'|' { p.i += 1; continue; } break; }
    assert!(p.i == s.len());
    v
}
pub fn ser_list(v: &[Unifiable]) -> String { v.iter().map(ser).collect::<Vec<_>>().join("|") }

// ---- executable spec vocabulary -------------------------------------------
pub fn is_empty_node(t: &Unifiable) -> bool {
    matches!(t, SLinkedList{term, next, count: 0, tail_var: false} if **term == Nil && **next == Nil)
}
pub fn node_count(t: &Unifiable) -> usize {
    match t { SLinkedList { term, next, .. } => if **term == Nil { 0 } else { 1 + node_count(next) }, _ => 0 }
}
pub fn is_tail_term(t: &Unifiable) -> bool { matches!(t, LogicVar{..} | Anonymous) }
pub fn wf_list(t: &Unifiable) -> bool {
    match t {
        SLinkedList { term, next, count, tail_var } => {
            if **term == Nil { **next == Nil && *count == 0 && !*tail_var }
            else {
                wf_list(next) && *count == 1 + node_count(next)
                    && (!*tail_var || (is_empty_node(next) && is_tail_term(term)))
            }
        }
        _ => false,
    }
}
pub fn elems(t: &Unifiable) -> Vec<Unifiable> {
    match t {
        SLinkedList { term, next, tail_var, .. } => {
            if **term == Nil || *tail_var { vec![] }
            else { let mut v = vec![(**term).clone()]; v.extend(elems(next)); v }
        }
        _ => vec![],
    }
}
pub fn tail_of(t: &Unifiable) -> Option<Unifiable> {
    match t {
        SLinkedList { term, next, tail_var, .. } => {
            if **term == Nil { None } else if *tail_var { Some((**term).clone()) } else { tail_of(next) }
        }
        _ => None,
    }
}

/// small universe of terms used by the enumerators
pub fn universe() -> Vec<Unifiable> {
    vec![
        atom("a"), atom("b"), SInteger(0), SInteger(1), SFloat(0.5),
        var(1, "$X"), var(2, "$Y"), var(3, "$Z"), Anonymous,
        SComplex(vec![atom("f"), atom("a")]),
        SComplex(vec![atom("f"), var(1, "$X")]),
        empty(),
        mk_list(&[atom("b")], None),
        mk_list(&[atom("b"), atom("c")], None),
        mk_list(&[atom("b")], Some(var(2, "$Y"))),
    ]
}

/// deterministic xorshift
pub struct Rng(pub u64);
impl Rng {
    pub fn next(&mut self) -> u64 { let mut x = self.0; x ^= x << 13; x ^= x >> 7; x ^= x << 17; self.0 = x; x }
    pub fn below(&mut self, n: usize) -> usize { (self.next() % (n as u64)) as usize }
}


// ---- seeded random terms and binding sets (used by the enumerators next to their fixed pools) ---------------
/// atoms the built-ins treat specially are in the pool on purpose (punctuation for join, `x*` for functor)
const ATOMS: [&str; 9] = ["a", "b", "c", "tea", ",", "?", ".", "noun*", "é"];
pub fn rand_leaf(r: &mut Rng, nvars: usize, anon: bool) -> Unifiable {
    match r.below(if anon { 10 } else { 9 }) {
        0 | 1 | 2 => atom(ATOMS[r.below(ATOMS.len())]),
        3 => SInteger([0i64, 1, -3, 9007199254740993][r.below(4)]),
        4 => SFloat([0.5f64, 1.0, -0.0, 2.5][r.below(4)]),
        5 | 6 | 7 | 8 => { let k = 1 + r.below(nvars.max(1)); var(k, &format!("$V{}", k)) },
        _ => Anonymous,
    }
}
pub fn rand_list(r: &mut Rng, depth: usize, nvars: usize, anon: bool, tail: bool) -> Unifiable {
    let n = r.below(4);
    let mut es = vec![];
    for _ in 0..n { es.push(rand_term(r, depth.saturating_sub(1), nvars, anon)); }
    let t = if tail && n > 0 && r.below(3) == 0 { let k = 1 + r.below(nvars.max(1)); Some(var(k, &format!("$V{}", k))) } else { None };
    mk_list(&es, t)
}
pub fn rand_term(r: &mut Rng, depth: usize, nvars: usize, anon: bool) -> Unifiable {
    if depth == 0 { return rand_leaf(r, nvars, anon); }
    match r.below(6) {
        0 | 1 | 2 => rand_leaf(r, nvars, anon),
        3 => { let n = 1 + r.below(3); let mut ts = vec![atom(["f", "g", "noun_phrase"][r.below(3)])]; for _ in 0..n { ts.push(rand_term(r, depth - 1, nvars, anon)); } SComplex(ts) },
        _ => rand_list(r, depth, nvars, anon, true),
    }
}
/// bindings without cycles and without occurs-check situations: variable i is bound (if at all) to a term over
/// variables with a LARGER index only
pub fn rand_ss(r: &mut Rng, nvars: usize, lists_only_tail: bool) -> Vec<Option<std::rc::Rc<Unifiable>>> {
    let mut ss: Vec<Option<std::rc::Rc<Unifiable>>> = vec![None; nvars + 1];
    for i in 1..=nvars {
        if r.below(2) == 0 { continue; }
        let t = shift_vars(&(if lists_only_tail && r.below(2) == 0 { rand_list(r, 1, nvars, false, true) } else { rand_term(r, 1, nvars, false) }), i, nvars);
        ss[i] = Some(std::rc::Rc::new(t));
    }
    ss
}
/// renumbers the variables of t into (floor, nvars]; a variable that cannot be placed becomes an atom
fn shift_vars(t: &Unifiable, floor: usize, nvars: usize) -> Unifiable {
    match t {
        LogicVar { id, .. } => { if floor >= nvars { atom("z") } else { let k = floor + 1 + (*id % (nvars - floor)); var(k, &format!("$V{}", k)) } },
        SComplex(ts) => SComplex(ts.iter().map(|x| shift_vars(x, floor, nvars)).collect()),
        SLinkedList { term, next, count, tail_var } => {
            let nt = shift_vars(term, floor, nvars);
            // a tail variable that became an atom would make the list ill-formed: end the list there instead
            if *tail_var && !matches!(nt, LogicVar{..}) { return empty(); }
            SLinkedList { term: Box::new(nt), next: Box::new(shift_vars(next, floor, nvars)), count: *count, tail_var: *tail_var }
        },
        x => x.clone(),
    }
}
