// ---------------------------------------------------------------------------
// spec/contexts.rs -- C20: "a term's meaning does not depend on where it is written".
//
// The meaning of a text written on its own is what parse_term returns for it.  `alone` names that value; that
// parse_term IS a function of its text (no global state, no interior mutability) is the assumption T10, made
// where parse_term is a callee (units contexts_b); in unit contexts_a parse_term's body is proved to compute
// `meaning_ok`: trim, look for an arithmetic infix, otherwise classify the characters (flags_of) and hand the
// text to make_term.  The other contexts are then contracts of the functions that cut a text into pieces:
// a list element, an infix operand: the piece, trimmed, is handed to parse_term (proved);
// an argument (of a complex term, a built-in, a query): parse_arguments classifies the characters ITSELF and
// hands the piece to make_term - the obligations #argument_not_infix / #argument_as_alone at its two call
// sites say that this is the meaning of the piece on its own.  They are NOT provable on the current tree,
// and not true (known findings, DESIGN 8.33).
// ---------------------------------------------------------------------------

pub struct Flags { pub hd: bool, pub hnd: bool, pub hp: bool }

pub open spec fn is_digit_char(c: char) -> bool { '0' <= c && c <= '9' }

// the classification parse_term makes of a text: some digit / some period / some other character
pub open spec fn flags_of(s: Seq<char>) -> Flags {
    Flags {
        hd: exists|k: int| 0 <= k < s.len() && is_digit_char(#[trigger] s[k]),
        hp: exists|k: int| 0 <= k < s.len() && #[trigger] s[k] == '.',
        hnd: exists|k: int| 0 <= k < s.len() && !is_digit_char(#[trigger] s[k]) && s[k] != '.',
    }
}
pub open spec fn flags_upto(s: Seq<char>, n: int) -> Flags { flags_of(s.subrange(0, n)) }

// the two-character text `\c` stands for `c`
pub open spec fn unescape2(s: Seq<char>) -> Seq<char> {
    if s.len() == 2 && s[0] == '\\' { s.subrange(1, 2) } else { s }
}

// T10 (assumed where the function is a callee): these parsers are functions of their arguments
pub uninterp spec fn alone(text: Seq<char>) -> Result<Unifiable, String>;                       // parse_term
pub uninterp spec fn mk(text: Seq<char>, f: Flags) -> Result<Unifiable, String>;                // make_term
pub uninterp spec fn arith_infix(text: Seq<char>) -> (Infix, usize);                            // check_arithmetic_infix
pub uninterp spec fn operands(text: Seq<char>, index: usize, size: usize) -> Result<(Unifiable, Unifiable), String>;  // get_left_and_right

pub open spec fn is_arith(i: Infix) -> bool {
    i == Infix::Plus || i == Infix::Minus || i == Infix::Multiply || i == Infix::Divide
}
pub open spec fn arith_name(i: Infix) -> Seq<char> {
    match i {
        Infix::Plus => "add"@,
        Infix::Minus => "subtract"@,
        Infix::Multiply => "multiply"@,
        _ => "divide"@,
    }
}

// what parse_term returns for the text p
pub open spec fn meaning_ok(p: Seq<char>, r: Result<Unifiable, String>) -> bool {
    let s = trimmed(p);
    let ix = arith_infix(s);
    if is_arith(ix.0) {
        match operands(s, ix.1, 1) {
            Err(e) => r == Err::<Unifiable, String>(e),
            Ok(lr) => r matches Ok(Unifiable::SFunction{name, terms}) && name@ == arith_name(ix.0) && terms@ == seq![lr.0, lr.1],
        }
    } else {
        r == mk(unescape2(s), flags_of(s))
    }
}

// the same parse: both fail, or both give the same term
pub open spec fn same_parse(a: Result<Unifiable, String>, b: Result<Unifiable, String>) -> bool {
    match (a, b) {
        (Ok(x), Ok(y)) => x == y,
        (Err(_), Err(_)) => true,
        _ => false,
    }
}

// a list element / an operand / an argument cut out of `src` at [lo, hi): the term is the meaning of that piece, trimmed, on its own
pub open spec fn piece_alone(src: Seq<char>, lo: int, hi: int, t: Unifiable) -> bool {
    0 <= lo <= hi <= src.len() && Ok::<Unifiable, String>(t) == alone(trimmed(src.subrange(lo, hi)))
}

// every term of a sequence is the meaning of some piece of `src`
pub open spec fn has_piece(src: Seq<char>, t: Unifiable) -> bool {
    exists|lo: int, hi: int| #[trigger] piece_alone(src, lo, hi, t)
}
pub open spec fn pieces_ok(src: Seq<char>, es: Seq<Unifiable>) -> bool {
    forall|k: int| 0 <= k < es.len() ==> has_piece(src, #[trigger] es[k])
}
pub proof fn lemma_pieces_front(src: Seq<char>, lo: int, hi: int, t: Unifiable, es: Seq<Unifiable>)
    requires pieces_ok(src, es), piece_alone(src, lo, hi, t),
    ensures pieces_ok(src, seq![t] + es),
{
    let n = seq![t] + es;
    assert forall|k: int| 0 <= k < n.len() implies has_piece(src, #[trigger] n[k]) by {
        if k == 0 { assert(n[0] == t); assert(piece_alone(src, lo, hi, n[0])); }
        else { assert(n[k] == es[k - 1]); assert(has_piece(src, es[k - 1])); }
    }
}
// the text between the brackets of a list
pub open spec fn inner_text(p: Seq<char>) -> Seq<char> {
    let s = trimmed(p);
    s.subrange(1, s.len() - 1)
}

pub proof fn lemma_flags_step(s: Seq<char>, n: int)
    requires 0 <= n < s.len(),
    ensures
        flags_upto(s, n + 1).hd == (flags_upto(s, n).hd || is_digit_char(s[n])),
        flags_upto(s, n + 1).hp == (flags_upto(s, n).hp || s[n] == '.'),
        flags_upto(s, n + 1).hnd == (flags_upto(s, n).hnd || (!is_digit_char(s[n]) && s[n] != '.')),
{
    let a = s.subrange(0, n);
    let b = s.subrange(0, n + 1);
    assert(b[n] == s[n]);
    assert forall|k: int| 0 <= k < n implies a[k] == b[k] by {};
    if flags_of(a).hd { let k = choose|k: int| 0 <= k < a.len() && is_digit_char(#[trigger] a[k]); assert(is_digit_char(b[k])); }
    if flags_of(a).hp { let k = choose|k: int| 0 <= k < a.len() && #[trigger] a[k] == '.'; assert(b[k] == '.'); }
    if flags_of(a).hnd { let k = choose|k: int| 0 <= k < a.len() && !is_digit_char(#[trigger] a[k]) && a[k] != '.'; assert(!is_digit_char(b[k]) && b[k] != '.'); }
    if flags_of(b).hd && !is_digit_char(s[n]) { let k = choose|k: int| 0 <= k < b.len() && is_digit_char(#[trigger] b[k]); assert(k < n); assert(is_digit_char(a[k])); }
    if flags_of(b).hp && s[n] != '.' { let k = choose|k: int| 0 <= k < b.len() && #[trigger] b[k] == '.'; assert(k < n); assert(a[k] == '.'); }
    if flags_of(b).hnd && !(!is_digit_char(s[n]) && s[n] != '.') {
        let k = choose|k: int| 0 <= k < b.len() && !is_digit_char(#[trigger] b[k]) && b[k] != '.';
        assert(k < n); assert(!is_digit_char(a[k]) && a[k] != '.');
    }
}
