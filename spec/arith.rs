// ---------------------------------------------------------------------------
// spec/arith.rs -- the numeric arguments of add / subtract / multiply / divide (C12)
// ---------------------------------------------------------------------------

// argument i is ground and numeric
pub open spec fn num_arg(s: SS, t: Unifiable) -> bool {
    ground_of(s, t) matches Some(g) && (g is SInteger || g is SFloat)
}

// the number an argument stands for
pub open spec fn num_of(s: SS, t: Unifiable) -> SNumber {
    match ground_of(s, t) {
        Some(Unifiable::SInteger(i)) => SNumber::SInteger(i),
        Some(Unifiable::SFloat(f)) => SNumber::SFloat(f),
        _ => arbitrary(),
    }
}

pub open spec fn some_float(ns: Seq<SNumber>) -> bool {
    exists|j: int| 0 <= j < ns.len() && #[trigger] ns[j] is SFloat
}

// the integers among the numbers, in order
pub open spec fn ints_of(ns: Seq<SNumber>) -> Seq<i64>
    decreases ns.len(),
{
    if ns.len() == 0 { Seq::empty() }
    else {
        match ns.last() {
            SNumber::SInteger(i) => ints_of(ns.drop_last()).push(i),
            _ => ints_of(ns.drop_last()),
        }
    }
}

// every number as a float: floats as they are, integers converted
pub open spec fn as_float(n: SNumber) -> f64 {
    match n { SNumber::SFloat(f) => f, SNumber::SInteger(i) => i2f(i) }
}

pub proof fn lemma_ints_of_all(ns: Seq<SNumber>)
    requires forall|j: int| 0 <= j < ns.len() ==> #[trigger] ns[j] is SInteger,
    ensures ints_of(ns).len() == ns.len(),
        forall|j: int| 0 <= j < ns.len() ==> ns[j] == SNumber::SInteger(#[trigger] ints_of(ns)[j]),
    decreases ns.len(),
{
    if ns.len() > 0 {
        lemma_ints_of_all(ns.drop_last());
        assert(ns.last() is SInteger);
        assert forall|j: int| 0 <= j < ns.len() implies ns[j] == SNumber::SInteger(#[trigger] ints_of(ns)[j]) by {
            if j < ns.len() - 1 { assert(ns.drop_last()[j] == ns[j]); }
        }
    }
}

// ---------------------------------------------------------------------------
// the documented value of add / subtract / multiply / divide (C12), written from the statement:
// the left-to-right fold of the arguments; 64-bit integers with truncating division when all
// arguments are integers, f64 (integers converted) when any argument is a float.
// ---------------------------------------------------------------------------
pub enum ArOp { Add, Sub, Mul, Div }

// the numbers the arguments stand for, in argument order
pub open spec fn nums_of(s: SS, terms: Seq<Unifiable>) -> Seq<SNumber> {
    Seq::new(terms.len(), |j: int| num_of(s, terms[j]))
}

// all numbers as floats
pub open spec fn floats_of(ns: Seq<SNumber>) -> Seq<f64> {
    Seq::new(ns.len(), |j: int| as_float(ns[j]))
}

// division that discards the remainder (rounds toward zero), on mathematical integers
pub open spec fn tdiv(a: int, b: int) -> int {
    if b == 0 { 0 }
    else if a >= 0 && b > 0 { a / b }
    else if a < 0 && b > 0 { -((-a) / b) }
    else if a >= 0 && b < 0 { -(a / (-b)) }
    else { (-a) / (-b) }
}

pub open spec fn i_op(op: ArOp, a: int, b: int) -> int {
    match op { ArOp::Add => a + b, ArOp::Sub => a - b, ArOp::Mul => a * b, ArOp::Div => tdiv(a, b) }
}

pub open spec fn f_op(op: ArOp, a: f64, b: f64) -> f64 {
    match op {
        ArOp::Add => vstd::std_specs::ops::AddSpec::add_spec(a, b),
        ArOp::Sub => vstd::std_specs::ops::SubSpec::sub_spec(a, b),
        ArOp::Mul => vstd::std_specs::ops::MulSpec::mul_spec(a, b),
        ArOp::Div => vstd::std_specs::ops::DivSpec::div_spec(a, b),
    }
}

// ((init op s[0]) op s[1]) op ...   on mathematical integers
pub open spec fn i_fold(op: ArOp, init: int, s: Seq<i64>) -> int
    decreases s.len(),
{
    if s.len() == 0 { init } else { i_op(op, i_fold(op, init, s.drop_last()), s.last() as int) }
}

// ((init op s[0]) op s[1]) op ...   on f64
pub open spec fn f_fold(op: ArOp, init: f64, s: Seq<f64>) -> f64
    decreases s.len(),
{
    if s.len() == 0 { init } else { f_op(op, f_fold(op, init, s.drop_last()), s.last()) }
}

pub open spec fn i64_ok(v: int) -> bool { i64::MIN <= v <= i64::MAX }

// "integer overflow and integer division by zero are outside the claim": every partial result fits
// in an i64 and no divisor is zero
pub open spec fn i_fold_ok(op: ArOp, init: int, s: Seq<i64>) -> bool {
    &&& forall|k: int| 0 <= k <= s.len() ==> i64_ok(#[trigger] i_fold(op, init, s.take(k)))
    &&& op is Div ==> forall|j: int| 0 <= j < s.len() ==> #[trigger] s[j] != 0
}

// start value and folded arguments of each function: add starts from 0, multiply from 1,
// subtract and divide from the first argument
pub open spec fn i_value(op: ArOp, is: Seq<i64>) -> int {
    match op {
        ArOp::Add => i_fold(op, 0, is),
        ArOp::Mul => i_fold(op, 1, is),
        _ => i_fold(op, is[0] as int, is.skip(1)),
    }
}
pub open spec fn i_value_ok(op: ArOp, is: Seq<i64>) -> bool {
    match op {
        ArOp::Add => i_fold_ok(op, 0, is),
        ArOp::Mul => i_fold_ok(op, 1, is),
        _ => is.len() >= 1 && i_fold_ok(op, is[0] as int, is.skip(1)),
    }
}
pub open spec fn f_value(op: ArOp, fs: Seq<f64>) -> f64 {
    match op {
        ArOp::Add => f_fold(op, 0.0f64, fs),
        ArOp::Mul => f_fold(op, 1.0f64, fs),
        _ => f_fold(op, fs[0], fs.skip(1)),
    }
}

// the statement's value
pub open spec fn arith_value(op: ArOp, ns: Seq<SNumber>) -> Unifiable {
    if some_float(ns) { Unifiable::SFloat(f_value(op, floats_of(ns))) }
    else { Unifiable::SInteger(i_value(op, ints_of(ns)) as i64) }
}

// precondition of the claim: ground numeric arguments (anything else panics), at least one argument for
// subtract / divide (they take the first argument as the start value), and - when all arguments are
// integers - no overflow and no zero divisor
pub open spec fn arith_pre(op: ArOp, s: SS, terms: Seq<Unifiable>) -> bool {
    &&& acyclic(s)
    &&& forall|j: int| 0 <= j < terms.len() ==> num_arg(s, #[trigger] terms[j])
    &&& (op is Sub || op is Div) ==> terms.len() >= 1
    &&& !some_float(nums_of(s, terms)) ==> i_value_ok(op, ints_of(nums_of(s, terms)))
}

// machine division of i64 is truncating division
pub proof fn lemma_i64_div_is_tdiv(a: i64, b: i64)
    requires b != 0, !(a == i64::MIN && b == -1),
    ensures
        vstd::std_specs::ops::DivSpec::div_req(a, b),
        vstd::std_specs::ops::DivSpec::div_spec(a, b) as int == tdiv(a as int, b as int),
{
    if a >= 0 && b < 0 {
        assert(vstd::std_specs::ops::DivSpec::div_spec(a, b) == -((a as int) / (-(b as int)))) by (nonlinear_arith) requires b < 0, a >= 0;
    } else if a < 0 && b < 0 {
        assert(vstd::std_specs::ops::DivSpec::div_spec(a, b) == ((-(a as int)) / (-(b as int)))) by (nonlinear_arith) requires b < 0, a < 0, !(a == i64::MIN && b == -1);
    } else if a < 0 && b > 0 {
        assert(vstd::std_specs::ops::DivSpec::div_spec(a, b) == -((-(a as int)) / (b as int))) by (nonlinear_arith) requires b > 0, a < 0;
    }
}

// one step of a fold over a prefix
pub proof fn lemma_i_fold_step(op: ArOp, init: int, s: Seq<i64>, k: int)
    requires 0 <= k < s.len(),
    ensures i_fold(op, init, s.take(k + 1)) == i_op(op, i_fold(op, init, s.take(k)), s[k] as int),
{
    assert(s.take(k + 1).drop_last() =~= s.take(k));
    assert(s.take(k + 1).last() == s[k]);
}
pub proof fn lemma_f_fold_step(op: ArOp, init: f64, s: Seq<f64>, k: int)
    requires 0 <= k < s.len(),
    ensures f_fold(op, init, s.take(k + 1)) == f_op(op, f_fold(op, init, s.take(k)), s[k]),
{
    assert(s.take(k + 1).drop_last() =~= s.take(k));
    assert(s.take(k + 1).last() == s[k]);
}
// without a float, every number is an integer
pub proof fn lemma_no_float_all_ints(ns: Seq<SNumber>)
    requires !some_float(ns),
    ensures forall|j: int| 0 <= j < ns.len() ==> #[trigger] ns[j] is SInteger,
{
    assert forall|j: int| 0 <= j < ns.len() implies #[trigger] ns[j] is SInteger by {
        if !(ns[j] is SInteger) { assert(ns[j] is SFloat); }
    }
}
