#!/usr/bin/env python3
"""dev helper: trymut.py <props,comma> (--patch FILE | --sub FILE 'old' 'new') [--keep]
applies a change to a scratch copy of /repo/src (under /tmp/mutwt), runs bin/check <prop> --repo, removes it."""
import sys, os, subprocess, shutil, hashlib, glob
def cleanup_build(d):
    h = hashlib.sha1(os.path.abspath(d).encode()).hexdigest()[:8]
    for p in glob.glob('/verif/build/*_' + h):
        shutil.rmtree(p, ignore_errors=True)

props = sys.argv[1].split(',')
d = '/tmp/mutwt'
shutil.rmtree(d, ignore_errors=True)
os.makedirs(d)
subprocess.run(['cp', '-r', '/repo/src', '/repo/Cargo.toml', '/repo/Cargo.lock', '/repo/build.rs', d], check=False)
for extra in ('tests', 'benches'):
    if os.path.exists('/repo/' + extra):
        subprocess.run(['cp', '-r', '/repo/' + extra, d])
if sys.argv[2] == '--patch':
    r = subprocess.run(['patch', '-p1', '-d', d, '-i', os.path.abspath(sys.argv[3])], capture_output=True, text=True)
    print(r.stdout.strip()); 
    if r.returncode: print(r.stderr); sys.exit(3)
else:
    f, old, new = sys.argv[3], sys.argv[4], sys.argv[5]
    p = os.path.join(d, 'src', f)
    s = open(p).read()
    if old not in s:
        print('pattern not found'); sys.exit(3)
    open(p, 'w').write(s.replace(old, new, 1))
if '--compile' in sys.argv:
    r = subprocess.run(['cargo', 'build', '--offline', '-q'], cwd=d, capture_output=True, text=True, env=dict(os.environ, CARGO_TARGET_DIR='/tmp/mutwt-target'))
    print('compile:', 'ok' if r.returncode == 0 else r.stderr[-800:])
for p in props:
    r = subprocess.run(['/verif/bin/check', p, 'quick', '--repo', d, '--no-evidence'], capture_output=True, text=True)
    print('[%s] exit=%d' % (p, r.returncode))
    print('\n'.join('   ' + l for l in r.stdout.strip().split('\n')[:12]))
if '--keep' not in sys.argv:
    shutil.rmtree(d, ignore_errors=True)
    cleanup_build(d)
