// ---------------------------------------------------------------------------
// spec/std_strings.rs -- TRUSTED(T3): assumed specifications of std string
// primitives that vstd does not specify.
// ---------------------------------------------------------------------------

// TRUSTED(T3): String == str compares the character sequences.
pub assume_specification[ <String as PartialEq<str>>::eq ](a: &String, b: &str) -> (r: bool)
    ensures r == (a@ == b@);
