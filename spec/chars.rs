// ---------------------------------------------------------------------------
// spec/chars.rs -- TRUSTED(T3/T4): the two conversion macros of macros.rs as functions
// (rule R5), and assumed specifications of the std string primitives the readers
// and parsers use.
// ---------------------------------------------------------------------------

// str_to_chars!(s) == s.chars().collect::<Vec<char>>()
#[verifier::external_body]
pub fn str_to_chars(s: &str) -> (r: Vec<char>)
    ensures r@ == s@,
{ s.chars().collect::<Vec<char>>() }

// chars_to_string!(c) == c.iter().collect::<String>()
#[verifier::external_body]
pub fn chars_to_string(c: &[char]) -> (r: String)
    ensures r@ == c@,
{ c.iter().collect::<String>() }

pub open spec fn is_ws(c: char) -> bool { c == ' ' || c == '\t' || c == '\n' || c == '\r' }

// what str::trim returns: the sub-sequence between the first and last non-whitespace character
// (std trims Unicode White_Space; the claims below only use: it is a contiguous sub-sequence,
//  it is empty iff nothing else is left, and a non-empty result keeps its first and last characters)
pub open spec fn is_trim_of(r: Seq<char>, s: Seq<char>) -> bool {
    exists|i: int, j: int| 0 <= i <= j <= s.len() && r == s.subrange(i, j)
}

pub assume_specification<'a>[ str::trim ](s: &'a str) -> (r: &'a str)
    ensures is_trim_of(r@, s@);

// TRUSTED(T3): char::is_ascii_digit
pub assume_specification[ char::is_ascii_digit ](c: &char) -> (r: bool)
    ensures r == ('0' <= *c && *c <= '9');
