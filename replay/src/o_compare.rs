//! C14: comparison predicates follow numeric / lexicographic order, never bind.
use crate::terms::*;
use crate::o_unify::{ser_ss, de_ss};
use std::rc::Rc;
use suiron::*;
use suiron::Unifiable::*;

fn field<'a>(case: &'a str, key: &str) -> &'a str {
    for p in case.split(';') { if let Some(v) = p.strip_prefix(&format!("{}=", key)) { return v; } }
    ""
}

const PREDS: [&str; 5] = ["equal", "less_than", "less_than_or_equal", "greater_than", "greater_than_or_equal"];

pub fn enum_cmp(_seed: u64) -> Vec<String> {
    let consts = vec![SInteger(0), SInteger(1), SInteger(-1), SInteger(i64::MAX), SInteger(i64::MIN), SInteger(9007199254740993),
                      SFloat(0.0), SFloat(-0.0), SFloat(0.5), SFloat(1.0), SFloat(9007199254740992.0), SFloat(-1.5),
                      atom("a"), atom("b"), atom("B"), atom("ab"), atom("é"), atom("a b"), atom("")];
    let others = vec![var(5, "$U"), SComplex(vec![atom("f"), atom("a")]), empty(), Anonymous];
    let mut out = vec![];
    for p in PREDS {
        for l in &consts { for r in &consts {
            out.push(format!("p={};ss=;l={};r={}", p, ser(l), ser(r)));
        } }
        for l in &consts { for o in &others {
            out.push(format!("p={};ss=;l={};r={}", p, ser(l), ser(o)));
            out.push(format!("p={};ss=;l={};r={}", p, ser(o), ser(l)));
        } }
        // through variable chains: $X -> $Y -> l ; $Z -> r
        for l in consts.iter().take(14).step_by(3) { for r in consts.iter().step_by(2) {
            let ss: Vec<Option<Rc<Unifiable>>> = vec![None, Some(Rc::new(var(2, "$Y"))), Some(Rc::new(l.clone())), Some(Rc::new(r.clone()))];
            out.push(format!("p={};ss={};l=V:1:$X;r=V:3:$Z", p, ser_ss(&ss)));
        } }
    }
    out
}

fn resolve(t: &Unifiable, ss: &Vec<Option<Rc<Unifiable>>>) -> Option<Unifiable> {
    let mut t = t.clone();
    for _ in 0..100 {
        match &t {
            LogicVar { id, .. } => match ss.get(*id).and_then(|o| o.as_ref()) { Some(b) => { t = (**b).clone(); } None => return None },
            _ => return Some(t),
        }
    }
    None
}

/// expected outcome from the statement
fn expected(p: &str, l: &Unifiable, r: &Unifiable) -> bool {
    use std::cmp::Ordering::*;
    let ord = match (l, r) {
        (Atom(a), Atom(b)) => Some(a.as_str().cmp(b.as_str())),
        (SInteger(a), SInteger(b)) => Some(a.cmp(b)),
        (SInteger(a), SFloat(b)) => (*a as f64).partial_cmp(b),
        (SFloat(a), SInteger(b)) => a.partial_cmp(&(*b as f64)),
        (SFloat(a), SFloat(b)) => a.partial_cmp(b),
        _ => return false,
    };
    match (p, ord) {
        ("equal", Some(Equal)) => true,
        ("less_than", Some(Less)) => true,
        ("less_than_or_equal", Some(Less)) | ("less_than_or_equal", Some(Equal)) => true,
        ("greater_than", Some(Greater)) => true,
        ("greater_than_or_equal", Some(Greater)) | ("greater_than_or_equal", Some(Equal)) => true,
        _ => false,
    }
}

pub fn check_cmp(case: &str) -> Result<(), String> {
    let p = field(case, "p");
    let ss = Rc::new(de_ss(field(case, "ss")));
    let l = de(field(case, "l"));
    let r = de(field(case, "r"));
    let bip = BuiltInPredicate::new(p.to_string(), Some(vec![l.clone(), r.clone()]));
    let got = match p {
        "equal" => bip_equal(bip, &ss),
        "less_than" => bip_less_than(bip, &ss),
        "less_than_or_equal" => bip_less_than_or_equal(bip, &ss),
        "greater_than" => bip_greater_than(bip, &ss),
        _ => bip_greater_than_or_equal(bip, &ss),
    };
    let exp = match (resolve(&l, &ss), resolve(&r, &ss)) { (Some(a), Some(b)) => expected(p, &a, &b), _ => false };
    match got {
        Some(g) => {
            if !exp { return Err(format!("{} succeeded but the operands do not compare that way", p)); }
            if ser_ss(&g) != ser_ss(&ss) { return Err("comparison changed the substitution".into()); }
            Ok(())
        }
        None => if exp { Err(format!("{} failed but the operands compare that way", p)) } else { Ok(()) },
    }
}
