#!/usr/bin/env python3
"""gen_r4_baseline.py -- records, for every function under proof, how many `format!(..)` expressions of its body are
rewritten by rule R4 into an ARBITRARY string on the pinned tree (spec/r4_baseline.json, committed).  A function that has
MORE of them in the tree under check contains a text the contracts know nothing about: failed obligations of that function
are then inconclusive (exit 2), not violations (DESIGN 8.51).  Run by hand when a contract or wrapper changes."""
import os, sys, json
VERIF = os.path.dirname(os.path.dirname(os.path.abspath(__file__)))
sys.path.insert(0, os.path.join(VERIF, 'tools'))
import extract
base = {}
for u in sorted(os.listdir(os.path.join(VERIF, 'units'))):
    if not u.endswith('.unit'):
        continue
    out, info = extract.build(u[:-5], '/repo')
    for f in info['functions']:
        if f.get('mode') == 'prove':
            base['%s::%s' % (u[:-5], f['fn'])] = f.get('r4', 0)
json.dump(base, open(os.path.join(VERIF, 'spec', 'r4_baseline.json'), 'w'), indent=1, sort_keys=True)
print(len(base), 'functions;', sum(1 for v in base.values() if v), 'with an unwrapped format!')
