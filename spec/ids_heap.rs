// ---------------------------------------------------------------------------
// spec/ids_heap.rs -- the invariant "every variable id referenced from the search state is at most the counter" (unit solver_ids)
// ---------------------------------------------------------------------------
pub open spec fn node_ids_ok(n: NodeSt, b: int) -> bool {
    &&& goal_below(n.goal, b)
    &&& ss_below(n.ss@, b)
    &&& (n.operator_tail matches Some(op) ==> goals_below(gl_goals(op), b))
}
pub open spec fn ids_ok(h: Heap) -> bool {
    forall|n: int| #[trigger] alive(h, n) ==> node_ids_ok(h.st[n], h.ids as int + 1)
}
// the three things of a node that hold variables
pub open spec fn same_contents(a: NodeSt, b: NodeSt) -> bool {
    a.goal == b.goal && a.ss == b.ss && a.operator_tail == b.operator_tail
}
pub proof fn lemma_node_ids_mono(n: NodeSt, b: int, c: int)
    requires node_ids_ok(n, b), b <= c,
    ensures node_ids_ok(n, c),
{
    lemma_goal_below_mono(n.goal, b, c);
    lemma_ss_below_mono(n.ss@, b, c);
    if let Some(op) = n.operator_tail { lemma_goals_below_mono(gl_goals(op), b, c); }
}
// the counter went up (or stayed), nodes were added or changed but every node holds what it held or something below the counter
pub proof fn lemma_ids_step(h1: Heap, h2: Heap)
    requires
        ids_ok(h1), h1.ids <= h2.ids,
        forall|n: int| #[trigger] alive(h2, n) ==> (alive(h1, n) && same_contents(h1.st[n], h2.st[n])) || node_ids_ok(h2.st[n], h2.ids as int + 1),
    ensures ids_ok(h2),
{
    assert forall|n: int| #[trigger] alive(h2, n) implies node_ids_ok(h2.st[n], h2.ids as int + 1) by {
        if alive(h1, n) && same_contents(h1.st[n], h2.st[n]) {
            lemma_node_ids_mono(h1.st[n], h1.ids as int + 1, h2.ids as int + 1);
        }
    }
}
pub open spec fn goal_of_rc(g: Rc<Goal>) -> Goal { *g }
