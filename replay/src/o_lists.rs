//! C15: make_linked_list builds exactly the given elements.
use crate::terms::*;
use suiron::*;

fn eff(v: &[Unifiable]) -> Vec<Unifiable> {
    if v.len() >= 1 && v[v.len() - 1] == Unifiable::Nil { v[..v.len() - 1].to_vec() } else { v.to_vec() }
}
fn is_list(t: &Unifiable) -> bool { matches!(t, Unifiable::SLinkedList{..}) }

fn splices(v: &[Unifiable]) -> bool { v.len() >= 2 && is_list(&v[v.len() - 1]) }

/// precondition taken from the call sites (spec/lists.rs mll_pre)
fn pre(vbar: bool, v: &[Unifiable]) -> bool {
    let e = eff(v);
    if e.iter().any(|t| *t == Unifiable::Nil) { return false; }
    if splices(v) && !wf_list(&v[v.len() - 1]) { return false; }
    if vbar {
        if e.is_empty() { return false; }
        if !(splices(v) || is_tail_term(&e[e.len() - 1])) { return false; }
    }
    true
}

pub fn enum_mll(seed: u64) -> Vec<String> {
    let u = universe();
    let mut out = vec![];
    let mut rng = Rng(seed.wrapping_mul(0x9E3779B97F4A7C15) | 1);
    for vbar in [false, true] {
        // exhaustive for length 0..=2, sampled for 3..=4
        let mut seqs: Vec<Vec<Unifiable>> = vec![vec![]];
        for a in &u { seqs.push(vec![a.clone()]); }
        for a in &u { for b in &u { seqs.push(vec![a.clone(), b.clone()]); } }
        for _ in 0..400 {
            let n = 3 + rng.below(2);
            seqs.push((0..n).map(|_| u[rng.below(u.len())].clone()).collect());
        }
        // seeded random elements (nested lists and complex terms), up to five of them
        for _ in 0..200 {
            let n = 1 + rng.below(5);
            seqs.push((0..n).map(|_| rand_term(&mut rng, 2, 4, true)).collect());
        }
        for s in seqs {
            if pre(vbar, &s) { out.push(format!("{};{}", if vbar { "t" } else { "f" }, ser_list(&s))); }
            let mut s2 = s.clone();
            s2.push(Unifiable::Nil);
            if pre(vbar, &s2) { out.push(format!("{};{}", if vbar { "t" } else { "f" }, ser_list(&s2))); }
        }
    }
    out
}

pub fn check_mll(case: &str) -> Result<(), String> {
    let (vb, ts) = case.split_once(';').unwrap();
    let vbar = vb == "t";
    let terms = de_list(ts);
    if !pre(vbar, &terms) { return Ok(()); }
    let e = eff(&terms);
    let res = make_linked_list(vbar, terms.clone());
    // expected, from the statement: the given elements; a trailing tail variable
    // as the tail; a trailing list spliced in as the rest of the list.
    let (exp_elems, exp_tail): (Vec<Unifiable>, Option<Unifiable>) =
        if splices(&terms) {
            let last = &e[e.len() - 1];
            let mut front = e[..e.len() - 1].to_vec();
            front.extend(elems(last));
            (front, tail_of(last))
        }
        else if vbar { (e[..e.len() - 1].to_vec(), Some(e[e.len() - 1].clone())) }
        else { (e.clone(), None) };
    if !wf_list(&res) { return Err(format!("result is not a well-formed list: {}", ser(&res))); }
    if elems(&res) != exp_elems { return Err(format!("elements differ: got {} expected {}", ser_list(&elems(&res)), ser_list(&exp_elems))); }
    if tail_of(&res) != exp_tail { return Err(format!("tail differs: got {:?}", tail_of(&res).map(|t| ser(&t)))); }
    let exp_n = exp_elems.len() + if exp_tail.is_some() { 1 } else { 0 };
    if node_count(&res) != exp_n { return Err(format!("count differs: {} vs {}", node_count(&res), exp_n)); }
    if e.is_empty() && res != empty() { return Err("empty input must give the empty list".into()); }
    Ok(())
}

// ---- parsed lists (C15): whatever parse_linked_list accepts is a well-formed list ----------------
pub fn enum_parsed(_s: u64) -> Vec<String> {
    let elems = ["a", "$X", "[b]", "[]", "f(a)", "1", "$_"];
    let mut out: Vec<String> = vec!["[]".into(), "[a | $T]".into(), "[a, b | $T]".into(), "[a | $T, b]".into(), "[a | $T, b, c]".into(),
        "[$H | $T, [x]]".into(), "[a, b, c]".into(), "[[a], [b | $T]]".into(), "[a | $T | $U]".into(), "[| $T]".into()];
    for a in elems { for b in elems { out.push(format!("[{}, {}]", a, b)); out.push(format!("[{} | $T, {}]", a, b)); out.push(format!("[{}, {} | $T]", a, b)); } }
    out
}
pub fn check_parsed(case: &str) -> Result<(), String> {
    match parse_linked_list(case) {
        Err(_) => Ok(()),
        Ok(l) => if wf_list(&l) { Ok(()) } else { Err(format!("accepted, but the list is not well formed (a tail variable that is not last): {}", ser(&l))) },
    }
}
