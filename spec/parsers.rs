// ---------------------------------------------------------------------------
// spec/parsers.rs -- helpers for the parser unit (C18)
// ---------------------------------------------------------------------------

// TRUSTED(T1): derived PartialEq on the field-less enum Infix is equality of variants
impl vstd::std_specs::cmp::PartialEqSpecImpl for Infix {
    open spec fn obeys_eq_spec() -> bool { true }
    open spec fn eq_spec(&self, other: &Infix) -> bool { *self == *other }
}

// Provenance marker (C22): "this goal was returned by make_query", the query constructor whose reset of
// the global query state is proved by Kani.  Uninterpreted; its only source is the clause assumed at
// make_query's call sites, so `built_by_make_query(q)` can be proved of a value only by obtaining it
// from make_query.
pub uninterp spec fn built_by_make_query(g: Goal) -> bool;

// make_logic_var: the variable named as written (trimmed), id 0
pub open spec fn var_as_written(r: Result<Unifiable, String>, text: Seq<char>) -> bool {
    match r {
        Ok(Unifiable::LogicVar{id, name}) => id == 0 && name@ == trimmed(text),
        Ok(_) => false,
        Err(_) => true,
    }
}
