//! C21: loading a file equals parsing its rules one by one.  The pure splitting functions are
//! private, so the oracle goes through the public loader with a temporary file.
use suiron::*;
use std::io::Write;

pub fn enum_load(_s: u64) -> Vec<String> {
    let progs: Vec<Vec<&str>> = vec![
        vec!["p(a).", "q(b)."],
        vec!["p($X) :- $X = 1.5, q($X).", "q(1.5)."],
        vec!["big($X) :- $X > 2.25.", "r(a)."],
        vec!["p($X) :- q($X), r($X).", "q(a).", "r(a)."],
        vec!["w(0.5).", "v(3)."],
        vec!["l([a, b | $T]) :- m($T)."],
        vec!["city(Zürich).", "mild($C) :- temperature($C, $T), $T > 10.5, sunny($C).", "temperature(Zürich, 17.5)."],
        vec!["π(3.14159).", "big($X) :- $X > 2.5."],
        vec!["p($X) :- $X = 5.", "q(a)."],
        vec!["dec($X, $Y) :- $Y = $X - 1.", "same($X) :- $X == 5, q($X)."],
        vec!["r($X) :- q($X), $X <= 2.5; s($X).", "t([a, b], f(c, d))."],
        // comment characters inside parentheses and brackets are text, not comments
        vec!["show($R) :- print(Your rank is %s., $R).", "palette([#ff0000, #00ff00]).", "link(http://example.org/a, $X) :- ok($X)."],
    ];
    let mut out = vec![];
    for p in &progs {
        out.push(format!("{}", p.join("\u{1}")));                      // one rule per line
        out.push(format!("{}\u{2}", p.join("\u{1}")));                 // all rules on one line
        // a line break (and indentation) after every - , ; = that is followed by a space.  Not for texts with a comment
        // character inside brackets: strip_comments counts bracket depth per line, so `palette([#ff0000,` / `#00ff00]).`
        // is REJECTED with an unmatched-parenthesis error on the unchanged tree - which the statement permits ("loaded this
        // way or rejected with an error"); recorded in DESIGN.md 8.18 as an observation, not as a finding
        if !p.iter().any(|r| r.contains("(Your rank") || r.contains("[#") || r.contains("http://")) {
            out.push(format!("{}\u{3}", p.join("\u{1}")));
        }
        out.push(format!("{}\u{4}", p.join("\u{1}")));                 // one rule per line, each followed by a comment that ends in a legal end-of-line character
    }
    // a rule in the middle that does not parse: the file is rejected, and the rules before it have been added
    for p in &progs { if p.len() >= 2 { out.push(format!("{}\u{5}", p.join("\u{1}"))); } }
    out
}

/// The rejected half: a text that is not a rule is put after the first rule.  load_kb_from_file must report an error.
fn check_load_bad(body: &str) -> Result<(), String> {
    let rules: Vec<&str> = body.split('\u{1}').collect();
    let candidates = [":- nothing.", "p(a) :- .", "p(a) :- q(b) r(c).", "p(a, ) :- q."];
    let bad = match candidates.iter().find(|c| parse_rule(c).is_err()) { Some(b) => *b, None => return Err(format!("generator: all of {:?} parse", candidates)) };
    let mut text = String::new();
    text.push_str(rules[0]); text.push('\n'); text.push_str(bad); text.push('\n');
    for r in &rules[1..] { text.push_str(r); text.push('\n'); }
    let path = std::env::temp_dir().join(format!("verif_c21_bad_{}.txt", std::process::id()));
    { let mut f = std::fs::File::create(&path).map_err(|e| e.to_string())?; f.write_all(text.as_bytes()).map_err(|e| e.to_string())?; }
    let mut kb = KnowledgeBase::new();
    let res = load_kb_from_file(&mut kb, path.to_str().unwrap());
    let _ = std::fs::remove_file(&path);
    // (what the knowledge base holds after a rejected load is not part of the statement: an atomic load satisfies it too)
    let _ = &kb;
    if res.is_none() { return Err(format!("a file with the unparsable rule {:?} loads without an error", bad)); }
    Ok(())
}

pub fn check_load(case: &str) -> Result<(), String> {
    if case.ends_with('\u{5}') { return check_load_bad(case.trim_end_matches('\u{5}')); }
    let one_line = case.ends_with('\u{2}');
    let broken = case.ends_with('\u{3}');
    let commented = case.ends_with('\u{4}');
    let body = case.trim_end_matches('\u{2}').trim_end_matches('\u{3}').trim_end_matches('\u{4}');
    let rules: Vec<&str> = body.split('\u{1}').collect();
    // expected: each rule parsed with the rule parser
    let mut expected = vec![];
    for r in &rules { match parse_rule(r) { Ok(x) => expected.push(format!("{}", x)), Err(e) => return Err(format!("generator produced an unparsable rule {}: {}", r, e)) } }
    let text = if one_line { rules.join(" ") }
        else if broken {
            // the documented continuation characters: a line may end in - , ; = (and the rule goes on in the next line)
            let mut t = String::new();
            for r in &rules {
                let cs: Vec<char> = r.chars().collect();
                let mut k = 0;
                while k < cs.len() {
                    t.push(cs[k]);
                    if "-,;=".contains(cs[k]) && k + 1 < cs.len() && cs[k + 1] == ' ' { t.push_str("\n   "); k += 1; }
                    k += 1;
                }
                t.push_str("\n\n# a comment line\n");
            }
            t
        }
        else if commented {
            let notes = ["   % Print the rank.", "  # two colours,", " // see the manual;", "\t% x = 1.5.", " # done -"];
            let mut t = String::from("# header comment.\n\n");
            for (k, r) in rules.iter().enumerate() { t.push_str(r); t.push_str(notes[k % notes.len()]); t.push('\n'); }
            t
        }
        else { rules.join("\n") };
    let path = std::env::temp_dir().join(format!("verif_c21_{}.txt", std::process::id()));
    { let mut f = std::fs::File::create(&path).map_err(|e| e.to_string())?; f.write_all(text.as_bytes()).map_err(|e| e.to_string())?; f.write_all(b"\n").ok(); }
    let got = read_facts_and_rules(path.to_str().unwrap());
    // the top of the loader: the knowledge base load_kb_from_file builds is the one the rules, added one by one, build
    let mut kb_loaded = KnowledgeBase::new();
    let load_result = load_kb_from_file(&mut kb_loaded, path.to_str().unwrap());
    let _ = std::fs::remove_file(&path);
    if got.is_ok() {
        if let Some(e) = load_result { return Err(format!("load_kb_from_file rejects a file whose rules all parse: {}", e)); }
        let mut kb_expected = KnowledgeBase::new();
        for r in &rules { add_rules!(&mut kb_expected, parse_rule(r).unwrap()); }
        let show = |kb: &KnowledgeBase| { let mut v: Vec<String> = kb.iter().map(|(k, rs)| format!("{} => {}", k, rs.iter().map(|r| format!("{}", r)).collect::<Vec<_>>().join(" | "))).collect(); v.sort(); v };
        if show(&kb_loaded) != show(&kb_expected) { return Err(format!("load_kb_from_file built {:?}, the rules added one by one build {:?}", show(&kb_loaded), show(&kb_expected))); }
        // ... and into a knowledge base that already holds clauses of the same predicates (seed C21-4: a staged load replaced them):
        // the file loaded a second time into the same knowledge base
        {
            let path2 = std::env::temp_dir().join(format!("verif_c21_again_{}.txt", std::process::id()));
            { let mut f = std::fs::File::create(&path2).map_err(|e| e.to_string())?; f.write_all(text.as_bytes()).map_err(|e| e.to_string())?; f.write_all(b"\n").ok(); }
            let again = load_kb_from_file(&mut kb_loaded, path2.to_str().unwrap());
            let _ = std::fs::remove_file(&path2);
            if let Some(e) = again { return Err(format!("the second load of the same file is rejected: {}", e)); }
            for r in &rules { add_rules!(&mut kb_expected, parse_rule(r).unwrap()); }
            if show(&kb_loaded) != show(&kb_expected) { return Err(format!("loaded into a knowledge base that holds clauses of the same predicates: {:?}, the rules added one by one give {:?}", show(&kb_loaded), show(&kb_expected))); }
        }
    }
    match got {
        Err(e) => Err(format!("file rejected: {}", e)),
        Ok(strs) => {
            let mut printed = vec![];
            for s in &strs { match parse_rule(s) { Ok(x) => printed.push(format!("{}", x)), Err(e) => return Err(format!("loaded text was cut into {:?}; piece {:?} does not parse: {}", strs, s, e)) } }
            if printed != expected { return Err(format!("loaded rules {:?} differ from the rules parsed one by one {:?}", printed, expected)); }
            Ok(())
        }
    }
}
