// ---------------------------------------------------------------------------
// spec/counter.rs -- freshness of the ids handed out by the renaming family (C10), over spec/counter_state.rs
// ---------------------------------------------------------------------------
// the names added between m0 and m1 got ids handed out while the counter went from c0 to c1
pub open spec fn fresh_step(m0: VM, m1: VM, c0: nat, c1: nat) -> bool {
    &&& c0 <= c1
    &&& forall|k: String| #[trigger] m1.contains_key(k) && !m0.contains_key(k) ==> c0 < m1[k] <= c1
}
pub proof fn lemma_fresh_refl(m: VM, c: nat)
    ensures fresh_step(m, m, c, c),
{}
pub proof fn lemma_fresh_trans(m0: VM, m1: VM, m2: VM, c0: nat, c1: nat, c2: nat)
    requires fresh_step(m0, m1, c0, c1), fresh_step(m1, m2, c1, c2), map_grows(m0, m1), map_grows(m1, m2),
    ensures fresh_step(m0, m2, c0, c2),
{
    assert forall|k: String| #[trigger] m2.contains_key(k) && !m0.contains_key(k) implies c0 < m2[k] <= c2 by {
        if m1.contains_key(k) { assert(m2[k] == m1[k]); }
    }
}
// every id of the map lies in (c0, c1]
pub open spec fn all_fresh(m: VM, c0: nat, c1: nat) -> bool {
    forall|k: String| #[trigger] m.contains_key(k) ==> c0 < m[k] <= c1
}
