// ---------------------------------------------------------------------------
// spec/wfsets.rs -- well-formedness of the terms of goals (C08 through the search: what unify requires of its inputs)
// ---------------------------------------------------------------------------
pub open spec fn ok_seq(s: Seq<Unifiable>) -> bool { nz_seq(s) && wf_seq(s) }
pub open spec fn goal_ok(g: Goal) -> bool
    decreases g,
{
    match g {
        Goal::OperatorGoal(x) => goals_ok(gl_goals(x)),
        Goal::BuiltInGoal(x) => (x.terms matches Some(t) ==> ok_seq(t@)),
        Goal::ComplexGoal(x) => ok_term(x),
        Goal::Nil => true,
    }
}
pub open spec fn goals_ok(s: Seq<Goal>) -> bool
    decreases s,
{
    s.len() == 0 || (goal_ok(s[0]) && goals_ok(s.drop_first()))
}
pub proof fn lemma_goals_ok_index(s: Seq<Goal>, i: int)
    requires goals_ok(s), 0 <= i < s.len(),
    ensures goal_ok(s[i]),
    decreases s.len(),
{
    if i > 0 { lemma_goals_ok_index(s.drop_first(), i - 1); }
}
pub proof fn lemma_ok_seq_index(s: Seq<Unifiable>, i: int)
    requires ok_seq(s), 0 <= i < s.len(),
    ensures ok_term(s[i]),
{
    lemma_nz_seq_index(s, i);
    lemma_wf_seq_index(s, i);
}
