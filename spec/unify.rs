// ---------------------------------------------------------------------------
// spec/unify.rs -- lemmas about binding a variable (C06 keeps/ok, C08 acyclic)
// ---------------------------------------------------------------------------

// s2 is s with variable x (unbound in s) bound to t, possibly grown to hold x
pub open spec fn is_bind(s2: SS, s: SS, x: int, t: Unifiable) -> bool {
    &&& 0 <= x < s2.len()
    &&& s.len() <= s2.len()
    &&& bnd(s, x) is None
    &&& bnd(s2, x) == Some(t)
    &&& forall|i: int| 0 <= i < s2.len() && i != x ==> bnd(s2, i) == #[trigger] bnd(s, i)
    &&& forall|i: int| 0 <= i < s.len() && i != x ==> s2[i] == #[trigger] s[i]
}

pub proof fn lemma_bind_extends(s2: SS, s: SS, x: int, t: Unifiable)
    requires is_bind(s2, s, x, t),
    ensures extends(s2, s),
{
    assert forall|i: int| 0 <= i < s.len() && s[i] is Some implies #[trigger] s2[i] == s[i] by {
        if i == x { assert(bnd(s, x) is None); }
    }
}

pub proof fn lemma_bind_ok(s2: SS, s: SS, x: int, t: Unifiable)
    requires is_bind(s2, s, x, t), ss_ok(s), ok_term(t),
    ensures ss_ok(s2),
{
    assert forall|i: int| 0 <= i < s2.len() implies ((#[trigger] s2[i]) matches Some(r) ==> ok_term(*r)) by {
        if i == x {
            assert(bnd(s2, x) == Some(t));
        } else {
            assert(bnd(s2, i) == bnd(s, i));
            if i < s.len() { assert(s2[i] == s[i]); }
        }
    }
}

// chain from i in s never reaches x (x unbound) => same chain in s2
pub proof fn lemma_chain_avoids(s2: SS, s: SS, x: int, t: Unifiable, i: int, f: nat)
    requires is_bind(s2, s, x, t), var_end(s, i, f) is Some, var_end(s, i, f) != Some(x),
    ensures var_end(s2, i, f) == var_end(s, i, f),
    decreases f,
{
    if i == x {
        // x is unbound in s, so the chain from x ends at x: contradiction
        assert(var_end(s, x, f) == Some(x));
    } else {
        assert(bnd(s2, i) == bnd(s, i)) by {
            if 0 <= i < s2.len() { } else { }
        }
        match bnd(s, i) {
            None => {},
            Some(u) => match u {
                Unifiable::LogicVar{id, name} => {
                    if f > 0 { lemma_chain_avoids(s2, s, x, t, id as int, (f - 1) as nat); }
                },
                _ => {},
            },
        }
    }
}

// chains that end at x in s continue through t in s2
pub proof fn lemma_chain_through(s2: SS, s: SS, x: int, t: Unifiable, i: int, f: nat, g: nat)
    requires
        is_bind(s2, s, x, t),
        var_end(s, i, f) == Some(x),
        var_end(s2, x, g) is Some,
    ensures var_end(s2, i, f + g) is Some,
    decreases f,
{
    if i == x {
        lemma_var_end_mono(s2, x, g, f + g);
    } else {
        assert(bnd(s2, i) == bnd(s, i));
        match bnd(s, i) {
            None => { assert(false); },
            Some(u) => match u {
                Unifiable::LogicVar{id, name} => {
                    if f > 0 {
                        lemma_chain_through(s2, s, x, t, id as int, (f - 1) as nat, g);
                        assert(f - 1 + g == (f + g) - 1);
                    } else {
                        assert(false);
                    }
                },
                _ => { assert(false); },
            },
        }
    }
}

// Binding unbound x to t keeps chains finite when t is not a variable, or is a
// variable whose own chain does not lead back to x.
pub proof fn lemma_bind_keeps_acyclic(s2: SS, s: SS, x: int, t: Unifiable)
    requires
        is_bind(s2, s, x, t),
        acyclic(s),
        t matches Unifiable::LogicVar{id, name} ==>
            exists|f: nat| (#[trigger] var_end(s, id as int, f)) is Some && var_end(s, id as int, f) != Some(x),
    ensures acyclic(s2),
{
    // chain from x in s2
    let gx: nat = match t {
        Unifiable::LogicVar{id, name} => {
            let f = choose|f: nat| (#[trigger] var_end(s, id as int, f)) is Some && var_end(s, id as int, f) != Some(x);
            lemma_chain_avoids(s2, s, x, t, id as int, f);
            assert(var_end(s2, x, f + 1) == var_end(s2, id as int, f));
            f + 1
        },
        _ => { 0 },
    };
    assert(var_end(s2, x, gx) is Some);
    assert forall|i: int| #[trigger] ends(s2, i) by {
        assert(ends(s, i));
        let f = choose|f: nat| (#[trigger] var_end(s, i, f)) is Some;
        if var_end(s, i, f) == Some(x) {
            lemma_chain_through(s2, s, x, t, i, f, gx);
            assert(var_end(s2, i, f + gx) is Some);
        } else {
            lemma_chain_avoids(s2, s, x, t, i, f);
            assert(var_end(s2, i, f) is Some);
        }
    }
}

// one step along a chain
pub proof fn lemma_var_end_step(s: SS, i: int, j: int, f: nat)
    requires bnd(s, i) matches Some(u) && (u matches Unifiable::LogicVar{id, name} && id == j), var_end(s, i, f) is Some, f > 0,
    ensures var_end(s, j, (f - 1) as nat) == var_end(s, i, f),
{
}

// ---------------------------------------------------------------------------
// The clause set of unify, as spec functions, so that "same outcome as
// unifying X with Y" (C13) can be stated about a result.
// ---------------------------------------------------------------------------
pub type RSS = Rc<Vec<Option<Rc<Unifiable>>>>;


pub open spec fn unbound_var(t: Unifiable, s: SS) -> bool {
    t is LogicVar && bnd(s, t->LogicVar_id as int) is None
}

// $_ on either side: success with the identical substitution (C09)
pub open spec fn post_anon(a: Unifiable, b: Unifiable, ss: RSS, res: Option<RSS>) -> bool {
    (a is Anonymous || b is Anonymous) ==> res == Some(ss)
}
// earlier bindings are kept (C06)
pub open spec fn post_keeps(ss: RSS, res: Option<RSS>) -> bool {
    res matches Some(r) ==> extends(r@, ss@)
}
// the result is a substitution of the same kind (C06)
pub open spec fn post_kind(ss: RSS, res: Option<RSS>) -> bool {
    res matches Some(r) ==> ss_ok(r@)
}
// variable chains stay finite (C08)
pub open spec fn post_acyclic(ss: RSS, res: Option<RSS>) -> bool {
    res matches Some(r) ==> acyclic(r@)
}
// equal terms unify without any new binding (C06 'binds no more than an MGU')
pub open spec fn post_same(a: Unifiable, b: Unifiable, ss: RSS, res: Option<RSS>) -> bool {
    ueq(a, b) ==> res == Some(ss)
}
// different constants do not unify; a failed unification reports failure (C06).
// (float/float inequality is decided by an exec f64 comparison, which Verus leaves unspecified)
pub open spec fn post_clash(a: Unifiable, b: Unifiable, ss: RSS, res: Option<RSS>) -> bool {
    is_const(a) && is_const(b) && !ueq(a, b) && !(a is SFloat && b is SFloat) ==> res is None
}
// an unbound variable against a constant: success, and exactly that binding is added (C06)
pub open spec fn post_bindvar(a: Unifiable, b: Unifiable, ss: RSS, res: Option<RSS>) -> bool {
    &&& (unbound_var(a, ss@) && is_const(b) ==>
            (res matches Some(r) && is_bind(r@, ss@, a->LogicVar_id as int, b)))
    &&& (unbound_var(b, ss@) && is_const(a) ==>
            (res matches Some(r) && is_bind(r@, ss@, b->LogicVar_id as int, a)))
}

pub open spec fn upost(a: Unifiable, b: Unifiable, ss: RSS, res: Option<RSS>) -> bool {
    &&& post_anon(a, b, ss, res)
    &&& post_keeps(ss, res)
    &&& post_kind(ss, res)
    &&& post_acyclic(ss, res)
    &&& post_same(a, b, ss, res)
    &&& post_clash(a, b, ss, res)
    &&& post_bindvar(a, b, ss, res)
}

// --- built-in functions (C13) ------------------------------------------------
// The value a built-in function term evaluates to.  Uninterpreted: it is *defined* as
// what evaluate_<name>(terms, ss) returns (those functions are pure); their arithmetic
// is checked by Kani under C12.
pub uninterp spec fn fn_value(name: Seq<char>, terms: Seq<Unifiable>, s: SS) -> Unifiable;

pub open spec fn is_builtin_fn(name: Seq<char>) -> bool {
    name == "join"@ || name == "add"@ || name == "subtract"@ || name == "multiply"@ || name == "divide"@
}

pub open spec fn fval(t: Unifiable, s: SS) -> Unifiable {
    fn_value(t->SFunction_name@, t->SFunction_terms@, s)
}

pub open spec fn is_fn(t: Unifiable) -> bool { t is SFunction && is_builtin_fn(t->SFunction_name@) }

// "unifying a function term with another term gives the same outcome as unifying the
// function's value with that term", whichever side the function is on (C13)
pub open spec fn post_function(a: Unifiable, b: Unifiable, ss: RSS, res: Option<RSS>) -> bool {
    &&& (is_fn(a) && !is_fn(b) && !(b is SFunction) && !(b is Anonymous) && !ueq(a, b) ==> upost(fval(a, ss@), b, ss, res))
    &&& (is_fn(b) && !is_fn(a) && !(a is SFunction) && !(a is Anonymous) && !ueq(a, b) ==> upost(fval(b, ss@), a, ss, res))
    &&& (is_fn(a) && is_fn(b) && !ueq(a, b) ==> upost(fval(b, ss@), fval(a, ss@), ss, res))
}

// Whether self.unify(other, ss) succeeds.  Uninterpreted; tied to the real function
// only by the stub-only clause `(res is Some) == unify_ok(..)` (unify is pure).
pub uninterp spec fn unify_ok(a: Unifiable, b: Unifiable, s: SS) -> bool;

// --- `$_` at nested positions (C09) ------------------------------------------------
// a and b match purely because of `$_` (or are equal): complex terms of the same arity whose
// arguments match in this way, position by position; lists whose elements and tails do
pub open spec fn anon_match(a: Unifiable, b: Unifiable) -> bool
    decreases a,
{
    a is Anonymous || b is Anonymous || ueq(a, b)
    || match (a, b) {
        (Unifiable::SComplex(x), Unifiable::SComplex(y)) => anon_match_seq(x@, y@),
        (Unifiable::SLinkedList{term: t1, next: n1, count: _, tail_var: tv1},
         Unifiable::SLinkedList{term: t2, next: n2, count: _, tail_var: tv2}) =>
            if tv1 && tv2 { anon_match(*t1, *t2) }
            else if tv1 { *t1 is Anonymous }
            else if tv2 { *t2 is Anonymous }
            else if *t1 == Unifiable::Nil && *t2 == Unifiable::Nil { true }
            else if *t1 == Unifiable::Nil || *t2 == Unifiable::Nil { false }
            else { anon_match(*t1, *t2) && anon_match(*n1, *n2) },
        _ => false,
    }
}

pub open spec fn anon_match_seq(a: Seq<Unifiable>, b: Seq<Unifiable>) -> bool
    decreases a,
{
    a.len() == b.len() && (a.len() == 0 || (anon_match(a[0], b[0]) && anon_match_seq(a.drop_first(), b.drop_first())))
}

// one step down two list nodes that match through `$_`
pub proof fn lemma_anon_match_nodes(x: Unifiable, y: Unifiable)
    requires x is SLinkedList, y is SLinkedList, anon_match(x, y),
             !x->SLinkedList_tail_var, !y->SLinkedList_tail_var,
             *x->SLinkedList_term != Unifiable::Nil || *y->SLinkedList_term != Unifiable::Nil,
    ensures
        anon_match(*x->SLinkedList_term, *y->SLinkedList_term),
        anon_match(*x->SLinkedList_next, *y->SLinkedList_next),
        *x->SLinkedList_term != Unifiable::Nil, *y->SLinkedList_term != Unifiable::Nil,
{
    if ueq(x, y) {
        assert(ueq(*x->SLinkedList_term, *y->SLinkedList_term));
        assert(ueq(*x->SLinkedList_next, *y->SLinkedList_next));
    }
}

pub proof fn lemma_anon_match_seq_index(a: Seq<Unifiable>, b: Seq<Unifiable>, i: int)
    requires anon_match_seq(a, b), 0 <= i < a.len(),
    ensures anon_match(a[i], b[i]),
    decreases a.len(),
{
    if i > 0 { lemma_anon_match_seq_index(a.drop_first(), b.drop_first(), i - 1); }
}

// matching through `$_` never creates or changes a binding, at any depth of complex terms and lists (C09)
pub open spec fn post_anon_deep(a: Unifiable, b: Unifiable, ss: RSS, res: Option<RSS>) -> bool {
    anon_match(a, b) ==> res == Some(ss)
}

// binding x to t keeps every bound that holds for the old bindings and for t
pub proof fn lemma_bind_below(s2: SS, s: SS, x: int, t: Unifiable)
    requires is_bind(s2, s, x, t),
    ensures forall|b: int| ss_below(s, b) && below(t, b) ==> #[trigger] ss_below(s2, b),
{
    assert forall|b: int| ss_below(s, b) && below(t, b) implies #[trigger] ss_below(s2, b) by {
        assert forall|i: int| 0 <= i < s2.len() implies ((#[trigger] s2[i]) matches Some(r) ==> below(*r, b)) by {
            if i == x { assert(bnd(s2, x) == Some(t)); }
            else { assert(bnd(s2, i) == bnd(s, i)); if i < s.len() { assert(s2[i] == s[i]); } }
        }
    }
}
