#!/usr/bin/env python3
"""dev helper: vshow.py <unit> [--repo DIR] -- extract, run verus, print compact failures"""
import sys, os, json
sys.path.insert(0, os.path.dirname(os.path.abspath(__file__)))
import check
unit = sys.argv[1]
repo = '/repo'
if '--repo' in sys.argv:
    repo = sys.argv[sys.argv.index('--repo') + 1]
r = check.verify_unit(unit, repo, canary=(sys.argv[sys.argv.index('--canary') + 1] if '--canary' in sys.argv else False))
print('unit %s: verified=%d errors=%d undecided=%s wall=%.1fs' % (unit, r.verified, r.errors, r.undecided, r.wall))
seen = set()
for f in r.failures:
    name = check.obligation_name(f)
    site = check.site_text(f)
    sl = ''
    for o in f['spans']:
        if o.get('k') == 'src':
            sl = '%s:%s' % (o['file'], o['line'])
    gl = [o['gen_line'] for o in f['spans']]
    k = (name, site)
    if k in seen: continue
    seen.add(k)
    print('  - %s\n      @ %s  [%s] gen%s' % (name, site, sl, gl))
slow = sorted(r.times.items(), key=lambda kv: -kv[1]['ms'])[:5]
print('  slowest:', ', '.join('%s %dms' % (k.split('::')[-1], v['ms']) for k, v in slow))
