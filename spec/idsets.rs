// ---------------------------------------------------------------------------
// spec/idsets.rs -- bounds on the variable ids of terms, goals and rules (C10: "no fresh variable is in use elsewhere").
// `below` / `below_seq` / `ss_below` (upper bound, exclusive) are in spec/subst.rs; here: the lower bound, goals, rules,
// monotonicity, and the bridge from the renaming map of get_rule (all_fresh) to an interval of ids.
// ---------------------------------------------------------------------------
pub open spec fn ids_above(t: Unifiable, lo: int) -> bool
    decreases t,
{
    match t {
        Unifiable::LogicVar{id, name} => id > lo,
        Unifiable::SComplex(ts) => ids_above_seq(ts@, lo),
        Unifiable::SLinkedList{term, next, count, tail_var} => ids_above(*term, lo) && ids_above(*next, lo),
        Unifiable::SFunction{name, terms} => ids_above_seq(terms@, lo),
        _ => true,
    }
}
pub open spec fn ids_above_seq(s: Seq<Unifiable>, lo: int) -> bool
    decreases s,
{
    s.len() == 0 || (ids_above(s[0], lo) && ids_above_seq(s.drop_first(), lo))
}
pub open spec fn gl_goals(a: Operator) -> Seq<Goal> {
    match a { Operator::And(x) => x@, Operator::Or(x) => x@, Operator::Time(x) => x@, Operator::Not(x) => x@ }
}
// every variable id of the goal is below b / above lo
pub open spec fn goal_below(g: Goal, b: int) -> bool
    decreases g,
{
    match g {
        Goal::OperatorGoal(x) => goals_below(gl_goals(x), b),
        Goal::BuiltInGoal(x) => (x.terms matches Some(t) ==> below_seq(t@, b)),
        Goal::ComplexGoal(x) => below(x, b),
        Goal::Nil => true,
    }
}
pub open spec fn goals_below(s: Seq<Goal>, b: int) -> bool
    decreases s,
{
    s.len() == 0 || (goal_below(s[0], b) && goals_below(s.drop_first(), b))
}
pub open spec fn goal_above(g: Goal, lo: int) -> bool
    decreases g,
{
    match g {
        Goal::OperatorGoal(x) => goals_above(gl_goals(x), lo),
        Goal::BuiltInGoal(x) => (x.terms matches Some(t) ==> ids_above_seq(t@, lo)),
        Goal::ComplexGoal(x) => ids_above(x, lo),
        Goal::Nil => true,
    }
}
pub open spec fn goals_above(s: Seq<Goal>, lo: int) -> bool
    decreases s,
{
    s.len() == 0 || (goal_above(s[0], lo) && goals_above(s.drop_first(), lo))
}
// the variable ids of a rule lie in (lo, hi]
pub open spec fn rule_ids_in(r: Rule, lo: int, hi: int) -> bool {
    below(r.head, hi + 1) && goal_below(r.body, hi + 1) && ids_above(r.head, lo) && goal_above(r.body, lo)
}

// ---- monotonicity ---------------------------------------------------------------------------------------------------
pub proof fn lemma_below_mono(t: Unifiable, b: int, c: int)
    requires below(t, b), b <= c,
    ensures below(t, c),
    decreases t,
{
    match t {
        Unifiable::SComplex(ts) => { lemma_below_seq_mono(ts@, b, c); },
        Unifiable::SLinkedList{term, next, count, tail_var} => { lemma_below_mono(*term, b, c); lemma_below_mono(*next, b, c); },
        Unifiable::SFunction{name, terms} => { lemma_below_seq_mono(terms@, b, c); },
        _ => {},
    }
}
pub proof fn lemma_below_seq_mono(s: Seq<Unifiable>, b: int, c: int)
    requires below_seq(s, b), b <= c,
    ensures below_seq(s, c),
    decreases s,
{
    if s.len() > 0 { lemma_below_mono(s[0], b, c); lemma_below_seq_mono(s.drop_first(), b, c); }
}
pub proof fn lemma_goal_below_mono(g: Goal, b: int, c: int)
    requires goal_below(g, b), b <= c,
    ensures goal_below(g, c),
    decreases g,
{
    match g {
        Goal::OperatorGoal(x) => { lemma_goals_below_mono(gl_goals(x), b, c); },
        Goal::BuiltInGoal(x) => { if let Some(t) = x.terms { lemma_below_seq_mono(t@, b, c); } },
        Goal::ComplexGoal(x) => { lemma_below_mono(x, b, c); },
        Goal::Nil => {},
    }
}
pub proof fn lemma_goals_below_mono(s: Seq<Goal>, b: int, c: int)
    requires goals_below(s, b), b <= c,
    ensures goals_below(s, c),
    decreases s,
{
    if s.len() > 0 { lemma_goal_below_mono(s[0], b, c); lemma_goals_below_mono(s.drop_first(), b, c); }
}
pub proof fn lemma_ss_below_mono(s: SS, b: int, c: int)
    requires ss_below(s, b), b <= c,
    ensures ss_below(s, c),
{
    assert forall|i: int| 0 <= i < s.len() implies ((#[trigger] s[i]) matches Some(r) ==> below(*r, c)) by {
        if let Some(r) = s[i] { lemma_below_mono(*r, b, c); }
    }
}
pub proof fn lemma_goals_below_index(s: Seq<Goal>, b: int, i: int)
    requires goals_below(s, b), 0 <= i < s.len(),
    ensures goal_below(s[i], b),
    decreases s.len(),
{
    if i > 0 { lemma_goals_below_index(s.drop_first(), b, i - 1); }
}
pub proof fn lemma_goals_below_from(s: Seq<Goal>, b: int)
    requires forall|i: int| 0 <= i < s.len() ==> goal_below(#[trigger] s[i], b),
    ensures goals_below(s, b),
    decreases s.len(),
{
    if s.len() > 0 {
        assert forall|i: int| 0 <= i < s.drop_first().len() implies goal_below(#[trigger] s.drop_first()[i], b) by { assert(s.drop_first()[i] == s[i + 1]); }
        lemma_goals_below_from(s.drop_first(), b);
    }
}

// the ids of the arguments of a built-in predicate and of the bindings it is given
pub open spec fn bip_below(b: BuiltInPredicate, ss: SS, c: int) -> bool {
    (b.terms matches Some(t) ==> below_seq(t@, c)) && ss_below(ss, c)
}
