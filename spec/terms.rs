// ---------------------------------------------------------------------------
// spec/terms.rs -- specification vocabulary over the REAL `Unifiable` type.
// Trusted items are marked TRUSTED(Tn) and are listed by scan_assumptions.py.
// ---------------------------------------------------------------------------

// R2 target: every reachable panic!() becomes a failed precondition.
#[verifier::external_body]
pub fn verif_panic() -> !
    requires false,
{ panic!() }

// R4 target: format!() result is an arbitrary String (TRUSTED(T4): returns, does not panic).
#[verifier::external_body]
pub fn verif_format() -> String
{ String::new() }

// float equality as computed by `f64 == f64` in exec code (IEEE): vstd's eq_spec for f64, whose value is
// left open by vstd (see the axiom below) - nothing is assumed about it here.
pub open spec fn feq(a: f64, b: f64) -> bool { vstd::std_specs::cmp::PartialEqSpec::eq_spec(&a, &b) }

// TRUSTED(T6): IEEE-754 comparison of two f64 values is a deterministic function of the two values
// (Verus leaves `obeys_*_spec` for f64 undetermined; this axiom fixes it to true, which makes the exec
// operators == < <= > >= on f64 equal to vstd's spec functions eq_spec / partial_cmp_spec).
pub axiom fn axiom_f64_cmp_is_a_function()
    ensures
        <f64 as vstd::std_specs::cmp::PartialEqSpec>::obeys_eq_spec(),
        <f64 as vstd::std_specs::cmp::PartialOrdSpec>::obeys_partial_cmp_spec();


// Structural equality = meaning assumed for #[derive(PartialEq)]  TRUSTED(T1)
pub open spec fn ueq(a: Unifiable, b: Unifiable) -> bool
    decreases a,
{
    match (a, b) {
        (Unifiable::Nil, Unifiable::Nil) => true,
        (Unifiable::Anonymous, Unifiable::Anonymous) => true,
        (Unifiable::Atom(s1), Unifiable::Atom(s2)) => s1@ == s2@,
        (Unifiable::SFloat(f1), Unifiable::SFloat(f2)) => feq(f1, f2),
        (Unifiable::SInteger(i1), Unifiable::SInteger(i2)) => i1 == i2,
        (Unifiable::LogicVar{id: id1, name: n1}, Unifiable::LogicVar{id: id2, name: n2}) =>
            id1 == id2 && n1@ == n2@,
        (Unifiable::SComplex(t1), Unifiable::SComplex(t2)) => ueq_seq(t1@, t2@),
        (Unifiable::SLinkedList{term: t1, next: n1, count: c1, tail_var: tv1},
         Unifiable::SLinkedList{term: t2, next: n2, count: c2, tail_var: tv2}) =>
            ueq(*t1, *t2) && ueq(*n1, *n2) && c1 == c2 && tv1 == tv2,
        (Unifiable::SFunction{name: f1, terms: t1}, Unifiable::SFunction{name: f2, terms: t2}) =>
            f1@ == f2@ && ueq_seq(t1@, t2@),
        _ => false,
    }
}

pub open spec fn ueq_seq(a: Seq<Unifiable>, b: Seq<Unifiable>) -> bool
    decreases a,
{
    a.len() == b.len() && (a.len() == 0 || (ueq(a[0], b[0]) && ueq_seq(a.drop_first(), b.drop_first())))
}

// structural equality is symmetric (IEEE `==` is: spec/std_eq.rs) - `a == b` and `b == a` are the same test
pub proof fn lemma_ueq_sym(a: Unifiable, b: Unifiable)
    ensures ueq(a, b) == ueq(b, a),
    decreases a,
{
    match (a, b) {
        (Unifiable::SComplex(t1), Unifiable::SComplex(t2)) => { lemma_ueq_seq_sym(t1@, t2@); },
        (Unifiable::SLinkedList{term: t1, next: n1, count: c1, tail_var: tv1},
         Unifiable::SLinkedList{term: t2, next: n2, count: c2, tail_var: tv2}) => { lemma_ueq_sym(*t1, *t2); lemma_ueq_sym(*n1, *n2); },
        (Unifiable::SFunction{name: f1, terms: t1}, Unifiable::SFunction{name: f2, terms: t2}) => { lemma_ueq_seq_sym(t1@, t2@); },
        _ => {},
    }
}
pub proof fn lemma_ueq_seq_sym(a: Seq<Unifiable>, b: Seq<Unifiable>)
    ensures ueq_seq(a, b) == ueq_seq(b, a),
    decreases a,
{
    if a.len() == b.len() && a.len() > 0 {
        lemma_ueq_sym(a[0], b[0]);
        lemma_ueq_seq_sym(a.drop_first(), b.drop_first());
    }
}

// TRUSTED(T1): rustc's derived PartialEq on Unifiable computes `ueq`.
impl vstd::std_specs::cmp::PartialEqSpecImpl for Unifiable {
    open spec fn obeys_eq_spec() -> bool { true }
    open spec fn eq_spec(&self, other: &Unifiable) -> bool { ueq(*self, *other) }
}

// TRUSTED(T1): rustc's derived Clone on Unifiable returns an equal value.
pub assume_specification[ <Unifiable as Clone>::clone ](u: &Unifiable) -> (r: Unifiable)
    ensures r == *u;

// --- lists -----------------------------------------------------------------

pub open spec fn empty_node() -> Unifiable {
    Unifiable::SLinkedList{term: Box::new(Unifiable::Nil), next: Box::new(Unifiable::Nil), count: 0, tail_var: false}
}

pub open spec fn is_empty_node(t: Unifiable) -> bool {
    t matches Unifiable::SLinkedList{term, next, count, tail_var}
        && *term == Unifiable::Nil && *next == Unifiable::Nil && count == 0 && !tail_var
}

// number of element/tail nodes before the terminating empty node
pub open spec fn node_count(t: Unifiable) -> nat
    decreases t,
{
    match t {
        Unifiable::SLinkedList{term, next, count, tail_var} =>
            if *term == Unifiable::Nil { 0 } else { 1 + node_count(*next) },
        _ => 0,
    }
}

// a tail position may hold a variable or $_
pub open spec fn is_tail_term(t: Unifiable) -> bool {
    t is LogicVar || t is Anonymous
}

// Well-formed list: chain of SLinkedList nodes ending in the empty node
// (Nil, Nil, 0, false); every node's count is the number of nodes from it
// to the end; only the last node may be a tail variable node.
pub open spec fn wf_list(t: Unifiable) -> bool
    decreases t,
{
    match t {
        Unifiable::SLinkedList{term, next, count, tail_var} =>
            if *term == Unifiable::Nil {
                *next == Unifiable::Nil && count == 0 && !tail_var
            } else {
                &&& wf_list(*next)
                &&& count == 1 + node_count(*next)
                &&& (tail_var ==> is_empty_node(*next) && is_tail_term(*term))
            },
        _ => false,
    }
}

// the elements (tail variable excluded)
pub open spec fn elems(t: Unifiable) -> Seq<Unifiable>
    decreases t,
{
    match t {
        Unifiable::SLinkedList{term, next, count, tail_var} =>
            if *term == Unifiable::Nil || tail_var { Seq::empty() }
            else { seq![*term] + elems(*next) },
        _ => Seq::empty(),
    }
}

// the tail variable, if the list has one
pub open spec fn tail_of(t: Unifiable) -> Option<Unifiable>
    decreases t,
{
    match t {
        Unifiable::SLinkedList{term, next, count, tail_var} =>
            if *term == Unifiable::Nil { None }
            else if tail_var { Some(*term) }
            else { tail_of(*next) },
        _ => None,
    }
}

pub open spec fn no_nil(s: Seq<Unifiable>) -> bool {
    forall|i: int| 0 <= i < s.len() ==> s[i] != Unifiable::Nil
}

pub proof fn lemma_node_count_elems(t: Unifiable)
    requires wf_list(t),
    ensures node_count(t) == elems(t).len() + (if tail_of(t) is Some { 1nat } else { 0nat }),
            no_nil(elems(t)),
    decreases t,
{
    match t {
        Unifiable::SLinkedList{term, next, count, tail_var} => {
            if *term == Unifiable::Nil {
            } else if tail_var {
                assert(is_empty_node(*next));
                assert(node_count(*next) == 0);
            } else {
                lemma_node_count_elems(*next);
            }
        },
        _ => {},
    }
}

// TRUSTED(T2): std's `impl PartialEq for Rc<T>` compares the pointees; vstd has no spec for it.
pub axiom fn axiom_rc_eq()
    ensures
        <Rc<Unifiable> as vstd::std_specs::cmp::PartialEqSpec>::obeys_eq_spec(),
        forall|a: Rc<Unifiable>, b: Rc<Unifiable>|
            #[trigger] <Rc<Unifiable> as vstd::std_specs::cmp::PartialEqSpec>::eq_spec(&a, &b) == ueq(*a, *b);

// shape of a well-formed list node
pub proof fn lemma_list_shape(t: Unifiable)
    requires wf_list(t),
    ensures
        t is SLinkedList,
        (*t->SLinkedList_next) is SLinkedList || (*t->SLinkedList_next) == Unifiable::Nil,
        (*t->SLinkedList_term) != Unifiable::Nil ==> wf_list(*t->SLinkedList_next),
{
    reveal_with_fuel(wf_list, 2);
}
