#!/usr/bin/env python3
"""seed_prompt.py <prop> <worktree> -- creates a scratch git worktree of /repo at <worktree> and prints the prompt
for a seeding sub-agent (property text only; nothing from /verif)."""
import sys, json, subprocess, os
prop, wt = sys.argv[1], sys.argv[2]
p = None
for l in open(os.path.join(os.path.dirname(os.path.dirname(os.path.abspath(__file__))), 'properties.jsonl')):
    d = json.loads(l)
    if d['id'] == prop:
        p = d
if not os.path.exists(wt):
    subprocess.run(['git', '-C', '/repo', 'worktree', 'add', '--detach', wt, 'HEAD'], check=True, capture_output=True)
anch = p.get('anchors')
if isinstance(anch, list):
    anch = '; '.join(a if isinstance(a, str) else json.dumps(a) for a in anch)
extra = sys.argv[3] if len(sys.argv) > 3 else ''
print(f'''You are helping test a verification framework by writing a realistic *bug* for a small Rust project (a Prolog-like inference engine called Suiron). You work ONLY inside your own scratch git worktree of the project at {wt} (a checkout of the current main branch; build with `cargo build --offline`, run the tests with `cargo nextest run --workspace --no-fail-fast --offline --test-threads 8`; export CARGO_TARGET_DIR={wt}/target and CARGO_NET_OFFLINE=true so you do not share build output; use at most `-j 4` for builds). Do not touch /repo or /verif, and do not read anything under /verif.

Here is a semantic property that the project is supposed to satisfy:

  id: {p['id']}
  title: {p['title']}
  statement: {p['statement']}
  quantified over: {p['quantifier']['text']}
  code anchors (line numbers may have drifted): {anch}

Your task: produce ONE small source change under src/ (a plausible refactoring, optimisation or "fix" a maintainer could have written in good faith - not an obviously malicious edit, no new dependencies, no cfg tricks, no randomness, no special-casing of magic constants) that BREAKS this property while the crate still compiles and the whole existing test suite (100 tests) still passes. The breakage must need something specific to manifest - an unusual input, a multi-step sequence of operations, a particular combination of argument kinds, or two cooperating sites that each look fine alone - not something ordinary use would expose at once. {extra}

Deliver, inside {wt}:
  1. the change applied to the working tree (src/ only; do not edit tests/ or existing files outside src/);
  2. a demonstration program `examples/seed_demo.rs` (uses the public API of the crate `suiron`; prints what it checks; exits 0 / prints OK when the property holds on the case(s) it exercises and panics or exits non-zero when it does not). It must FAIL with your change and PASS without it;
  3. `seed_out/patch.diff` = `git diff -- src` (the change only, not the demo), `seed_out/demo.rs` = a copy of the demo, and `seed_out/meta.json` with the keys "property", "what_it_breaks" (plain description), "needs_to_manifest" (what specific input / sequence is needed), "files" (changed files), "commands_run" (what you ran, with outcomes).
Before you finish, verify all of it yourself: tests pass with the change (state the summary line); demo exits non-zero with the change; `git diff -- src > /tmp/<your worktree name>.patch; git apply -R /tmp/<your worktree name>.patch`, demo exits 0; `git apply /tmp/<your worktree name>.patch`, demo fails again (do NOT use `git stash`: the stash is shared by all worktrees of the repository and other agents work in parallel). Leave the change applied in the working tree. In your final message report: the diff, why the tests do not notice, the demo output with and without the change, and the test summary line.''')
