// ---------------------------------------------------------------------------
// spec/replace.rs -- resolving a term for output (replace_variables; C08 "resolving or printing answers
// always terminates").  Termination measure: the size of the term's value under a solution of the bindings
// (bindings that need no occurs check have one), then a rank that decreases along variable chains.
// ---------------------------------------------------------------------------

pub open spec fn gt_size(g: GT) -> nat
    decreases g,
{
    match g {
        GT::GCx(s) => 1 + gt_seq_size(s),
        GT::GFn(n, s) => 1 + gt_seq_size(s),
        GT::GCons(a, b) => 1 + gt_size(*a) + gt_size(*b),
        _ => 1,
    }
}
pub open spec fn gt_seq_size(s: Seq<GT>) -> nat
    decreases s,
{
    if s.len() == 0 { 0 } else { gt_size(s[0]) + gt_seq_size(s.drop_first()) }
}

pub proof fn lemma_gt_size_pos(g: GT)
    ensures gt_size(g) >= 1,
{
}

pub proof fn lemma_gt_seq_size_index(s: Seq<GT>, k: int)
    requires 0 <= k < s.len(),
    ensures gt_size(s[k]) <= gt_seq_size(s),
    decreases s.len(),
{
    if k > 0 {
        lemma_gt_seq_size_index(s.drop_first(), k - 1);
        assert(s.drop_first()[k - 1] == s[k]);
    }
}

// some solution of the bindings (meaningful when one exists)
pub open spec fn a_solution(s: SS) -> Theta { choose|th: Theta| solves(th, s) }
pub open spec fn solvable(s: SS) -> bool { exists|th: Theta| solves(th, s) }

pub open spec fn val_size(s: SS, t: Unifiable) -> nat { gt_size(ap(a_solution(s), t)) }

// second component of the measure
pub open spec fn rank(s: SS, t: Unifiable) -> nat {
    match t {
        Unifiable::LogicVar{id, name} => 3 + chain_len(s, id as int),
        Unifiable::SLinkedList{term, next, count, tail_var} =>
            if tail_var { match *term { Unifiable::LogicVar{id, name} => 4 + chain_len(s, id as int), _ => 4 } }
            else if *term == Unifiable::Nil { 1 }
            else { 0 },
        _ => 0,
    }
}

// --- the terms resolution is defined on: every term (function terms included since 8.31), but no list
//     that is entered at a tail-variable node (`[ | $T]`, which no parser or unification produces; with it
//     $X = [ | $T], $T = $X would make resolution loop although no occurs check is involved)
pub open spec fn plain(t: Unifiable) -> bool
    decreases t, 1nat,
{
    match t {
        Unifiable::SFunction{name, terms} => plain_seq(terms@),
        Unifiable::Nil => false,
        Unifiable::SComplex(ts) => plain_seq(ts@),
        Unifiable::SLinkedList{term, next, count, tail_var} => !tail_var && plain_nodes(t),
        _ => true,
    }
}
pub open spec fn plain_nodes(t: Unifiable) -> bool
    decreases t, 0nat,
{
    match t {
        Unifiable::SLinkedList{term, next, count, tail_var} =>
            if tail_var { (*term is LogicVar || *term is Anonymous) && is_empty_node(*next) }
            else if *term == Unifiable::Nil { *next == Unifiable::Nil }
            else { plain(*term) && plain_nodes(*next) },
        _ => false,
    }
}
pub open spec fn plain_seq(s: Seq<Unifiable>) -> bool
    decreases s, 0nat,
{
    s.len() == 0 || (plain(s[0]) && plain_seq(s.drop_first()))
}
pub proof fn lemma_plain_seq_index(s: Seq<Unifiable>, k: int)
    requires plain_seq(s), 0 <= k < s.len(),
    ensures plain(s[k]),
    decreases s.len(),
{
    if k > 0 { lemma_plain_seq_index(s.drop_first(), k - 1); }
}
pub open spec fn plain_ss(s: SS) -> bool {
    forall|i: int| 0 <= i < s.len() ==> ((#[trigger] s[i]) matches Some(r) ==> plain(*r))
}
// what the recursion of replace_variables visits: a plain term, or - below a list node - a list node or Nil
pub open spec fn visitable(t: Unifiable) -> bool {
    plain(t) || plain_nodes(t) || t == Unifiable::Nil
}

// R10 target for `s.to_string()` on a &String (ToString for String is the blanket impl over Display)
#[verifier::external_body]
pub fn string_copy(s: &String) -> (r: String)
    ensures r@ == s@,
{ s.to_string() }

// the value of a complex term is larger than the value of each argument
pub proof fn lemma_complex_arg_smaller(th: Theta, ts: Seq<Unifiable>, k: int)
    requires 0 <= k < ts.len(),
    ensures gt_size(ap(th, ts[k])) < gt_size(GT::GCx(ap_seq(th, ts))),
{
    lemma_ap_seq_index(th, ts, k);
    lemma_gt_seq_size_index(ap_seq(th, ts), k);
}

// no variable of t is bound in s: t is fully resolved
pub open spec fn resolved(s: SS, t: Unifiable) -> bool
    decreases t,
{
    match t {
        Unifiable::LogicVar{id, name} => bnd(s, id as int) is None,
        Unifiable::SComplex(ts) => resolved_seq(s, ts@),
        Unifiable::SLinkedList{term, next, count, tail_var} => resolved(s, *term) && resolved(s, *next),
        _ => true,
    }
}
pub open spec fn resolved_seq(s: SS, ts: Seq<Unifiable>) -> bool
    decreases ts,
{
    ts.len() == 0 || (resolved(s, ts[0]) && resolved_seq(s, ts.drop_first()))
}
pub proof fn lemma_resolved_seq_from_pointwise(s: SS, ts: Seq<Unifiable>)
    requires forall|k: int| 0 <= k < ts.len() ==> resolved(s, #[trigger] ts[k]),
    ensures resolved_seq(s, ts),
    decreases ts.len(),
{
    if ts.len() > 0 {
        assert forall|k: int| 0 <= k < ts.drop_first().len() implies resolved(s, #[trigger] ts.drop_first()[k]) by {
            assert(ts.drop_first()[k] == ts[k + 1]);
        }
        lemma_resolved_seq_from_pointwise(s, ts.drop_first());
    }
}

// the value of an unevaluated function term is larger than the value of each argument
pub proof fn lemma_fn_arg_smaller(th: Theta, n: Seq<char>, ts: Seq<Unifiable>, k: int)
    requires 0 <= k < ts.len(),
    ensures gt_size(ap(th, ts[k])) < gt_size(GT::GFn(n, ap_seq(th, ts))),
{
    lemma_complex_arg_smaller(th, ts, k);
}
