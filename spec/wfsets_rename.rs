// ---------------------------------------------------------------------------
// spec/wfsets_rename.rs -- a renamed clause copy is well formed (unit rename)
// ---------------------------------------------------------------------------
pub proof fn lemma_good_goal_ok(g: Goal, m: VM)
    requires good_goal(g, m),
    ensures goal_ok(g),
    decreases g,
{
    match g {
        Goal::OperatorGoal(x) => { assert(gl_goals(x) == op_goals(x)); lemma_good_goals_ok(op_goals(x), m); },
        _ => {},
    }
}
pub proof fn lemma_good_goals_ok(s: Seq<Goal>, m: VM)
    requires good_goals(s, m),
    ensures goals_ok(s),
    decreases s,
{
    if s.len() > 0 { lemma_good_goal_ok(s[0], m); lemma_good_goals_ok(s.drop_first(), m); }
}
